#![no_main]
// One coverage-guided target for all properties: the semantic oracles live inside
// `vcheck::fuzz_one`; ASan (cargo-fuzz default) is the memory-safety oracle for the unsafe views.
use libfuzzer_sys::fuzz_target;

fuzz_target!(|data: &[u8]| {
    vcheck::fuzz_one(data);
});
