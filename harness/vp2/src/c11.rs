//! C11 — magnitude, distance, normalisation, angle, projection.

use vcore::engine::*;
use vcore::gen::*;
use vcore::q::{Fp, Q};
use vcore::refs::*;
use vcore::{ensure, ensure_eq};
use cgmath::prelude::*;
use cgmath::{BaseFloat, Point1, Point2, Point3, Quaternion, Vector1, Vector2, Vector3, Vector4};
use std::f64::consts::PI;
use std::fmt::Debug;
use vcore::traits::Comp;


/// exactly unit rational n-vector
fn unit_n(d: &mut Draw, n: usize) -> Vec<Q> {
    match n {
        1 => vec![if d.bool() { Q::ONE } else { -Q::ONE }],
        2 => {
            let (c, s) = circle_point::<Q>(d);
            vec![c, s]
        }
        3 => unit_vec3::<Q>(d).to_vec(),
        _ => unit_quat::<Q>(d).to_vec(),
    }
}

/// sqrt-free clauses over any exact field
fn inner_field<S: Sc, V: InnerSpace<Scalar = S> + Comp<S>>(d: &mut Draw) -> Outcome {
    let u: Vec<S> = vec_n(d, V::N);
    let mut v: Vec<S> = vec_n(d, V::N);
    if dotn(&v, &v) == S::zero() {
        v[0] = S::one();
        if dotn(&v, &v) == S::zero() {
            return Outcome::Discard("null vector in Fp");
        }
    }
    d.note("u", &u);
    d.note("v", &v);
    let (cu, cv) = (V::from_s(&u), V::from_s(&v));
    ensure_eq!(cu.magnitude2(), dotn(&u, &u), "magnitude2", "{}::magnitude2 vs sum of squares", V::NAME);
    let diff: Vec<S> = (0..V::N).map(|i| u[i] - v[i]).collect();
    ensure_eq!(cu.distance2(cv), dotn(&diff, &diff), "distance2", "{}::distance2(u,v) vs |u-v|^2", V::NAME);
    ensure_eq!(cu.distance2(cv), cv.distance2(cu), "distance2-symmetric", "{}::distance2 symmetric", V::NAME);
    ensure_eq!(cu.distance2(cv), (cu - cv).magnitude2(), "distance2-magnitude2", "{}::distance2 = magnitude2(u - v)", V::NAME);
    // projection
    let p = cu.project_on(cv).comps();
    let k = dotn(&u, &v) / dotn(&v, &v);
    let want: Vec<S> = v.iter().map(|x| *x * k).collect();
    ensure_eq!(p, want, "project_on", "{}::project_on(u,v) vs v (u.v)/(v.v)", V::NAME);
    for i in 0..V::N {
        for j in 0..i {
            ensure_eq!(p[i] * v[j] - p[j] * v[i], S::zero(), "project_on-parallel", "{}: projection not parallel to v (minor {},{})", V::NAME, i, j);
        }
    }
    let rest: Vec<S> = (0..V::N).map(|i| u[i] - p[i]).collect();
    ensure_eq!(dotn(&rest, &v), S::zero(), "project_on-orthogonal", "{}: (u - proj).v", V::NAME);
    let nt = all_nonzero(&u) && all_nonzero(&v) && dotn(&u, &v) != S::zero();
    pass(if nt { "generic" } else { "degenerate" }, nt)
}

fn metric_field<S: Sc, P: MetricSpace<Metric = S> + Comp<S>>(d: &mut Draw) -> Outcome {
    let u: Vec<S> = vec_n(d, P::N);
    let v: Vec<S> = vec_n(d, P::N);
    d.note("p", &u);
    d.note("q", &v);
    let (cu, cv) = (P::from_s(&u), P::from_s(&v));
    let diff: Vec<S> = (0..P::N).map(|i| u[i] - v[i]).collect();
    ensure_eq!(cu.distance2(cv), dotn(&diff, &diff), "point-distance2", "{}::distance2(p,q) vs |p-q|^2", P::NAME);
    ensure_eq!(cu.distance2(cv), cv.distance2(cu), "point-distance2-symmetric", "{}::distance2 symmetric", P::NAME);
    let nt = all_nonzero(&diff);
    pass(if nt { "generic" } else { "degenerate" }, nt)
}

/// rational lengths: every square root inside cgmath is exact
fn lengths_q<V: InnerSpace<Scalar = Q> + Comp<Q>>(d: &mut Draw) -> Outcome {
    let n = V::N;
    let lam = <Q as Sc>::gen_nz(d);
    let mu = <Q as Sc>::gen_nz(d);
    let m = <Q as Sc>::gen_nz(d);
    let e = unit_n(d, n);
    let f = unit_n(d, n);
    let v: Vec<Q> = e.iter().map(|x| *x * lam).collect();
    let w: Vec<Q> = f.iter().map(|x| *x * mu).collect();
    let u: Vec<Q> = (0..n).map(|i| v[i] + w[i]).collect();
    d.note("v (length |lambda|)", &v);
    d.note("w (length |mu|)", &w);
    d.note("lambda, mu, m", &(lam, mu, m));
    let (cv, cu) = (V::from_s(&v), V::from_s(&u));
    let len = lam.abs_();
    ensure_eq!(cv.magnitude(), len, "magnitude", "{}::magnitude of a vector of rational length", V::NAME);
    ensure_eq!(cv.magnitude() * cv.magnitude(), cv.magnitude2(), "magnitude-squared", "{}: magnitude^2 = magnitude2", V::NAME);
    ensure!(cv.magnitude2() >= Q::ZERO, "magnitude2-negative", "magnitude2 < 0");
    let nv = cv.normalize().comps();
    let want: Vec<Q> = v.iter().map(|x| *x / len).collect();
    ensure_eq!(nv, want, "normalize", "{}::normalize(v) = v/|v|", V::NAME);
    ensure_eq!(dotn(&nv, &nv), Q::ONE, "normalize-unit", "{}: |normalize(v)|^2", V::NAME);
    let nt_ = cv.normalize_to(m).comps();
    let want: Vec<Q> = v.iter().map(|x| *x * m / len).collect();
    ensure_eq!(nt_, want, "normalize_to", "{}::normalize_to(v,m) = v m/|v|", V::NAME);
    ensure_eq!(dotn(&nt_, &nt_), m * m, "normalize_to-length", "{}: |normalize_to(v,m)|^2 = m^2", V::NAME);
    // distance between u = v + w and v is |w| = |mu|
    ensure_eq!(cu.distance(cv), mu.abs_(), "distance", "{}::distance(u,v) with u - v of rational length", V::NAME);
    ensure_eq!(cv.distance(cu), mu.abs_(), "distance-symmetric", "{}::distance symmetric", V::NAME);
    ensure_eq!(cu.distance(cv), (cu - cv).magnitude(), "distance-magnitude", "{}::distance = magnitude(u - v)", V::NAME);
    let nt = all_nonzero(&v) && all_nonzero(&w) && m != Q::ONE && lam != Q::ONE;
    pass(if lam < Q::ZERO { "negative-scale" } else if nt { "generic" } else { "degenerate" }, nt || n == 1)
}

fn point_lengths_q<P: MetricSpace<Metric = Q> + Comp<Q>>(d: &mut Draw) -> Outcome {
    let n = P::N;
    let mu = <Q as Sc>::gen_nz(d);
    let f = unit_n(d, n);
    let p: Vec<Q> = vec_n(d, n);
    let q: Vec<Q> = (0..n).map(|i| p[i] + f[i] * mu).collect();
    d.note("p", &p);
    d.note("q = p + w, |w| = |mu|", &q);
    let (cp, cq) = (P::from_s(&p), P::from_s(&q));
    ensure_eq!(cp.distance(cq), mu.abs_(), "point-distance", "{}::distance(p,q)", P::NAME);
    ensure_eq!(cq.distance(cp), mu.abs_(), "point-distance-symmetric", "{}::distance symmetric", P::NAME);
    ensure_eq!(cp.distance(cq) * cp.distance(cq), cp.distance2(cq), "point-distance-squared", "{}: distance^2 = distance2", P::NAME);
    pass("generic", all_nonzero(&p))
}

// ---- f64 -----------------------------------------------------------------------------------------

fn fvec(d: &mut Draw, n: usize) -> Vec<f64> {
    (0..n).map(|_| d.f64_slog(1e-3, 1e3)).collect()
}
fn fnorm(a: &[f64]) -> f64 {
    dotn(a, a).sqrt()
}

/// pair of vectors with class: generic, near-parallel, near-antiparallel, parallel, antiparallel, perpendicular-ish
fn fpair(d: &mut Draw, n: usize) -> (Vec<f64>, Vec<f64>, &'static str) {
    let (mut u, mut v, cls) = fpair_dense(d, n);
    // exactly degenerate but valid structure: the same components vanish in both vectors (the pair lies in a
    // coordinate plane or on an axis), with either sign of zero; or each vector lies on a coordinate axis
    if n >= 2 {
        match d.int(0, 7) {
            0 | 1 => {
                let keep = d.below(n);
                for i in 0..n {
                    if i != keep && d.bool() {
                        let z = if d.bool() { 0.0 } else { -0.0 };
                        u[i] = z;
                        v[i] = if d.bool() { z } else { -z };
                    }
                }
            }
            3 => {
                // every component of u has the same magnitude (the diagonal directions): ties in any comparison of components
                let a = u[0].abs().max(1e-3);
                for x in u.iter_mut() {
                    *x = if d.bool() { a } else { -a };
                }
                if cls == "parallel" || cls == "antiparallel" {
                    let k = v[0] / if u[0] != 0.0 { u[0] } else { 1.0 };
                    let k = if k.is_finite() && k != 0.0 { k } else { 2.0 };
                    for i in 0..n {
                        v[i] = u[i] * k.abs() * if cls == "parallel" { 1.0 } else { -1.0 };
                    }
                }
            }
            2 if cls == "generic" => {
                let (iu, iv) = (d.below(n), d.below(n));
                for i in 0..n {
                    if i != iu {
                        u[i] = 0.0;
                    }
                    if i != iv {
                        v[i] = if d.bool() { 0.0 } else { -0.0 };
                    }
                }
            }
            _ => {}
        }
    }
    (u, v, cls)
}

fn fpair_dense(d: &mut Draw, n: usize) -> (Vec<f64>, Vec<f64>, &'static str) {
    let u = fvec(d, n);
    let k = d.f64_log(1e-2, 1e2);
    match d.int(0, 8) {
        8 => {
            // v = u + a relatively tiny difference: distance must not be computed through cancelling squares
            let eps = d.f64_log(1e-13, 1e-4);
            let w = fvec(d, n);
            let v: Vec<f64> = (0..n).map(|i| u[i] + eps * w[i] * fnorm(&u) / fnorm(&w)).collect();
            (u, v, "nearby")
        }
        0..=3 => (u, fvec(d, n), "generic"),
        4 => {
            let eps = d.f64_log(1e-12, 1e-2);
            let w = fvec(d, n);
            let v: Vec<f64> = (0..n).map(|i| k * u[i] + eps * w[i] * fnorm(&u) / fnorm(&w)).collect();
            (u, v, "near-parallel")
        }
        5 => {
            let eps = d.f64_log(1e-12, 1e-2);
            let w = fvec(d, n);
            let v: Vec<f64> = (0..n).map(|i| -k * u[i] + eps * w[i] * fnorm(&u) / fnorm(&w)).collect();
            (u, v, "near-antiparallel")
        }
        6 => {
            let v: Vec<f64> = u.iter().map(|x| x * k).collect();
            (u, v, "parallel")
        }
        _ => {
            let v: Vec<f64> = u.iter().map(|x| -x * k).collect();
            (u, v, "antiparallel")
        }
    }
}

/// the statements are scale-free: now and then the whole configuration is scaled by 1e-30..1e30
/// (products of four components, as in |u x v|^2, must stay inside the f64 range)
fn rescale(d: &mut Draw, u: &mut Vec<f64>, v: &mut Vec<f64>) -> f64 {
    if d.chance(1, 6) {
        // |u| = 1 up to a relative 1e-12 .. 1e-3 (a vector that is "already normalised" only nearly), and now and then |v| too
        let nu = fnorm(u);
        let k = (1.0 + d.f64_slog(1e-12, 1e-3)) / nu;
        for x in u.iter_mut() {
            *x *= k;
        }
        let kv = if d.bool() { (1.0 + d.f64_slog(1e-12, 1e-3)) / fnorm(v) } else { k };
        for x in v.iter_mut() {
            *x *= kv;
        }
        return 1.0;
    }
    if d.chance(1, 3) {
        let k = d.f64_log(1e-30, 1e30);
        for x in u.iter_mut() {
            *x *= k;
        }
        for x in v.iter_mut() {
            *x *= k;
        }
        k
    } else {
        1.0
    }
}

fn lengths_f64<V: InnerSpace<Scalar = f64> + Comp<f64>>(d: &mut Draw) -> Outcome {
    let (mut u, mut v, cls) = fpair(d, V::N);
    let k = rescale(d, &mut u, &mut v);
    let m = d.f64_slog(1e-3, 1e3) * k;
    d.note("u", &u);
    d.note("v", &v);
    d.note("m", &m);
    let (cu, cv) = (V::from_s(&u), V::from_s(&v));
    let e = f64::EPSILON;
    let m2 = cu.magnitude2();
    ensure!(m2 >= 0.0, "magnitude2-negative", "magnitude2 = {}", m2);
    let mag = cu.magnitude();
    ensure!((mag * mag - m2).abs() <= 4.0 * e * m2, "magnitude-squared", "{}: magnitude^2 = {} vs magnitude2 = {}", V::NAME, mag * mag, m2);
    ensure!((mag - fnorm(&u)).abs() <= 8.0 * e * mag, "magnitude", "{}::magnitude = {}, reference {}", V::NAME, mag, fnorm(&u));
    let diff: Vec<f64> = (0..V::N).map(|i| u[i] - v[i]).collect();
    let dist = cu.distance(cv);
    ensure!((dist - fnorm(&diff)).abs() <= 8.0 * e * (fnorm(&diff) + 1e-300), "distance", "{}::distance = {}, reference {}", V::NAME, dist, fnorm(&diff));
    ensure!(dist == cv.distance(cu) || (dist - cv.distance(cu)).abs() <= 4.0 * e * dist, "distance-symmetric", "{}::distance not symmetric", V::NAME);
    ensure!((dist * dist - cu.distance2(cv)).abs() <= 8.0 * e * cu.distance2(cv), "distance-squared", "{}: distance^2 vs distance2", V::NAME);
    let nv = cu.normalize().comps();
    ensure!((fnorm(&nv) - 1.0).abs() <= 8.0 * e, "normalize-unit", "{}: |normalize(u)| = {}", V::NAME, fnorm(&nv));
    for i in 0..V::N {
        ensure!((nv[i] - u[i] / fnorm(&u)).abs() <= 8.0 * e, "normalize", "{}::normalize component {}: {} vs {}", V::NAME, i, nv[i], u[i] / fnorm(&u));
    }
    let nt_ = cu.normalize_to(m).comps();
    ensure!((fnorm(&nt_) - m.abs()).abs() <= 8.0 * e * m.abs(), "normalize_to-length", "{}: |normalize_to(u,m)| = {} vs |m| = {}", V::NAME, fnorm(&nt_), m.abs());
    for i in 0..V::N {
        let want = u[i] * m / fnorm(&u);
        ensure!((nt_[i] - want).abs() <= 8.0 * e * want.abs(), "normalize_to", "{}::normalize_to component {}: {} vs {}", V::NAME, i, nt_[i], want);
    }
    // projection: parallel to v, remainder orthogonal to v - with the two operands at independent scales (every
    // quantity the statement names, |u|, |v|, u.v, |v|^2 and the projection itself, stays far inside the float range)
    {
        let (ku, kv) = if d.chance(1, 2) { (d.f64_log(1e-100, 1e100), d.f64_log(1e-100, 1e100)) } else { (1.0, 1.0) };
        let us: Vec<f64> = u.iter().map(|x| x * ku).collect();
        let vs: Vec<f64> = v.iter().map(|x| x * kv).collect();
        let (nu_, nv_) = (fnorm(&us), fnorm(&vs));
        if nv_ > 0.0 && nv_.is_finite() && nu_.is_finite() && (nv_ * nv_).is_finite() && nv_ * nv_ > 1e-300 {
            let vn: Vec<f64> = vs.iter().map(|x| x / nv_).collect();
            let c = dotn(&us, &vn);
            let got = V::from_s(&us).project_on(V::from_s(&vs)).comps();
            for i in 0..V::N {
                let want = vn[i] * c;
                ensure!((got[i] - want).abs() <= 16.0 * e * nu_ + 1e-300, "project_on-f64", "{}::project_on component {}: {:e}, reference {:e} (|u| = {:e}, |v| = {:e})", V::NAME, i, got[i], want, nu_, nv_);
            }
        }
    }
    pass(cls, true)
}

fn angle_f64<V: InnerSpace<Scalar = f64> + Comp<f64>>(d: &mut Draw) -> Outcome {
    let (mut u, mut v, cls) = fpair(d, V::N);
    rescale(d, &mut u, &mut v);
    d.note("u", &u);
    d.note("v", &v);
    d.note("class", &cls);
    let (cu, cv) = (V::from_s(&u), V::from_s(&v));
    let a = cu.angle(cv).0;
    let b = cv.angle(cu).0;
    d.note("angle(u,v)", &a);
    let scale = fnorm(&u) * fnorm(&v);
    ensure!(a.is_finite(), "angle-not-finite", "{}::angle(u,v) = {} for non-zero u, v", V::NAME, a);
    let lhs = scale * a.cos();
    ensure!((lhs - dotn(&u, &v)).abs() <= 1e-12 * scale, "angle-cosine", "{}: |u||v|cos(angle) = {} but u.v = {}", V::NAME, lhs, dotn(&u, &v));
    if V::N == 2 {
        ensure!(a >= -PI && a <= PI, "angle2-range", "2-D angle {} outside [-pi, pi]", a);
        // antisymmetric (except at the +-pi seam)
        if a.abs() < PI - 1e-9 {
            ensure!((a + b).abs() <= 1e-12, "angle2-antisymmetric", "angle(u,v) = {}, angle(v,u) = {}", a, b);
        }
        // turning u/|u| counter-clockwise by the angle gives v/|v|
        let (nu, nv) = (fnorm(&u), fnorm(&v));
        let rx = (u[0] * a.cos() - u[1] * a.sin()) / nu;
        let ry = (u[0] * a.sin() + u[1] * a.cos()) / nu;
        let err = ((rx - v[0] / nv).powi(2) + (ry - v[1] / nv).powi(2)).sqrt();
        ensure!(err <= 1e-12, "angle2-sign", "turning u by angle(u,v) = {} misses v by {:e}", a, err);
    } else {
        ensure!(a >= 0.0 && a <= PI, "angle-range", "{}::angle = {} outside [0, pi]", V::NAME, a);
        ensure!((a - b).abs() <= 1e-12 || (a.cos() - b.cos()).abs() <= 1e-15, "angle-symmetric", "{}: angle(u,v) = {}, angle(v,u) = {}", V::NAME, a, b);
    }
    // the angle does not depend on the lengths: scaling u and v by (different) powers of two leaves it unchanged, wherever
    // the quantities of the statement - |u|, |v|, u.v, and in 2-D / 3-D the library's documented signed / cross-product
    // form - are finite normal numbers. Exponents: dimension 2, |e1|, |e2| <= 450; dimension 3, |e1|, |e2| <= 200 (the cross
    // product's squared length is of the order 4^(e1+e2)); otherwise |e1|, |e2| <= 470 each, so that |u|^2 and |v|^2 exist
    {
        let lim = if V::N == 2 { 450 } else if V::N == 3 { 200 } else { 470 };
        let (e1, e2) = (d.int(-lim, lim) as i32, d.int(-lim, lim) as i32);
        let two = |x: f64, e: i32| x * (2.0f64).powi(e / 2) * (2.0f64).powi(e - e / 2);
        // (start from the unscaled configuration: rescale() above may already have moved it)
        let (bu, bv) = (fnorm(&u), fnorm(&v));
        if bu > 1e-3 && bu < 1e3 && bv > 1e-3 && bv < 1e3 {
            let us: Vec<f64> = u.iter().map(|x| two(*x, e1)).collect();
            let vs: Vec<f64> = v.iter().map(|x| two(*x, e2)).collect();
            let s = V::from_s(&us).angle(V::from_s(&vs)).0;
            d.note("exponents of the scaled pair, its angle", &((e1, e2), s));
            ensure!(s.is_finite() && (s - a).abs() <= 1e-14 * (1.0 + a.abs()), "angle-scale-covariance", "{}: angle(u, v) = {:e} but angle(2^{} u, 2^{} v) = {:e}", V::NAME, a, e1, e2, s);
        }
    }
    pass(cls, true)
}


fn point_distance_f64<P: MetricSpace<Metric = f64> + Comp<f64>>(d: &mut Draw) -> Outcome {
    let (u, v, cls) = fpair(d, P::N);
    d.note("p", &u);
    d.note("q", &v);
    let (cp, cq) = (P::from_s(&u), P::from_s(&v));
    let diff: Vec<f64> = (0..P::N).map(|i| u[i] - v[i]).collect();
    let e = f64::EPSILON;
    let dist = cp.distance(cq);
    ensure!((dist - fnorm(&diff)).abs() <= 8.0 * e * (fnorm(&diff) + 1e-300), "point-distance-f64", "{}::distance = {:e}, reference |p-q| = {:e}", P::NAME, dist, fnorm(&diff));
    ensure!((dist - cq.distance(cp)).abs() <= 4.0 * e * dist, "point-distance-symmetric-f64", "{}::distance not symmetric", P::NAME);
    ensure!((dist * dist - cp.distance2(cq)).abs() <= 8.0 * e * cp.distance2(cq), "point-distance-squared-f64", "{}: distance^2 vs distance2", P::NAME);
    pass(cls, true)
}

pub fn property() -> Property {
    let mut s: Vec<SubCheck> = Vec::new();
    macro_rules! add {
        ($name:expr, $scalar:expr, $f:expr, $q:expr, $t:expr, $len:expr, $req:expr, $rule:expr) => {
            s.push(SubCheck { name: $name, scalar: $scalar, quick: $q, thorough: $t, len: $len, f: $f, required: $req, rule: $rule, exhaustive: false });
        };
    }
    const RG: &str = "no zero component, u.v != 0 (neither parallel by construction nor perpendicular)";
    const PAIRS: &[(&str, u32)] = &[("generic", 200), ("near-parallel", 50), ("near-antiparallel", 50), ("parallel", 50), ("antiparallel", 50), ("nearby", 50)];
    macro_rules! inner {
        ($T:ident, $tag:expr) => {
            add!(concat!("inner-", $tag, "-Q"), "Q", inner_field::<Q, $T<Q>>, 2000, 150_000, 56, &[("generic", 100)], RG);
            add!(concat!("inner-", $tag, "-Fp"), "Fp", inner_field::<Fp, $T<Fp>>, 2000, 150_000, 56, &[("generic", 100)], RG);
            add!(concat!("lengths-", $tag, "-Q"), "Q", lengths_q::<$T<Q>>, 2000, 150_000, 48, &[], "vector of rational length with no zero component, m and scale != 1");
            add!(concat!("lengths-", $tag, "-f64"), "f64", lengths_f64::<$T<f64>>, 3000, 200_000, 72, PAIRS, "every generated pair");
            add!(concat!("angle-", $tag, "-f64"), "f64", angle_f64::<$T<f64>>, 4000, 300_000, 96, PAIRS, "every generated pair; (anti)parallel and nearly (anti)parallel pairs required");
        };
    }
    inner!(Vector1, "Vector1");
    inner!(Vector2, "Vector2");
    inner!(Vector3, "Vector3");
    inner!(Vector4, "Vector4");
    inner!(Quaternion, "Quaternion");
    macro_rules! metric {
        ($T:ident, $tag:expr) => {
            add!(concat!("metric-", $tag, "-Q"), "Q", metric_field::<Q, $T<Q>>, 2000, 100_000, 48, &[("generic", 100)], "p - q has no zero component");
            add!(concat!("metric-", $tag, "-Fp"), "Fp", metric_field::<Fp, $T<Fp>>, 2000, 100_000, 48, &[("generic", 100)], "p - q has no zero component");
            add!(concat!("distance-", $tag, "-Q"), "Q", point_lengths_q::<$T<Q>>, 2000, 100_000, 32, &[], "p has no zero component");
            add!(concat!("distance-", $tag, "-f64"), "f64", point_distance_f64::<$T<f64>>, 3000, 200_000, 72, PAIRS, "every generated pair of points");
        };
    }
    metric!(Point1, "Point1");
    metric!(Point2, "Point2");
    metric!(Point3, "Point3");
    Property {
        id: "C11",
        title: "Magnitude, distance, normalisation, angle and projection are consistent",
        subchecks: s,
        assumptions: &[
            "exact tier: vectors of rational length (rational unit vector times a rational), so every square root inside cgmath is exact; sqrt-free clauses also in Fp (null vectors discarded)",
            "f64 tier: components log-uniform in 1e-3..1e3 with random signs (squares neither overflow nor underflow); non-zero lengths by construction",
            "angle clause tolerance 1e-12 |u||v| on the cosine; the 2-D sign is pinned by rotating u/|u| with libm sin/cos",
        ],
        fuzz: false,
    }
}
