//! C14 — lerp, nlerp, slerp.

use vcore::engine::*;
use vcore::gen::*;
use vcore::q::{Fp, Q};
use vcore::refs::*;
use vcore::{ensure, ensure_eq};
use cgmath::prelude::*;
use cgmath::Quaternion;

fn lerp_all<S: Sc>(d: &mut Draw) -> Outcome {
    let t = S::gen(d);
    d.note("t", &t);
    let (o, z) = (S::one(), S::zero());
    macro_rules! one {
        ($g:expr, $name:expr) => {{
            let (a, b) = ($g, $g);
            if d.recording() {
                d.note(concat!($name, " a"), &a);
                d.note(concat!($name, " b"), &b);
            }
            ensure_eq!(a.lerp(b, t), a + (b - a) * t, concat!("lerp-", $name), concat!($name, "::lerp(a,b,t) vs a + (b-a)t"));
            ensure_eq!(a.lerp(b, z), a, concat!("lerp0-", $name), concat!($name, "::lerp(a,b,0) = a"));
            ensure_eq!(a.lerp(b, o), b, concat!("lerp1-", $name), concat!($name, "::lerp(a,b,1) = b"));
            ensure_eq!(a.lerp(a, t), a, concat!("lerp-same-", $name), concat!($name, "::lerp(a,a,t) = a"));
        }};
    }
    one!(gv1::<S>(d), "Vector1");
    one!(gv2::<S>(d), "Vector2");
    one!(gv3::<S>(d), "Vector3");
    one!(gv4::<S>(d), "Vector4");
    one!(gquat::<S>(d), "Quaternion");
    one!(gm2::<S>(d), "Matrix2");
    one!(gm3::<S>(d), "Matrix3");
    one!(gm4::<S>(d), "Matrix4");
    // component formula on one of them, independent of the library's own operators
    let (a, b) = (gv3::<S>(d), gv3::<S>(d));
    let want = [a.x + (b.x - a.x) * t, a.y + (b.y - a.y) * t, a.z + (b.z - a.z) * t];
    ensure_eq!(v3(a.lerp(b, t)), want, "lerp-components", "Vector3::lerp per component");
    let nt = t != z && t != o;
    pass(if nt { "interior-or-extrapolating" } else { "endpoint" }, nt)
}


/// lerp in native floats: a + (b - a) t, for amounts far outside [0,1] and operands that are equal or nearly so
fn lerp_f64(d: &mut Draw) -> Outcome {
    use cgmath::{Matrix2, Vector1, Vector2, Vector3, Vector4};
    let a: Vec<f64> = (0..4).map(|_| if d.chance(1, 8) { d.int(-3, 3) as f64 } else { d.f64_slog(1e-3, 1e3) }).collect();
    let kind = d.int(0, 3);
    let b: Vec<f64> = match kind {
        0 => a.clone(),
        1 => a.iter().map(|x| x + x.abs() * d.f64_slog(1e-12, 1e-3)).collect(),
        _ => (0..4).map(|_| d.f64_slog(1e-3, 1e3)).collect(),
    };
    let t = match d.int(0, 5) {
        0 => d.unit(),
        1 => d.int(-5, 5) as f64,
        2 => d.f64_slog(1e2, 1e17),
        3 => d.f64_slog(1e-12, 1e-2),
        4 => d.pick(&[0.0, 1.0, -0.0, 2.0, -1.0]),
        _ => d.f64_in(-3.0, 4.0),
    };
    d.note("a", &a);
    d.note("b", &b);
    d.note("t", &t);
    let want: Vec<f64> = (0..4).map(|i| a[i] + (b[i] - a[i]) * t).collect();
    let tol: Vec<f64> = (0..4).map(|i| 4.0 * f64::EPSILON * (a[i].abs() + ((b[i] - a[i]) * t).abs()) + 1e-300).collect();
    macro_rules! one {
        ($got:expr, $n:expr, $name:expr) => {{
            let got: Vec<f64> = $got;
            for i in 0..$n {
                ensure!((got[i] - want[i]).abs() <= tol[i] || got[i] == want[i], concat!("lerp-f64-", $name), "{}::lerp component {}: {:e}, a + (b-a)t = {:e} (a = {:e}, b = {:e}, t = {:e})", $name, i, got[i], want[i], a[i], b[i], t);
            }
        }};
    }
    let r = Vector1::new(a[0]).lerp(Vector1::new(b[0]), t);
    one!(vec![r.x], 1, "Vector1");
    let r = Vector2::new(a[0], a[1]).lerp(Vector2::new(b[0], b[1]), t);
    one!(vec![r.x, r.y], 2, "Vector2");
    let r = Vector3::new(a[0], a[1], a[2]).lerp(Vector3::new(b[0], b[1], b[2]), t);
    one!(vec![r.x, r.y, r.z], 3, "Vector3");
    let r = Vector4::new(a[0], a[1], a[2], a[3]).lerp(Vector4::new(b[0], b[1], b[2], b[3]), t);
    one!(vec![r.x, r.y, r.z, r.w], 4, "Vector4");
    let r = Quaternion::new(a[0], a[1], a[2], a[3]).lerp(Quaternion::new(b[0], b[1], b[2], b[3]), t);
    one!(vec![r.s, r.v.x, r.v.y, r.v.z], 4, "Quaternion");
    let r = Matrix2::new(a[0], a[1], a[2], a[3]).lerp(Matrix2::new(b[0], b[1], b[2], b[3]), t);
    one!(vec![r.x.x, r.x.y, r.y.x, r.y.y], 4, "Matrix2");
    pass(match kind { 0 => "equal-operands", 1 => "nearby-operands", _ => "generic" }, t != 0.0 && t != 1.0)
}

/// lerp on integer vectors: the outcome (value, or the overflow panic of this build) of a + (b - a) t per component
macro_rules! lerp_int {
    ($fname:ident, $S:ty) => {
        fn $fname(d: &mut Draw) -> Outcome {
            use cgmath::{Vector1, Vector2, Vector3, Vector4};
            let w = |d: &mut Draw| -> $S {
                match d.int(0, 3) {
                    0 => d.bits64() as $S,
                    1 => d.pick(&[<$S>::MAX, <$S>::MAX - 1, <$S>::MIN, 0, 1, 2]),
                    _ => d.int(0, 100) as $S,
                }
            };
            let a: Vec<$S> = (0..4).map(|_| w(d)).collect();
            let b: Vec<$S> = (0..4).map(|i| if d.chance(1, 3) { a[i].wrapping_add(d.int(0, 3) as $S) } else { w(d) }).collect();
            let t: $S = match d.int(0, 3) { 0 => 0, 1 => 1, 2 => d.int(2, 5) as $S, _ => w(d) };
            d.note("a, b, t", &(a.clone(), b.clone(), t));
            let out = |f: &dyn Fn() -> Vec<$S>| vcore::engine::catches(|| f()).ok();
            let prim = |n: usize| -> Option<Vec<$S>> { let (a, b) = (a.clone(), b.clone()); out(&move || (0..n).map(|i| a[i] + (b[i] - a[i]) * t).collect()) };
            let mut panics = 0;
            macro_rules! one {
                ($n:expr, $got:expr, $name:expr) => {{
                    let want = prim($n);
                    let got: Option<Vec<$S>> = out(&|| $got);
                    if want.is_none() { panics += 1; }
                    ensure!(got == want, concat!("lerp-int-", $name), "{}<{}>::lerp: {:?}, a + (b-a)t per component: {:?} (None = overflow panic)", $name, stringify!($S), got, want);
                }};
            }
            one!(1, { let r = Vector1::new(a[0]).lerp(Vector1::new(b[0]), t); vec![r.x] }, "Vector1");
            one!(2, { let r = Vector2::new(a[0], a[1]).lerp(Vector2::new(b[0], b[1]), t); vec![r.x, r.y] }, "Vector2");
            one!(3, { let r = Vector3::new(a[0], a[1], a[2]).lerp(Vector3::new(b[0], b[1], b[2]), t); vec![r.x, r.y, r.z] }, "Vector3");
            one!(4, { let r = Vector4::new(a[0], a[1], a[2], a[3]).lerp(Vector4::new(b[0], b[1], b[2], b[3]), t); vec![r.x, r.y, r.z, r.w] }, "Vector4");
            pass(if panics == 0 { "no-overflow" } else if panics == 4 { "all-overflow" } else { "some-overflow" }, true)
        }
    };
}
lerp_int!(lerp_i32, i32);
lerp_int!(lerp_u32, u32);
lerp_int!(lerp_i8, i8);
lerp_int!(lerp_u64, u64);

fn dot4(a: &[f64; 4], b: &[f64; 4]) -> f64 {
    a[0] * b[0] + a[1] * b[1] + a[2] * b[2] + a[3] * b[3]
}
fn comb4(a: &[f64; 4], x: f64, b: &[f64; 4], y: f64) -> [f64; 4] {
    [a[0] * x + b[0] * y, a[1] * x + b[1] * y, a[2] * x + b[2] * y, a[3] * x + b[3] * y]
}
fn norm4(a: &[f64; 4]) -> f64 {
    dot4(a, a).sqrt()
}

/// unit pair with class; returns (a, b, class)
fn pair(d: &mut Draw) -> ([f64; 4], [f64; 4], &'static str) {
    let a = f_unit_quat(d);
    // unit p orthogonal to a
    let g = f_unit_quat(d);
    let p = fnormalize4(&comb4(&g, 1.0, &a, -dot4(&g, &a)));
    let flip = if d.bool() { 1.0 } else { -1.0 };
    let mk = |om: f64| fnormalize4(&comb4(&a, om.cos() * flip, &p, om.sin() * flip));
    match d.int(0, 15) {
        15 => {
            // a on a coordinate axis, b a hair off the orthogonal complement: exactly one product a_i b_i is non-zero, so
            // a.b = +-tiny in any evaluation order and its sign - the statement's criterion - is not a matter of rounding
            let i = d.below(4);
            let sa = if d.bool() { 1.0 } else { -1.0 };
            let tiny = d.f64_log(1e-30, 1e-8) * if d.bool() { 1.0 } else { -1.0 };
            let mut x = [0.0f64; 4];
            x[i] = sa;
            let mut y = g;
            y[i] = 0.0;
            let ny = norm4(&y);
            if ny < 0.1 {
                y = [0.0; 4];
                y[(i + 1) % 4] = 1.0;
            } else {
                for k in 0..4 {
                    y[k] /= ny;
                }
            }
            y[i] = tiny;
            (x, y, if sa * tiny < 0.0 { "barely-obtuse" } else { "barely-acute" })
        }
        14 => (a, mk(std::f64::consts::FRAC_PI_2 - d.f64_slog(1e-12, 1e-2)), "nearly-orthogonal"),
        13 => {
            // a.b is +-0.9995 *exactly* (a on a coordinate axis, b = c a + s e_j): the statement's "a.b <= 0.9995" side
            // of the hand-over, with no rounding in the dot product to hide behind
            let (i, mut j) = (d.below(4), d.below(4));
            if i == j {
                j = (i + 1) % 4;
            }
            let sa = if d.bool() { 1.0 } else { -1.0 };
            let c = if d.bool() { 0.9995 } else { -0.9995 };
            let sn = (1.0f64 - 0.9995 * 0.9995).sqrt() * if d.bool() { 1.0 } else { -1.0 };
            let (mut x, mut y) = ([0.0f64; 4], [0.0f64; 4]);
            x[i] = sa;
            y[i] = c * sa;
            y[j] = sn;
            (x, y, "hand-over-exactly-at-threshold")
        }
        12 => {
            // exactly orthogonal by structure: disjoint supports, zeros of either sign (basis quaternions included);
            // every product a_i b_i is a zero, so a.b = 0 in any evaluation order and "a.b >= 0" holds exactly
            let mask = d.int(1, 14) as usize;
            let (mut x, mut y) = ([0.0f64; 4], [0.0f64; 4]);
            for i in 0..4 {
                let z = if d.bool() { 0.0 } else { -0.0 };
                let val = if d.chance(1, 3) { if d.bool() { 1.0 } else { -1.0 } } else { d.f64_in(-1.0, 1.0) };
                if mask >> i & 1 == 1 {
                    x[i] = val;
                    y[i] = z;
                } else {
                    x[i] = z;
                    y[i] = val;
                }
            }
            if norm4(&x) == 0.0 || norm4(&y) == 0.0 {
                (a, p, "orthogonal")
            } else {
                let (nx, ny) = (norm4(&x), norm4(&y));
                for i in 0..4 {
                    x[i] /= nx;
                    y[i] /= ny;
                }
                (x, y, "orthogonal-disjoint-support")
            }
        }
        0..=2 => (a, f_unit_quat(d), "generic"),
        3 | 4 => (a, mk(d.f64_log(1e-9, 0.05)), if flip > 0.0 { "nearly-parallel" } else { "nearly-opposite" }),
        5 | 6 | 7 => {
            let delta = if d.chance(1, 8) { 0.0 } else { d.f64_slog(1e-12, 1e-2) };
            let c = (0.9995 * (1.0 + delta)).min(1.0);
            (a, mk(c.acos()), "hand-over")
        }
        8 => (a, if flip > 0.0 { p } else { [-p[0], -p[1], -p[2], -p[3]] }, "orthogonal"),
        9 => (a, [a[0] * flip, a[1] * flip, a[2] * flip, a[3] * flip], if flip > 0.0 { "equal" } else { "exactly-opposite" }),
        _ => (a, mk(d.f64_in(0.05, std::f64::consts::FRAC_PI_2)), "generic"),
    }
}

/// the tolerances of the validity predicate for one float type
#[derive(Copy, Clone)]
struct Tol {
    eps: f64,
    unit: f64,
    end: f64,
    tiny_omega: f64,
    abs: f64,
    plane: f64,
    exact_speed: f64,
    close_speed: f64,
    band: f64,
    tie: f64,
}
const TOL64: Tol = Tol { eps: f64::EPSILON, unit: 4e-15, end: 4e-15, tiny_omega: 1e-6, abs: 1e-12, plane: 1e-10, exact_speed: 4e-13, close_speed: 1e-5, band: 1e-9, tie: 1e-12 };
/// f32: results are unit and hit the endpoints to a few f32 ulps; angles are known to eps32/Omega
const TOL32: Tol = Tol { eps: f32::EPSILON as f64, unit: 2e-6, end: 2e-6, tiny_omega: 2e-3, abs: 2e-6, plane: 4e-6, exact_speed: 3e-6, close_speed: 3e-5, band: 1e-6, tie: 1e-6 };

/// validity predicate for one choice of the target b'
fn check_against(r: &[f64; 4], a: &[f64; 4], bp: &[f64; 4], t: f64, slerp: bool, raw_dot: f64, who: &str, tl: &Tol) -> Result<(), (&'static str, String)> {
    let nr = norm4(r);
    if (nr - 1.0).abs() > tl.unit {
        return Err(("not-unit", format!("{}: |r| = {}", who, nr)));
    }
    let diff = comb4(a, 1.0, bp, -1.0);
    let sum = comb4(a, 1.0, bp, 1.0);
    let omega = 2.0 * norm4(&diff).atan2(norm4(&sum));
    if t == 0.0 && norm4(&comb4(r, 1.0, a, -1.0)) > tl.end {
        return Err(("t0-not-a", format!("{}: t = 0 gives {:?}, expected a = {:?}", who, r, a)));
    }
    if t == 1.0 && norm4(&comb4(r, 1.0, bp, -1.0)) > tl.end {
        return Err(("t1-not-b", format!("{}: t = 1 gives {:?}, expected +-b = {:?}", who, r, bp)));
    }
    if omega < tl.tiny_omega {
        let e = norm4(&comb4(r, 1.0, a, -1.0));
        if e > omega + tl.abs {
            return Err(("off-arc", format!("{}: inputs {:e} rad apart but result is {:e} from a", who, omega, e)));
        }
        return Ok(());
    }
    // orthonormal frame of the plane of a and b'
    let c = dot4(a, bp);
    let e2 = fnormalize4(&comb4(bp, 1.0, a, -c));
    let (x, y) = (dot4(r, a), dot4(r, &e2));
    let resid = norm4(&comb4(&comb4(r, 1.0, a, -x), 1.0, &e2, -y));
    // the frame vector e2 is known to eps/Omega only
    let slack = tl.abs + 16.0 * tl.eps / omega;
    if resid > tl.plane + slack {
        return Err(("off-plane", format!("{}: result leaves the plane of a and b by {:e}", who, resid)));
    }
    let phi = y.atan2(x);
    if phi < -tl.plane - slack || phi > omega + tl.plane + slack {
        return Err(("off-arc", format!("{}: result at angle {:e} from a, outside the shorter arc [0, {:e}]", who, phi, omega)));
    }
    if slerp {
        let close = raw_dot.abs() > 0.9995;
        // the dot product is known exactly when at most one product a_i b_i is non-zero
        let exact_dot = (0..4).filter(|&i| a[i] * bp[i] != 0.0).count() <= 1;
        let band = (raw_dot.abs() - 0.9995).abs() <= tl.band && !exact_dot;
        // (the measured angles themselves are known to eps/Omega only)
        let tol = if close || band { tl.close_speed } else { tl.exact_speed } + slack;
        let e1 = (phi - t * omega).abs();
        if e1 > tol {
            return Err(("not-constant-speed", format!("{}: arc from a is {:e}, expected t*Omega = {:e} (error {:e}, tolerance {:e}, |a.b| = {})", who, phi, t * omega, e1, tol, raw_dot.abs())));
        }
        // and the remaining arc to b'
        let rb = {
            let dd = comb4(r, 1.0, bp, -1.0);
            let ss = comb4(r, 1.0, bp, 1.0);
            2.0 * norm4(&dd).atan2(norm4(&ss))
        };
        if (rb - (1.0 - t) * omega).abs() > tol {
            return Err(("not-constant-speed", format!("{}: arc to b is {:e}, expected (1-t)*Omega = {:e}", who, rb, (1.0 - t) * omega)));
        }
    }
    Ok(())
}

fn interp_f64(d: &mut Draw) -> Outcome {
    let (a, b, cls) = pair(d);
    let t = match d.int(0, 5) {
        0 => 0.0,
        1 => 1.0,
        _ => d.unit(),
    };
    d.note("a", &a);
    d.note("b", &b);
    d.note("class, t", &(cls, t));
    let raw = dot4(&a, &b);
    d.note("a.b", &raw);
    let (qa, qb) = (mk_q(&a), mk_q(&b));
    let neg = [-b[0], -b[1], -b[2], -b[3]];
    // when a.b is within rounding of 0 the two arcs are equally short: accept either target
    // (unless the dot product is zero by structure - every product a_i b_i vanishes - in which case a.b >= 0 holds
    // exactly and the statement names b)
    let structurally_zero = (0..4).all(|i| a[i] * b[i] == 0.0);
    // (and with exactly one non-zero product the sign of a.b is just as exact, however small it is)
    let one_product = (0..4).filter(|&i| a[i] * b[i] != 0.0).count() == 1;
    let targets: Vec<[f64; 4]> = if structurally_zero { vec![b] } else if raw.abs() <= 1e-12 && !one_product { vec![b, neg] } else if raw >= 0.0 { vec![b] } else { vec![neg] };
    for (slerp, who) in [(false, "nlerp"), (true, "slerp")] {
        let r: Quaternion<f64> = if slerp { qa.slerp(qb, t) } else { qa.nlerp(qb, t) };
        let rr = rq(&r);
        if d.recording() {
            d.note(who, &rr);
        }
        ensure!(rr.iter().all(|c| c.is_finite()), "non-finite", "{} returned {:?}", who, rr);
        let mut last = None;
        let mut ok = false;
        for bp in &targets {
            match check_against(&rr, &a, bp, t, slerp, raw, who, &TOL64) {
                Ok(()) => {
                    ok = true;
                    break;
                }
                Err(e) => last = Some(e),
            }
        }
        if !ok {
            let (sig, msg) = last.unwrap();
            return Outcome::Fail { sig, msg };
        }
    }
    let endpoint = t == 0.0 || t == 1.0;
    let c: &'static str = match (cls, raw < 0.0, endpoint) {
        ("generic", false, false) => "generic+",
        ("generic", true, false) => "generic-",
        ("generic", _, true) => "generic-endpoint",
        ("hand-over-exactly-at-threshold", _, true) => "hand-over",
        ("hand-over", false, _) => "hand-over+",
        ("hand-over", true, _) => "hand-over-",
        (c, _, _) => c,
    };
    pass(c, true)
}


/// the same predicate for Quaternion<f32>: inputs are the f64 pairs rounded to f32 (unit to an f32 ulp), results are
/// widened exactly to f64 for the geometry
fn interp_f32(d: &mut Draw) -> Outcome {
    let (a0, b0, cls) = pair(d);
    let t = match d.int(0, 5) {
        0 => 0.0f32,
        1 => 1.0f32,
        _ => d.unit() as f32,
    };
    let af: [f32; 4] = [a0[0] as f32, a0[1] as f32, a0[2] as f32, a0[3] as f32];
    let bf: [f32; 4] = [b0[0] as f32, b0[1] as f32, b0[2] as f32, b0[3] as f32];
    let a: [f64; 4] = [af[0] as f64, af[1] as f64, af[2] as f64, af[3] as f64];
    let b: [f64; 4] = [bf[0] as f64, bf[1] as f64, bf[2] as f64, bf[3] as f64];
    d.note("a", &af);
    d.note("b", &bf);
    d.note("class, t", &(cls, t));
    // the dot product as f32 arithmetic sees it decides the arc; ties within its rounding accept either
    let raw = dot4(&a, &b);
    d.note("a.b", &raw);
    let (qa, qb) = (Quaternion::new(af[0], af[1], af[2], af[3]), Quaternion::new(bf[0], bf[1], bf[2], bf[3]));
    let neg = [-b[0], -b[1], -b[2], -b[3]];
    let structurally_zero = (0..4).all(|i| a[i] * b[i] == 0.0);
    let one_product = (0..4).filter(|&i| a[i] * b[i] != 0.0).count() == 1;
    let targets: Vec<[f64; 4]> = if structurally_zero { vec![b] } else if raw.abs() <= TOL32.tie && !one_product { vec![b, neg] } else if raw >= 0.0 { vec![b] } else { vec![neg] };
    for (slerp, who) in [(false, "nlerp-f32"), (true, "slerp-f32")] {
        let r: Quaternion<f32> = if slerp { qa.slerp(qb, t) } else { qa.nlerp(qb, t) };
        let rr: [f64; 4] = [r.s as f64, r.v.x as f64, r.v.y as f64, r.v.z as f64];
        if d.recording() {
            d.note(who, &rr);
        }
        ensure!(rr.iter().all(|c| c.is_finite()), "non-finite", "{} returned {:?}", who, rr);
        let mut last = None;
        let mut ok = false;
        for bp in &targets {
            match check_against(&rr, &a, bp, t as f64, slerp, raw, who, &TOL32) {
                Ok(()) => {
                    ok = true;
                    break;
                }
                Err(e) => last = Some(e),
            }
        }
        if !ok {
            let (sig, msg) = last.unwrap();
            return Outcome::Fail { sig, msg };
        }
    }
    let c: &'static str = match cls {
        "generic" => if raw < 0.0 { "generic-" } else { "generic+" },
        "hand-over" => if raw < 0.0 { "hand-over-" } else { "hand-over+" },
        c => c,
    };
    pass(c, true)
}

pub fn property() -> Property {
    let mut s = Vec::new();
    macro_rules! add {
        ($name:expr, $scalar:expr, $f:expr, $q:expr, $t:expr, $len:expr, $req:expr, $rule:expr) => {
            s.push(SubCheck { name: $name, scalar: $scalar, quick: $q, thorough: $t, len: $len, f: $f, required: $req, rule: $rule, exhaustive: false });
        };
    }
    add!("lerp-Q", "Q", lerp_all::<Q>, 3000, 200_000, 448, &[("interior-or-extrapolating", 500)], "t not in {0,1}");
    add!("lerp-Fp", "Fp", lerp_all::<Fp>, 3000, 200_000, 448, &[("interior-or-extrapolating", 500)], "t not in {0,1}");
    add!("lerp-f64", "f64", lerp_f64, 6000, 400_000, 64, &[("equal-operands", 100), ("nearby-operands", 100), ("generic", 200)], "t not in {0,1}");
    add!("lerp-i32", "i32", lerp_i32, 1500, 100_000, 48, &[("no-overflow", 100)], "every operand tuple over the whole integer range");
    add!("lerp-u32", "u32", lerp_u32, 1500, 100_000, 48, &[("no-overflow", 100)], "every operand tuple over the whole integer range");
    add!("lerp-i8", "i8", lerp_i8, 1500, 100_000, 48, &[("no-overflow", 100)], "every operand tuple over the whole integer range");
    add!("lerp-u64", "u64", lerp_u64, 1500, 100_000, 48, &[("no-overflow", 100)], "every operand tuple over the whole integer range");
    add!("nlerp_slerp-f64", "f64", interp_f64, 20000, 1_000_000, 80,
        &[("generic+", 50), ("generic-", 50), ("generic-endpoint", 30), ("nearly-parallel", 30), ("nearly-opposite", 30), ("hand-over+", 50), ("hand-over-", 50), ("orthogonal", 30), ("orthogonal-disjoint-support", 30), ("hand-over-exactly-at-threshold", 20), ("nearly-orthogonal", 30), ("barely-obtuse", 15), ("barely-acute", 15), ("equal", 15), ("exactly-opposite", 15)],
        "every generated pair; all pair classes, both signs of a.b and both endpoints required");
    add!("nlerp_slerp-f32", "f32", interp_f32, 20000, 1_000_000, 80,
        &[("generic+", 50), ("generic-", 50), ("nearly-parallel", 30), ("nearly-opposite", 30), ("hand-over+", 50), ("hand-over-", 50), ("orthogonal", 30), ("nearly-orthogonal", 30), ("barely-obtuse", 15)],
        "every generated pair (the f64 pair classes rounded to f32)");
    Property {
        id: "C14",
        title: "lerp, nlerp and slerp interpolate with exact endpoints along the shortest path",
        subchecks: s,
        assumptions: &[
            "lerp is decided exactly over Q and Fp for every VectorSpace implementation",
            "nlerp/slerp: f64 unit quaternions, t in [0,1]; the arc is measured as 2 atan2(|a-b'|, |a+b'|), accurate at both ends; 'exactly' is read as 1e-9 rad, the stated 1e-5 applies above |a.b| = 0.9995 (1e-9 guard band)",
            "when |a.b| <= 1e-12 the two arcs are equally short and either target (+b or -b) is accepted",
        ],
        fuzz: true,
    }
}
