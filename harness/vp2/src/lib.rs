pub mod c11;
pub mod c13;
pub mod c14;
pub mod c15;

pub fn all() -> Vec<vcore::engine::Property> {
    vec![c11::property(), c13::property(), c14::property(), c15::property()]
}
