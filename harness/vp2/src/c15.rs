//! C15 — between_vectors and from_arc return the shortest rotation taking a onto b.

use vcore::engine::*;
use vcore::gen::*;
use vcore::q::{register_angle, Q};
use vcore::refs::*;
use vcore::{ensure, ensure_eq};
use cgmath::prelude::*;
use cgmath::{Basis2, Basis3, Matrix2, Matrix3, Quaternion, Rotation, Vector2, Vector3};
use std::f64::consts::PI;

fn perp_unit(a: &[f64; 3], d: &mut Draw) -> [f64; 3] {
    // a unit vector perpendicular to a, random direction around it
    let helper = if a[0].abs() < 0.9 { [1.0, 0.0, 0.0] } else { [0.0, 1.0, 0.0] };
    let u = fnormalize3(&cross3(a, &helper));
    let w = cross3(a, &u);
    let phi = d.f64_in(0.0, 2.0 * PI);
    fnormalize3(&[u[0] * phi.cos() + w[0] * phi.sin(), u[1] * phi.cos() + w[1] * phi.sin(), u[2] * phi.cos() + w[2] * phi.sin()])
}

/// a pair of unit vectors with its class
fn pair3(d: &mut Draw) -> ([f64; 3], [f64; 3], &'static str) {
    let kind = d.int(0, 10);
    let a = match d.int(0, 7) {
        0 => d.pick(&[[1.0, 0.0, 0.0], [-1.0, 0.0, 0.0], [0.0, 1.0, 0.0], [0.0, -1.0, 0.0], [0.0, 0.0, 1.0], [0.0, 0.0, -1.0]]),
        _ => f_unit3(d),
    };
    match kind {
        0..=3 => (a, f_unit3(d), "generic"),
        4 | 5 => {
            let th = d.f64_log(1e-12, 1e-1);
            let p = perp_unit(&a, d);
            let b = fnormalize3(&[a[0] * th.cos() + p[0] * th.sin(), a[1] * th.cos() + p[1] * th.sin(), a[2] * th.cos() + p[2] * th.sin()]);
            (a, b, "near-parallel")
        }
        6 | 7 => {
            let th = d.f64_log(1e-12, 1e-1);
            let p = perp_unit(&a, d);
            let b = fnormalize3(&[-a[0] * th.cos() + p[0] * th.sin(), -a[1] * th.cos() + p[1] * th.sin(), -a[2] * th.cos() + p[2] * th.sin()]);
            (a, b, "near-antiparallel")
        }
        8 => (a, a, "equal"),
        10 => {
            // a multiple of 15 degrees between the two, exactly or up to 1e-12 .. 1e-6 rad: the angles at which the
            // half-way construction's intermediate quantities (1 + cos, its square root, the doubled product) pass
            // through round values
            let th = (d.int(1, 11) as f64) * PI / 12.0 + if d.chance(1, 4) { 0.0 } else { d.f64_slog(1e-12, 1e-6) };
            let p = perp_unit(&a, d);
            let b = fnormalize3(&[a[0] * th.cos() + p[0] * th.sin(), a[1] * th.cos() + p[1] * th.sin(), a[2] * th.cos() + p[2] * th.sin()]);
            (a, b, "generic")
        }
        _ => {
            // now and then a is a hair off a coordinate axis: the perpendicular axis the constructor has to find is then
            // the cross product with a vector that is almost parallel to a (components down to the subnormal range)
            let a = if d.chance(1, 3) {
                let k = d.below(3);
                let mut v = [0.0f64; 3];
                v[k] = if d.bool() { 1.0 } else { -1.0 };
                for i in 0..3 {
                    if i != k && d.chance(2, 3) {
                        v[i] = d.f64_slog(1e-300, 1e-6);
                    }
                }
                fnormalize3(&v)
            } else {
                a
            };
            (a, [-a[0], -a[1], -a[2]], "opposite")
        }
    }
}

fn angle3(a: &[f64; 3], b: &[f64; 3]) -> f64 {
    let c = cross3(a, b);
    (c[0] * c[0] + c[1] * c[1] + c[2] * c[2]).sqrt().atan2(dotn(a, b))
}
fn dist3(a: &[f64; 3], b: &[f64; 3]) -> f64 {
    let d = sub3(a, b);
    dotn(&d, &d).sqrt()
}

/// obligations common to between_vectors (unit inputs) and from_arc (normalised inputs)
fn check_rotation(q: &Quaternion<f64>, a: &[f64; 3], b: &[f64; 3], cls: &str, near: f64, what: &str) -> Result<(), Outcome> {
    let n = q.magnitude();
    vcore::ensure_r!((n - 1.0).abs() <= 8e-15, "not-unit", "{}: |q| = {}", what, n);
    let th = angle3(a, b);
    let thstar = th.min(PI - th);
    let img = v3(q * Vector3::from(*a));
    let err = dist3(&img, b);
    if cls == "opposite" {
        // a half turn about an axis perpendicular to a
        vcore::ensure_r!(q.s.abs() <= 1e-7, "opposite-not-half-turn", "{}: opposite vectors, scalar part {} (expected 0)", what, q.s);
        let ax = v3(q.v);
        vcore::ensure_r!(dotn(&ax, a).abs() <= 1e-7, "opposite-axis-not-perpendicular", "{}: axis {:?} not perpendicular to a {:?}", what, ax, a);
        vcore::ensure_r!(err <= 2e-7, "opposite-image", "{}: r(a) = {:?}, expected -a = {:?}", what, img, b);
        return Ok(());
    }
    if thstar >= near {
        // conditioning of the half-way construction near (anti)parallel: eps / theta*
        let tol = (32.0 * f64::EPSILON / thstar).max(1e-9).min(1.01 * near);
        vcore::ensure_r!(err <= tol, "image", "{}: |r(a) - b| = {:e} > {:e} (angle between a and b {:e})", what, err, tol, th);
    } else {
        vcore::ensure_r!(err <= 1.01 * near, "image-near-degenerate", "{}: |r(a) - b| = {:e} exceeds the {:e} allowance (angle {:e})", what, err, near, th);
    }
    if th.sin() >= 1e-3 {
        let rot = 2.0 * q.v.magnitude().atan2(q.s.abs());
        vcore::ensure_r!((rot - th).abs() <= 1e-9, "rotation-angle", "{}: rotation angle {} but the vectors are {} apart", what, rot, th);
        let ax = v3(q.v);
        vcore::ensure_r!(dotn(&ax, a).abs() <= 1e-9 && dotn(&ax, b).abs() <= 1e-9, "axis-not-perpendicular", "{}: axis {:?} not perpendicular to both vectors", what, ax);
    }
    Ok(())
}

fn between3_f64(d: &mut Draw) -> Outcome {
    let (a, b, cls) = pair3(d);
    d.note("a", &a);
    d.note("b", &b);
    d.note("class", &cls);
    let (va, vb) = (Vector3::from(a), Vector3::from(b));
    let q: Quaternion<f64> = Rotation::between_vectors(va, vb);
    d.note("quaternion", &q);
    vcore::tryo!(check_rotation(&q, &a, &b, cls, 1e-7, "Quaternion::between_vectors"));
    if cls == "opposite" {
        ensure!(q.s == 0.0, "opposite-scalar-exact", "exactly opposite vectors: scalar part must be 0, got {}", q.s);
        ensure!((q.v.magnitude() - 1.0).abs() <= 8e-15, "opposite-axis-unit", "axis not unit");
    }
    let bs: Basis3<f64> = Rotation::between_vectors(va, vb);
    let e = Matrix3::from(bs).rm().max_abs_diff(&Matrix3::from(q).rm());
    ensure!(e <= 1e-12, "basis3-vs-quaternion", "Basis3::between_vectors differs from the quaternion's matrix by {:e}", e);
    let img = v3(bs.rotate_vector(va));
    let ths = angle3(&a, &b).min(PI - angle3(&a, &b));
    let lim = if ths >= 1e-7 && cls != "opposite" { (32.0 * f64::EPSILON / ths).max(1e-9).min(1.01e-7) } else { 2.1e-7 };
    ensure!(dist3(&img, &b) <= lim, "basis3-image", "Basis3::between_vectors: |r(a) - b| = {:e}", dist3(&img, &b));
    pass(cls, true)
}

fn between2_f64(d: &mut Draw) -> Outcome {
    let phi = d.f64_in(-PI, PI);
    let a = [phi.cos(), phi.sin()];
    let kind = d.int(0, 9);
    let (delta, cls): (f64, &'static str) = match kind {
        0 | 1 => (d.f64_in(0.01, PI - 0.01), "counter-clockwise"),
        2 | 3 | 4 => (-d.f64_in(0.01, PI - 0.01), "clockwise"),
        5 => (d.f64_slog(1e-12, 1e-2), "near-parallel"),
        6 => (PI - d.f64_slog(1e-12, 1e-2), "near-antiparallel"),
        7 => (0.0, "equal"),
        _ => (PI, "opposite"),
    };
    let b = match cls {
        "equal" => a,
        "opposite" => [-a[0], -a[1]],
        _ => {
            let t = phi + delta;
            let n = (t.cos() * t.cos() + t.sin() * t.sin()).sqrt();
            [t.cos() / n, t.sin() / n]
        }
    };
    d.note("a", &a);
    d.note("b", &b);
    d.note("class, signed angle from a to b", &(cls, delta));
    let r: Basis2<f64> = Rotation::between_vectors(Vector2::from(a), Vector2::from(b));
    let m: Matrix2<f64> = r.into();
    d.note("rotation", &m);
    let ortho = (m * m.transpose()).rm().max_abs_diff(&RM::ident(2));
    ensure!(ortho <= 8e-15, "not-orthonormal", "R R^T differs from I by {:e}", ortho);
    ensure!((m.determinant() - 1.0).abs() <= 8e-15, "det", "det = {}", m.determinant());
    let img = r.rotate_vector(Vector2::from(a));
    let err = ((img.x - b[0]).powi(2) + (img.y - b[1]).powi(2)).sqrt();
    let cross = a[0] * b[1] - a[1] * b[0];
    let dot = a[0] * b[0] + a[1] * b[1];
    let th = cross.abs().atan2(dot);
    let thstar = th.min(PI - th);
    if cls == "opposite" {
        ensure!(err <= 2e-7, "opposite-image", "opposite vectors: r(a) = {:?}, expected {:?}", img, b);
    } else if thstar >= 1e-7 {
        // in the plane the angle from a to b is well conditioned everywhere (atan2 of two quantities known to an ulp), so
        // outside the statement's 1e-7 rad band "exact" means to rounding: 64 eps, not a round 1e-9
        ensure!(err <= 64.0 * f64::EPSILON, "image", "r(a) = {:?} but b = {:?} (error {:e}; b is {} of a, {:e} rad from (anti)parallel)", img, b, err, if cross < 0.0 { "clockwise" } else { "counter-clockwise" }, thstar);
    } else {
        ensure!(err <= 1.01e-7, "image-near-degenerate", "|r(a) - b| = {:e} exceeds the 1e-7 allowance", err);
    }
    // the short way: cos of the rotation angle is a.b
    if thstar >= 1e-5 {
        let tr = (m.x.x + m.y.y) / 2.0;
        ensure!((tr - dot).abs() <= 64.0 * f64::EPSILON, "not-short-way", "cos(rotation angle) = {} but a.b = {}", tr, dot);
    }
    pass(cls, true)
}

fn from_arc_f64(d: &mut Draw) -> Outcome {
    let (a, b, cls) = pair3(d);
    let cosab = dotn(&a, &b);
    let unit_dot = cls == "generic" && cosab > 0.05 && d.chance(1, 3);
    let far = !unit_dot && cls == "generic" && cosab.abs() < 0.995 && d.chance(1, 3);
    // opposite vectors with a fallback axis supplied: also at extreme, unbalanced lengths (|src| up to 2^+-480 with |dst|
    // making up for it, so that |src|^2 |dst|^2 - the only product the statement's construction needs - stays ordinary)
    let extreme = cls == "opposite" && d.chance(1, 3);
    let (l1, l2) = if extreme {
        let k = d.int(-480, 480) as i32;
        ((2.0f64).powi(k), (2.0f64).powi(-k + d.int(-9, 9) as i32))
    } else if cls == "opposite" || cls == "equal" {
        // powers of two keep exact (anti)parallelism exact; now and then a short src (down to 2^-50) against a dst long
        // enough for |src||dst| - the quantity the constructor's parallel / antiparallel tests compare with the absolute
        // epsilon - to be of ordinary size
        if d.chance(1, 3) {
            let e1 = d.int(-50, -10) as i32;
            ((2.0f64).powi(e1), (2.0f64).powi(-e1 + d.int(-9, 20) as i32))
        } else {
            ((2.0f64).powi(d.int(-9, 9) as i32), (2.0f64).powi(d.int(-9, 9) as i32))
        }
    } else if unit_dot {
        // lengths chosen so that src . dst = 1 although the vectors are neither unit nor parallel
        let l1 = d.f64_log(1e-2, 1e2);
        (l1, 1.0 / (l1 * cosab))
    } else if far {
        // far outside the band of the near-parallel allowance, but with |src|^2 |dst|^2 and the
        // separation mag (1 -+ cos) well inside what f64 resolves
        (d.f64_log(1e-6, 1e70), d.f64_log(1e-6, 1e70))
    } else if d.chance(1, 5) {
        // "already unit", nearly: lengths 1 up to a relative 1e-12 .. 1e-3
        (1.0 + d.f64_slog(1e-12, 1e-3), if d.bool() { 1.0 } else { 1.0 + d.f64_slog(1e-12, 1e-3) })
    } else {
        (d.f64_log(1e-3, 1e3), d.f64_log(1e-3, 1e3))
    };
    let cls = if unit_dot { "dot-is-one" } else if far { "generic-far-lengths" } else { cls };
    let with_fb = d.bool() || extreme;
    let fb = perp_unit(&a, d);
    let src = Vector3::from(scale3(&a, l1));
    let dst = Vector3::from(scale3(&b, l2));
    d.note("src", &src);
    d.note("dst", &dst);
    d.note("class, fallback", &(cls, if with_fb { Some(fb) } else { None }));
    let q = Quaternion::from_arc(src, dst, if with_fb { Some(Vector3::from(fb)) } else { None });
    d.note("quaternion", &q);
    // directions actually handed in
    let an = fnormalize3(&v3(src));
    let bn = fnormalize3(&v3(dst));
    vcore::tryo!(check_rotation(&q, &an, &bn, cls, 1e-4, "Quaternion::from_arc"));
    ensure!(q.s >= -1e-12, "not-smaller-angle", "scalar part {} < 0: rotation through more than a half turn", q.s);
    if cls == "opposite" && with_fb {
        let ax = v3(q.v);
        let al = dotn(&ax, &fb).abs();
        ensure!((al - 1.0).abs() <= 1e-9, "fallback-ignored", "opposite vectors with fallback axis {:?}: rotation axis is {:?}", fb, ax);
    }
    pass(if cls == "opposite" { if with_fb { "opposite-fallback" } else { "opposite-no-fallback" } } else { cls }, true)
}

/// from_arc(src, -c src): opposite vectors of different lengths whose ratio is not a power of two, so that dst is
/// antiparallel to src only up to the rounding of the three products. Of 512 ratios near a drawn one the harness keeps
/// the pair whose *computed* cosine - by either of the two obvious formulas - looks least like -1 (worst-of-k sampling:
/// the rounding patterns that matter are a few per million, so they are searched for rather than waited for). Whatever
/// the constructor makes of such a pair, the result must take src/|src| onto dst/|dst| within the allowance the
/// statement gives nearly antiparallel inputs.
macro_rules! rounded_opposite {
    ($fname:ident, $F:ty, $allow:expr, $unit:expr) => {
        fn $fname(d: &mut Draw) -> Outcome {
            type F = $F;
            let src: [F; 3] = if d.chance(1, 4) {
                [d.int(-9, 9) as F, d.int(1, 9) as F, d.int(-9, 9) as F]
            } else {
                [d.f64_slog(0.1, 10.0) as F, d.f64_slog(0.1, 10.0) as F, d.f64_slog(0.1, 10.0) as F]
            };
            let c0 = d.f64_log(0.05, 50.0) as F;
            let dot = |x: &[F; 3], y: &[F; 3]| x[0] * y[0] + x[1] * y[1] + x[2] * y[2];
            let m2a = dot(&src, &src);
            let mut best = (-1.0 as F, [0.0 as F; 3], 0.0 as F);
            for k in 0..512 {
                let c = c0 * (1.0 + k as F / 521.0);
                let dst = [-(c * src[0]), -(c * src[1]), -(c * src[2])];
                let m2b = dot(&dst, &dst);
                let dt = dot(&src, &dst);
                let f1 = dt / (m2a * m2b).sqrt();
                let f2 = dt / (m2a.sqrt() * m2b.sqrt());
                let dev = (f1 + 1.0).abs().max((f2 + 1.0).abs());
                if dev > best.0 {
                    best = (dev, dst, c);
                }
            }
            let (dev, dst, c) = best;
            let with_fb = d.bool();
            let an64 = fnormalize3(&[src[0] as f64, src[1] as f64, src[2] as f64]);
            let bn64 = fnormalize3(&[dst[0] as f64, dst[1] as f64, dst[2] as f64]);
            let fb64 = perp_unit(&an64, d);
            let fb = Vector3::new(fb64[0] as F, fb64[1] as F, fb64[2] as F);
            d.note("src", &src);
            d.note("dst = -c src (rounded), c", &(dst, c));
            d.note("computed cosine + 1, in ulps", &(dev / (F::EPSILON / 2.0)));
            d.note("fallback", &if with_fb { Some(fb64) } else { None });
            let q = Quaternion::<F>::from_arc(Vector3::from(src), Vector3::from(dst), if with_fb { Some(fb) } else { None });
            d.note("quaternion", &q);
            let n = (q.s as f64 * q.s as f64 + q.v.x as f64 * q.v.x as f64 + q.v.y as f64 * q.v.y as f64 + q.v.z as f64 * q.v.z as f64).sqrt();
            ensure!((n - 1.0).abs() <= $unit, "not-unit", "from_arc of (nearly) opposite vectors: |q| = {}", n);
            let img = q * Vector3::new(an64[0] as F, an64[1] as F, an64[2] as F);
            let err = dist3(&[img.x as f64, img.y as f64, img.z as f64], &bn64);
            ensure!(err <= $allow, "opposite-image", "from_arc(src, -c src): r(src/|src|) = {:?}, expected dst/|dst| = {:?} (off by {:e}; the vectors are opposite up to rounding)", img, bn64, err);
            ensure!(q.s as f64 >= -1e-6, "not-smaller-angle", "scalar part {} < 0", q.s);
            // (representable numbers just inside -1 are epsilon/2 apart)
            let ulps = dev / (F::EPSILON / 2.0);
            pass(if ulps > 4.0 { "computed-cosine-more-than-4-ulps-from--1" } else if ulps > 2.0 { "computed-cosine-3-or-4-ulps-from--1" } else { "computed-cosine-within-2-ulps-of--1" }, ulps > 2.0)
        }
    };
}
rounded_opposite!(rounded_opposite_f64, f64, 1.01e-4, 8e-15);
rounded_opposite!(rounded_opposite_f32, f32, 1e-2, 4e-6);

// ---- exact tier ----------------------------------------------------------------------------------

fn reflect(a: &[Q; 3], m: &[Q; 3]) -> [Q; 3] {
    // b = 2 (a.m) m - a
    let k = Q::int(2) * dotn(a, m);
    [k * m[0] - a[0], k * m[1] - a[1], k * m[2] - a[2]]
}

fn exact3(d: &mut Draw) -> Outcome {
    let kind = d.int(0, 7);
    let (a, b, cls): ([Q; 3], [Q; 3], &'static str) = match kind {
        0..=4 => {
            let a = unit_vec3::<Q>(d);
            let m = unit_vec3::<Q>(d);
            let b = reflect(&a, &m);
            if dotn(&a, &m) == Q::ZERO {
                (a, b, "opposite-by-chance")
            } else if a == b {
                (a, b, "equal")
            } else {
                (a, b, "generic")
            }
        }
        5 => {
            let a = unit_vec3::<Q>(d);
            (a, a, "equal")
        }
        _ => {
            // a = (c, s c2, s s2): the perpendicular a x unit_x has rational length |s|
            let (c, s) = circle_point::<Q>(d);
            let (c2, s2) = circle_point::<Q>(d);
            let a = if d.chance(1, 6) { d.pick(&[[Q::ONE, Q::ZERO, Q::ZERO], [-Q::ONE, Q::ZERO, Q::ZERO], [Q::ZERO, Q::ONE, Q::ZERO]]) } else { [c, s * c2, s * s2] };
            (a, [-a[0], -a[1], -a[2]], "opposite")
        }
    };
    d.note("a", &a);
    d.note("b", &b);
    d.note("class", &cls);
    let (va, vb) = (mk_v3(&a), mk_v3(&b));
    let q: Quaternion<Q> = Rotation::between_vectors(va, vb);
    d.note("quaternion", &q);
    ensure_eq!(q.magnitude2(), Q::ONE, "not-unit", "|q|^2");
    ensure_eq!(q * va, vb, "image", "r(a) = b");
    if cls == "equal" {
        ensure_eq!(q, Quaternion::one(), "equal-not-identity", "equal vectors give the identity");
    } else {
        ensure_eq!(q.v.dot(va), Q::ZERO, "axis-not-perpendicular", "axis . a");
        ensure_eq!(q.v.dot(vb), Q::ZERO, "axis-not-perpendicular", "axis . b");
    }
    if cls == "opposite" || cls == "opposite-by-chance" {
        ensure_eq!(q.s, Q::ZERO, "opposite-not-half-turn", "scalar part for opposite vectors");
    } else {
        // cos of half the rotation angle: 2 s^2 - 1 = a.b and s >= 0
        ensure!(q.s >= Q::ZERO, "not-short-way", "scalar part {:?} < 0", q.s);
        ensure_eq!(Q::int(2) * q.s * q.s - Q::ONE, dotn(&a, &b), "rotation-angle", "cos(rotation angle) vs a.b");
    }
    let bs: Basis3<Q> = Rotation::between_vectors(va, vb);
    ensure_eq!(Matrix3::from(bs), Matrix3::from(q), "basis3-vs-quaternion", "Basis3::between_vectors vs matrix of the quaternion");

    // from_arc on scaled copies
    let l1 = Q::ratio(d.int(1, 12), d.int(1, 6));
    let ab = dotn(&a, &b);
    // now and then lengths with src . dst = 1 exactly (neither unit nor parallel)
    let l2 = if ab > Q::ZERO && ab != Q::ONE && d.chance(1, 3) { Q::ONE / (l1 * ab) } else { Q::ratio(d.int(1, 12), d.int(1, 6)) };
    let (src, dst) = (va * l1, vb * l2);
    // fallback: a rational unit vector perpendicular to a (only used for opposite vectors)
    let fb = {
        let m = unit_vec3::<Q>(d);
        let c = cross3(&a, &m);
        let n2 = dotn(&c, &c);
        if n2.is_square() && n2 != Q::ZERO {
            let n = num_traits::Float::sqrt(n2);
            Some(mk_v3(&[c[0] / n, c[1] / n, c[2] / n]))
        } else {
            None
        }
    };
    // the half turn used by from_arc's fallback branch: sin_cos(turn_div_2 / 2) = (1, 0)
    let quarter = cgmath::Rad::<Q>::turn_div_2().0 * Q::ratio(1, 2);
    register_angle(quarter, Q::ONE, Q::ZERO);
    let fa = Quaternion::from_arc(src, dst, fb);
    d.note("from_arc", &fa);
    ensure_eq!(fa.magnitude2(), Q::ONE, "from_arc-not-unit", "|from_arc|^2");
    ensure_eq!(fa * va, vb, "from_arc-image", "from_arc(src,dst) maps src/|src| to dst/|dst|");
    ensure!(fa.s >= Q::ZERO, "from_arc-not-smaller-angle", "from_arc scalar part {:?} < 0", fa.s);
    if cls == "opposite" || cls == "opposite-by-chance" {
        if let Some(f) = fb {
            ensure!(fa.v == f || fa.v == -f, "fallback-ignored", "opposite vectors: axis {:?}, fallback {:?}", fa.v, f);
        }
    } else if cls == "generic" {
        ensure_eq!(fa, q, "from_arc-vs-between_vectors", "from_arc equals between_vectors of the normalised inputs");
    }
    pass(cls, generic_entries(&a))
}

pub fn property() -> Property {
    let mut s = Vec::new();
    macro_rules! add {
        ($name:expr, $scalar:expr, $f:expr, $q:expr, $t:expr, $len:expr, $req:expr, $rule:expr) => {
            s.push(SubCheck { name: $name, scalar: $scalar, quick: $q, thorough: $t, len: $len, f: $f, required: $req, rule: $rule, exhaustive: false });
        };
    }
    const C3: &[(&str, u32)] = &[("generic", 200), ("near-parallel", 100), ("near-antiparallel", 100), ("equal", 40), ("opposite", 40)];
    add!("between_vectors_3d-f64", "f64", between3_f64, 12000, 1_000_000, 40, C3, "every generated pair; all five classes required");
    add!("between_vectors_2d-f64", "f64", between2_f64, 10000, 1_000_000, 16,
        &[("clockwise", 150), ("counter-clockwise", 100), ("near-parallel", 40), ("near-antiparallel", 40), ("equal", 40), ("opposite", 40)], "every generated pair; clockwise pairs required");
    add!("from_arc-f64", "f64", from_arc_f64, 12000, 1_000_000, 48,
        &[("generic", 100), ("dot-is-one", 30), ("generic-far-lengths", 30), ("near-parallel", 100), ("near-antiparallel", 100), ("equal", 40), ("opposite-fallback", 15), ("opposite-no-fallback", 15)], "every generated pair; fallback given / not given both required");
    const RO: &[(&str, u32)] = &[("computed-cosine-3-or-4-ulps-from--1", 100), ("computed-cosine-more-than-4-ulps-from--1", 2)];
    add!("from_arc_rounded_opposite-f64", "f64", rounded_opposite_f64, 12000, 1_000_000, 24, RO, "every generated pair (dst = -c src rounded, the least opposite-looking of 512 ratios)");
    add!("from_arc_rounded_opposite-f32", "f32", rounded_opposite_f32, 12000, 1_000_000, 24, RO, "every generated pair (dst = -c src rounded, the least opposite-looking of 512 ratios)");
    add!("between_vectors_from_arc-Q", "Q", exact3, 8000, 500_000, 48, &[("generic", 200), ("equal", 50), ("opposite", 100)], "a has three distinct non-zero components");
    Property {
        id: "C15",
        title: "between_vectors and from_arc return the shortest rotation taking a onto b",
        subchecks: s,
        assumptions: &[
            "between_vectors inputs are unit (normalised in f64, exactly unit rationals in Q); non-unit inputs are outside the statement",
            "f64: 'exact' is read as 1e-9; directions within 1e-7 rad (1e-4 rad for from_arc, lengths 1e-3..1e3; generic directions at least 0.1 rad from (anti)parallel are also drawn with lengths 1e-6..1e70, where |src|^2 |dst|^2 is still finite and the separation from the parallel tests is 20x the absolute epsilon) of (anti)parallel get the stated allowance; thresholds are f64-calibrated",
            "Q: b = 2(a.m)m - a makes every internal normalisation rational; the 2-D variant needs inverse trigonometry and is decided in f64 only",
            "exactly opposite inputs for from_arc use power-of-two lengths so that antiparallelism survives scaling",
        ],
        fuzz: true,
    }
}
