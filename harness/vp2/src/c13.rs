//! C13 — Rad / Deg: conversion, normalisation, trigonometry.

use vcore::engine::*;
use vcore::gen::Sc;
use vcore::q::Q;
use vcore::{ensure, ensure_eq};
use cgmath::prelude::*;
use cgmath::{Deg, Rad};

// ---- exact modular arithmetic (Q) ----------------------------------------------------------------

fn is_int(x: Q) -> bool {
    x.den() == 1
}
/// representative of x modulo t in [-t/2, t/2)
fn wrap_q(x: Q, t: Q) -> Q {
    let k = num_traits::Float::floor(x / t + Q::ratio(1, 2));
    x - t * k
}

macro_rules! exact_unit {
    ($fname:ident, $A:ident) => {
        fn $fname(d: &mut Draw) -> Outcome {
            let t = $A::<Q>::full_turn().0;
            // angle = (k + f) turns, k integer in +-40, f a small rational in [0,1)
            let mut ga = |d: &mut Draw| -> Q {
                let k = d.int(-40, 40);
                let den = d.pick(&[1i64, 2, 3, 4, 5, 6, 7, 8, 12, 360]);
                let f = Q::ratio(d.int(0, den - 1), den);
                (Q::int(k) + f) * t
            };
            let kind = d.int(0, 5);
            let a = ga(d);
            let b = match kind {
                0 => a + t / Q::int(2) + t * Q::int(d.int(-3, 3)), // exactly opposite
                1 => {
                    // straddling the 0 / full-turn seam
                    let eps = Q::ratio(d.int(1, 40), 360) * t;
                    let a2 = t * Q::int(d.int(-2, 2)) - eps;
                    let _ = a2;
                    a + eps + eps
                }
                _ => ga(d),
            };
            d.note("a (turns)", &(a / t));
            d.note("b (turns)", &(b / t));
            let (aa, bb) = ($A(a), $A(b));
            let half = t / Q::int(2);
            let quarter = t / Q::int(4);

            // turn fractions
            ensure_eq!($A::<Q>::turn_div_2().0 * Q::int(2), t, "turn_div_2", "turn_div_2() * 2");
            ensure_eq!($A::<Q>::turn_div_3().0 * Q::int(3), t, "turn_div_3", "turn_div_3() * 3");
            ensure_eq!($A::<Q>::turn_div_4().0 * Q::int(4), t, "turn_div_4", "turn_div_4() * 4");
            ensure_eq!($A::<Q>::turn_div_6().0 * Q::int(6), t, "turn_div_6", "turn_div_6() * 6");

            // normalize / normalize_signed
            let n = aa.normalize().0;
            ensure!(n >= Q::ZERO && n <= t, "normalize-range", "normalize({:?} turns) = {:?} turns is outside [0,1]", a / t, n / t);
            ensure!(is_int((n - a) / t), "normalize-whole-turns", "normalize(a) - a = {:?} turns is not a whole number", (n - a) / t);
            let ns = aa.normalize_signed().0;
            ensure!(ns >= -half && ns <= half, "normalize_signed-range", "normalize_signed({:?} turns) = {:?} turns is outside [-1/2,1/2]", a / t, ns / t);
            ensure!(is_int((ns - a) / t), "normalize_signed-whole-turns", "normalize_signed(a) - a = {:?} turns is not a whole number", (ns - a) / t);

            // opposite
            let o = aa.opposite().0;
            ensure!(o >= Q::ZERO && o <= t, "opposite-range", "opposite(a) = {:?} turns outside [0,1]", o / t);
            ensure!(is_int((o - a - half) / t), "opposite-half-turn", "opposite(a) - a - 1/2 = {:?} turns is not a whole number", (o - a - half) / t);
            ensure_eq!(o, $A(a + half).normalize().0, "opposite-is-normalize", "opposite(a) vs normalize(a + half turn)");

            // bisect: midway between a and b
            let m = aa.bisect(bb).0;
            let d1 = wrap_q(m - a, t);
            let d2 = wrap_q(b - m, t);
            d.note("bisect (turns)", &(m / t));
            ensure!(is_int((d1 - d2) / t), "bisect-not-midway",
                "bisect({:?}, {:?}) = {:?} (turns): signed distance to a is {:?}, to b is {:?}", a / t, b / t, m / t, d1 / t, d2 / t);
            ensure!(d1.abs_() <= quarter && d2.abs_() <= quarter, "bisect-far-side",
                "bisect({:?}, {:?}) = {:?} (turns) is more than a quarter turn away ({:?})", a / t, b / t, m / t, d1 / t);

            // arithmetic acts on the underlying number
            let k = <Q as Sc>::gen_nz(d);
            ensure_eq!((aa + bb).0, a + b, "add", "a + b");
            ensure_eq!((aa - bb).0, a - b, "sub", "a - b");
            ensure_eq!((-aa).0, -a, "neg", "-a");
            ensure_eq!((aa * k).0, a * k, "mul", "a * k");
            ensure_eq!((aa / k).0, a / k, "div", "a / k");
            if b != Q::ZERO {
                ensure_eq!(aa / bb, a / b, "angle-ratio", "a / b");
                ensure_eq!((aa % bb).0, a % b, "rem", "a % b");
            }
            let s: $A<Q> = [aa, bb, aa].iter().sum();
            ensure_eq!(s.0, ((Q::ZERO + a) + b) + a, "sum", "Sum");
            let cls = match kind {
                0 => "opposite-pair",
                1 => "seam-pair",
                _ => "generic-pair",
            };
            pass(cls, a != b && !is_int(a / t))
        }
    };
}
exact_unit!(exact_deg, Deg);
exact_unit!(exact_rad, Rad);

// ---- native floats -------------------------------------------------------------------------------

macro_rules! float_checks {
    ($modname:ident, $F:ident, $bits:ident, $draw_bits:ident, $lo:expr, $hi:expr) => {
        pub mod $modname {
            use super::*;
            type F = $F;
            const EPS: f64 = $F::EPSILON as f64;
            const PI64: f64 = std::f64::consts::PI;

            fn from_bits_finite(d: &mut Draw) -> F {
                let b = d.$draw_bits();
                let v = F::from_bits(b);
                if v.is_finite() {
                    v
                } else {
                    F::from_bits(b & !(1 << (if std::mem::size_of::<F>() == 4 { 23 } else { 52 })))
                }
            }

            /// value classes aimed at the interesting regions of normalize()
            fn special(d: &mut Draw, turn: F) -> (F, &'static str) {
                match d.int(0, 9) {
                    0 | 1 | 2 => (from_bits_finite(d), "raw-bits"),
                    3 => (-(F::MIN_POSITIVE * d.int(1, 1000) as F / 1024.0), "tiny-negative"),
                    4 => (-(d.f64_log(1e-30, 1e-6) as F), "tiny-negative"),
                    5 => ((d.int(-1_000_000, 1_000_000) as F) * turn, "turn-multiple"),
                    6 => ((d.f64_slog(1e8, 1e30)) as F, "huge"),
                    7 => (F::from_bits(d.int(0, 1 << 20) as $bits) * if d.bool() { 1.0 } else { -1.0 }, "subnormal"),
                    8 => ((d.int(-8, 8) as F) * turn / 4.0, "quarter-multiple"),
                    _ => (d.f64_in(-20.0, 20.0) as F * turn, "moderate"),
                }
            }

            /// range membership for every native value, whole-turn difference for moderate ones
            pub fn normalize(d: &mut Draw) -> Outcome {
                let deg = d.bool();
                let turn: F = if deg { 360.0 } else { (2.0 * PI64) as F };
                let (a, cls) = special(d, turn);
                d.note("unit", &if deg { "Deg" } else { "Rad" });
                d.note("a", &a);
                let (n, ns, o) = if deg {
                    (Deg(a).normalize().0, Deg(a).normalize_signed().0, Deg(a).opposite().0)
                } else {
                    (Rad(a).normalize().0, Rad(a).normalize_signed().0, Rad(a).opposite().0)
                };
                let (ft, half) = if deg { (Deg::<F>::full_turn().0, Deg::<F>::turn_div_2().0) } else { (Rad::<F>::full_turn().0, Rad::<F>::turn_div_2().0) };
                ensure!(n >= 0.0 && n <= ft, "normalize-range", "normalize({:e}) = {:e} outside [0, {}]", a, n, ft);
                ensure!(ns >= -half && ns <= half, "normalize_signed-range", "normalize_signed({:e}) = {:e} outside [-{}, {}]", a, ns, half, half);
                // an angle that is already the representative is returned as it is: the remainder by a larger modulus is
                // exact, so nothing is rounded (a relative statement - tiny angles keep all their digits)
                if a >= 0.0 && a < ft {
                    ensure!(n.to_bits() == a.to_bits() || ((n - a).abs() as f64) <= 2.0 * EPS * a as f64, "normalize-in-range-identity", "normalize({:e}) = {:e}: an angle inside [0, full turn) is not returned unchanged", a, n);
                }
                if a > -half && a <= half && a != 0.0 {
                    let want = a;
                    ensure!(((ns - want).abs() as f64) <= 4.0 * EPS * (ft as f64) , "normalize_signed-in-range", "normalize_signed({:e}) = {:e}", a, ns);
                    if a > 0.0 {
                        ensure!(ns.to_bits() == a.to_bits() || ((ns - a).abs() as f64) <= 2.0 * EPS * a as f64, "normalize_signed-in-range-identity", "normalize_signed({:e}) = {:e}: an angle inside (0, half turn] is not returned unchanged", a, ns);
                    }
                }
                let tol = if std::mem::size_of::<F>() == 4 { 1e-6 } else { 1e-9 };
                let t64 = ft as f64;
                if (a as f64).abs() <= 1.0e6 * t64 {
                    let k = (n as f64 - a as f64) / t64;
                    ensure!((k - k.round()).abs() <= tol, "normalize-whole-turns", "normalize({:e}) = {:e}: differs from a by {} turns", a, n, k);
                    let k = (ns as f64 - a as f64) / t64;
                    ensure!((k - k.round()).abs() <= tol, "normalize_signed-whole-turns", "normalize_signed({:e}) = {:e}: differs from a by {} turns", a, ns, k);
                }
                // opposite: in range for moderate values and half a turn away modulo whole turns
                if (a as f64).abs() <= 1.0e6 * t64 {
                    ensure!(o >= 0.0 && o <= ft, "opposite-range", "opposite({:e}) = {:e} outside [0, {}]", a, o, ft);
                    let k = (o as f64 - a as f64 - half as f64) / t64;
                    let slack = tol + 4.0 * EPS * (1.0 + (a as f64 / t64).abs());
                    ensure!((k - k.round()).abs() <= slack, "opposite-half-turn", "opposite({:e}) = {:e}: not half a turn from a modulo whole turns ({} turns)", a, o, k);
                }
                pass(cls, a != 0.0)
            }

            /// unit conversion: round trip within 4 eps, absolute factor within 4 eps, full turns
            pub fn convert(d: &mut Draw) -> Outcome {
                // degrees: every magnitude up to the largest finite value (the radian measure is smaller, so
                // nothing overflows); radians: up to MAX/64 (beyond that the degree measure is not representable)
                let huge = d.chance(1, 6);
                let top = F::MAX as f64;
                let a = if huge { (top * d.f64_in(0.02, 1.0) * if d.bool() { 1.0 } else { -1.0 }) as F } else { d.f64_slog($lo, $hi) as F };
                d.note("a", &a);
                let back = Deg::from(Rad::from(Deg(a))).0;
                let rel = ((back as f64 - a as f64) / a as f64).abs();
                ensure!(rel <= 4.0 * EPS, "deg-rad-deg", "Deg({:e}) -> Rad -> Deg = {:e}: relative error {:e} > 4 eps", a, back, rel);
                let r = Rad::from(Deg(a)).0 as f64;
                let want = a as f64 * (PI64 / 180.0);
                ensure!(((r - want) / want).abs() <= 4.0 * EPS, "deg-to-rad-factor", "Rad::from(Deg({:e})) = {:e}, expected a*pi/180 = {:e}", a, r, want);
                let a = if huge { a / 64.0 } else { a };
                let back = Rad::from(Deg::from(Rad(a))).0;
                let rel = ((back as f64 - a as f64) / a as f64).abs();
                ensure!(rel <= 4.0 * EPS, "rad-deg-rad", "Rad({:e}) -> Deg -> Rad = {:e}: relative error {:e} > 4 eps", a, back, rel);
                let dg = Deg::from(Rad(a)).0 as f64;
                let want = a as f64 * (180.0 / PI64);
                ensure!(((dg - want) / want).abs() <= 4.0 * EPS, "rad-to-deg-factor", "Deg::from(Rad({:e})) = {:e}, expected a*180/pi = {:e}", a, dg, want);
                // at the bottom of the range (subnormal angles, a few units of the smallest positive number up to 2^22 of
                // them) a relative bound means nothing, but each conversion is still one correctly rounded multiplication:
                // within one unit of a * 180/pi resp. a * pi/180, and radians -> degrees -> radians lands within a unit of a
                {
                    let unit = F::from_bits(1) as f64;
                    let t = F::from_bits(d.int(1, 1 << 22) as _) * if d.bool() { 1.0 } else { -1.0 };
                    let t64 = t as f64;
                    let dg = Deg::from(Rad(t)).0 as f64;
                    ensure!((dg - t64 * (180.0 / PI64)).abs() <= 1.0 * unit + 4.0 * EPS * dg.abs(), "rad-to-deg-subnormal", "Deg::from(Rad({:e})) = {:e}, a*180/pi = {:e} ({} units of the smallest subnormal)", t, dg, t64 * (180.0 / PI64), (t64 / unit).abs());
                    let rd = Rad::from(Deg(t)).0 as f64;
                    ensure!((rd - t64 * (PI64 / 180.0)).abs() <= 1.0 * unit + 4.0 * EPS * rd.abs(), "deg-to-rad-subnormal", "Rad::from(Deg({:e})) = {:e}, a*pi/180 = {:e}", t, rd, t64 * (PI64 / 180.0));
                    let back = Rad::from(Deg::from(Rad(t))).0 as f64;
                    ensure!((back - t64).abs() <= 1.0 * unit, "rad-deg-rad-subnormal", "Rad({:e}) -> Deg -> Rad = {:e}: off by {} units of the smallest subnormal", t, back, ((back - t64) / unit).abs());
                }
                // full turns
                let rt = Rad::<F>::full_turn().0 as f64;
                ensure!((rt - 2.0 * PI64).abs() <= 4.0 * EPS * rt, "rad-full-turn", "Rad::full_turn() = {}", rt);
                ensure!(Deg::<F>::full_turn().0 == 360.0, "deg-full-turn", "Deg::full_turn() = {}", Deg::<F>::full_turn().0);
                let conv = Rad::from(Deg::<F>::full_turn()).0 as f64;
                ensure!((conv - rt).abs() <= 4.0 * EPS * rt, "full-turns-convert", "Rad::from(Deg::full_turn()) = {} vs Rad::full_turn() = {}", conv, rt);
                let conv = Deg::from(Rad::<F>::full_turn()).0 as f64;
                ensure!((conv - 360.0).abs() <= 4.0 * EPS * 360.0, "full-turns-convert-back", "Deg::from(Rad::full_turn()) = {}", conv);
                for (k, v) in [(2.0, Rad::<F>::turn_div_2().0), (3.0, Rad::<F>::turn_div_3().0), (4.0, Rad::<F>::turn_div_4().0), (6.0, Rad::<F>::turn_div_6().0)] {
                    ensure!((v as f64 * k - rt).abs() <= 4.0 * EPS * rt, "rad-turn_div", "Rad::turn_div_{}() * {} = {}", k, k, v as f64 * k);
                }
                for (k, v) in [(2.0, Deg::<F>::turn_div_2().0), (3.0, Deg::<F>::turn_div_3().0), (4.0, Deg::<F>::turn_div_4().0), (6.0, Deg::<F>::turn_div_6().0)] {
                    ensure!((v as f64 * k - 360.0).abs() <= 4.0 * EPS * 360.0, "deg-turn_div", "Deg::turn_div_{}() * {} = {}", k, k, v as f64 * k);
                }
                pass(if huge { "near-max" } else if a.abs() < 1e-6 { "small" } else if a.abs() > 1e6 { "large" } else { "moderate" }, true)
            }

            /// sin, cos, tan, sin_cos, csc, sec, cot against libm (oracle evaluated in f64)
            pub fn trig(d: &mut Draw) -> Outcome {
                let deg = d.bool();
                let kind = d.int(0, 4);
                let x = match kind {
                    0 => d.f64_in(-7.0, 7.0),
                    1 => d.f64_slog(1e-8, 1e4),
                    2 => (d.int(-64, 64) as f64) * PI64 / 8.0 + d.f64_slog(1e-6, 0.3),
                    _ => d.f64_in(-100.0, 100.0),
                };
                // the value handed to cgmath, in its unit and its type
                let mut a: F = if deg { (x * 180.0 / PI64) as F } else { x as F };
                if kind == 4 {
                    // exactly the library's own named angles (the floats nearest to a half, third, quarter, sixth of a
                    // turn, a full turn, zero) and small integer multiples of them, either sign
                    let k = d.pick(&[1.0, -1.0, 2.0, -2.0, 3.0, 0.5, -0.5, 5.0]) as F;
                    let w = d.below(6);
                    a = k * if deg {
                        [Deg::<F>::turn_div_2().0, Deg::<F>::turn_div_3().0, Deg::<F>::turn_div_4().0, Deg::<F>::turn_div_6().0, Deg::<F>::full_turn().0, 0.0][w]
                    } else {
                        [Rad::<F>::turn_div_2().0, Rad::<F>::turn_div_3().0, Rad::<F>::turn_div_4().0, Rad::<F>::turn_div_6().0, Rad::<F>::full_turn().0, 0.0][w]
                    };
                }
                d.note("unit", &if deg { "Deg" } else { "Rad" });
                d.note("a", &a);
                // radian measure of exactly that value, in f64
                let xr = if deg { a as f64 * (PI64 / 180.0) } else { a as f64 };
                let (s, c) = (xr.sin(), xr.cos());
                let (gs, gc, gt, gsc, gcsc, gsec, gcot) = if deg {
                    let v = Deg(a);
                    (v.sin(), v.cos(), v.tan(), v.sin_cos(), v.csc(), v.sec(), v.cot())
                } else {
                    let v = Rad(a);
                    (v.sin(), v.cos(), v.tan(), v.sin_cos(), v.csc(), v.sec(), v.cot())
                };
                let ax = xr.abs();
                // Rad: the input *is* the radian measure, so only the function's own rounding is allowed (2 eps |f|).
                // Deg: the conversion a*pi/180 may be off by ~1.5 eps relative, which moves f by |x f'(x)| eps.
                let conv = if deg { 8.0 } else { 0.0 };
                let tol = |f: f64, df: f64| EPS * (2.0 * f.abs() + conv * (f.abs() + ax * df.abs())) + 1e-300;
                let chk = |name: &'static str, got: F, f: f64, df: f64| -> Result<(), Outcome> {
                    if (got as f64 - f).abs() <= tol(f, df) {
                        Ok(())
                    } else {
                        Err(Outcome::Fail { sig: name, msg: format!("{}({:e} {}) = {:e}, libm gives {:e}", name, a, if deg { "deg" } else { "rad" }, got, f) })
                    }
                };
                vcore::tryo!(chk("sin", gs, s, c));
                vcore::tryo!(chk("cos", gc, c, s));
                vcore::tryo!(chk("sin_cos.0", gsc.0, s, c));
                vcore::tryo!(chk("sin_cos.1", gsc.1, c, s));
                let mut cls = "regular";
                if c.abs() > 1e-3 {
                    vcore::tryo!(chk("tan", gt, s / c, 1.0 / (c * c)));
                    vcore::tryo!(chk("sec", gsec, 1.0 / c, s / (c * c)));
                } else {
                    cls = "near-pole";
                }
                if s.abs() > 1e-3 {
                    vcore::tryo!(chk("csc", gcsc, 1.0 / s, c / (s * s)));
                    vcore::tryo!(chk("cot", gcot, c / s, 1.0 / (s * s)));
                } else {
                    cls = "near-pole";
                }
                pass(if kind == 4 { "named-angle" } else { cls }, ax > 1e-3)
            }

            /// asin, acos, atan, atan2 return the principal value in the caller's unit
            pub fn inverse(d: &mut Draw) -> Outcome {
                let deg = d.bool();
                let r = match d.int(0, 4) {
                    0 => d.f64_in(-1.0, 1.0),
                    1 => d.pick(&[-1.0, 1.0, 0.0, 0.5, -0.5]),
                    // next to +-1 (1e-15 .. 1e-2 inside), where a formula that passes through 1 - r^2 loses what r still has
                    4 => (1.0 - d.f64_log(1e-15, 1e-2)) * if d.bool() { 1.0 } else { -1.0 },
                    _ => d.f64_slog(1e-6, 1.0),
                } as F;
                let t = d.f64_slog(1e-6, 1e6) as F;
                let (ya, xa) = match d.int(0, 4) {
                    0 => (d.pick(&[0.0, 1.0, -1.0]) as F, d.pick(&[1.0, -1.0, 2.0]) as F),
                    1 => (d.pick(&[1.0, -1.0]) as F, 0.0 as F),
                    _ => (d.f64_slog(1e-3, 1e3) as F, d.f64_slog(1e-3, 1e3) as F),
                };
                d.note("ratio, t, (y,x)", &(r, t, (ya, xa)));
                let k = if deg { 180.0 / PI64 } else { 1.0 };
                let (g_asin, g_acos, g_atan, g_atan2) = if deg {
                    (Deg::<F>::asin(r).0, Deg::<F>::acos(r).0, Deg::<F>::atan(t).0, Deg::<F>::atan2(ya, xa).0)
                } else {
                    (Rad::<F>::asin(r).0, Rad::<F>::acos(r).0, Rad::<F>::atan(t).0, Rad::<F>::atan2(ya, xa).0)
                };
                // the argument is a float, taken exactly: its principal inverse is a definite real number, and a result that is
                // that number to rounding is within a few ulps of it *relative to the result* - wherever the argument lies,
                // including next to +-1 where the function is steep (the steepness matters for a perturbed argument, and this one
                // is not perturbed). 8 eps covers libm's last-bit error and the one multiplication of the Deg conversion
                let near = |got: F, want: f64, _scale: f64| (got as f64 - want).abs() <= 8.0 * EPS * want.abs() + f64::MIN_POSITIVE;
                let r64 = r as f64;
                ensure!(near(g_asin, r64.asin() * k, k), "asin", "asin({:e}) = {:e}, principal value {:e}", r, g_asin, r64.asin() * k);
                ensure!(near(g_acos, r64.acos() * k, k), "acos", "acos({:e}) = {:e}, principal value {:e}", r, g_acos, r64.acos() * k);
                ensure!(near(g_atan, (t as f64).atan() * k, k), "atan", "atan({:e}) = {:e}, principal value {:e}", t, g_atan, (t as f64).atan() * k);
                ensure!(near(g_atan2, (ya as f64).atan2(xa as f64) * k, k * 2.0), "atan2", "atan2({:e}, {:e}) = {:e}, principal value {:e}", ya, xa, g_atan2, (ya as f64).atan2(xa as f64) * k);
                let quarter = 0.5 * PI64 * k * (1.0 + 4.0 * EPS);
                ensure!((g_asin as f64).abs() <= quarter, "asin-range", "asin out of range: {:e}", g_asin);
                ensure!(g_acos as f64 >= 0.0 && g_acos as f64 <= 2.0 * quarter, "acos-range", "acos out of range: {:e}", g_acos);
                ensure!((g_atan as f64).abs() <= quarter, "atan-range", "atan out of range: {:e}", g_atan);
                ensure!((g_atan2 as f64).abs() <= 2.0 * quarter, "atan2-range", "atan2 out of range: {:e}", g_atan2);
                // sin(asin x) = x
                let back = if deg { Deg(g_asin).sin() } else { Rad(g_asin).sin() };
                ensure!((back as f64 - r64).abs() <= 16.0 * EPS, "sin-asin", "sin(asin({:e})) = {:e}", r, back);
                pass(if deg { "deg" } else { "rad" }, true)
            }

            /// + - neg * / % and Sum act on the underlying number (bit-identical)
            pub fn arithmetic(d: &mut Draw) -> Outcome {
                let a = from_bits_finite(d);
                let b = from_bits_finite(d);
                let k = from_bits_finite(d);
                d.note("a,b,k", &(a, b, k));
                let same = |x: F, y: F| x.to_bits() == y.to_bits() || (x.is_nan() && y.is_nan());
                macro_rules! unit {
                    ($A:ident) => {{
                        let (aa, bb) = ($A(a), $A(b));
                        ensure!(same((aa + bb).0, a + b), "add", "a + b");
                        ensure!(same((aa - bb).0, a - b), "sub", "a - b");
                        ensure!(same((-aa).0, -a), "neg", "-a");
                        ensure!(same((aa * k).0, a * k), "mul", "a * k");
                        ensure!(same((aa / k).0, a / k), "div", "a / k");
                        ensure!(same(aa / bb, a / b), "angle-ratio", "a / b");
                        ensure!(same((aa % bb).0, a % b), "rem", "a % b");
                        let mut t = aa; t += bb;
                        ensure!(same(t.0, a + b), "add_assign", "a += b");
                        let mut t = aa; t -= bb;
                        ensure!(same(t.0, a - b), "sub_assign", "a -= b");
                        let mut t = aa; t *= k;
                        ensure!(same(t.0, a * k), "mul_assign", "a *= k");
                        let mut t = aa; t /= k;
                        ensure!(same(t.0, a / k), "div_assign", "a /= k");
                        let mut t = aa; t %= bb;
                        ensure!(same(t.0, a % b), "rem_assign", "a %= b");
                        let s: $A<F> = [aa, bb, aa].iter().sum();
                        ensure!(same(s.0, ((0.0 + a) + b) + a), "sum-refs", "Sum over references");
                        let s: $A<F> = vec![aa, bb].into_iter().sum();
                        ensure!(same(s.0, (0.0 + a) + b), "sum-values", "Sum over values");
                        // operands by reference; single and empty sums; zero()
                        ensure!(same((&aa + &bb).0, a + b) && same((aa + &bb).0, a + b) && same((&aa + bb).0, a + b), "add-ref-forms", "a + b with reference operands");
                        ensure!(same((&aa - &bb).0, a - b) && same((aa - &bb).0, a - b) && same((&aa - bb).0, a - b), "sub-ref-forms", "a - b with reference operands");
                        ensure!(same((&aa % &bb).0, a % b) && same((aa % &bb).0, a % b) && same((&aa % bb).0, a % b), "rem-ref-forms", "a % b with reference operands");
                        ensure!(same(&aa / &bb, a / b) && same(aa / &bb, a / b) && same(&aa / bb, a / b), "ratio-ref-forms", "a / b with reference operands");
                        ensure!(same((&aa * k).0, a * k) && same((&aa / k).0, a / k) && same((-&aa).0, -a), "scalar-ref-forms", "&a * k, &a / k, -&a");
                        let s: $A<F> = [aa].iter().sum();
                        ensure!(same(s.0, 0.0 + a), "sum-single", "Sum of one angle");
                        // iterators that do not know their length
                        let s: $A<F> = vec![aa, bb, aa].into_iter().filter(|_| true).sum();
                        ensure!(same(s.0, ((0.0 + a) + b) + a), "sum-unsized-values", "Sum over a filtered iterator of values");
                        let s: $A<F> = [aa, bb, aa].iter().filter(|_| true).sum();
                        ensure!(same(s.0, ((0.0 + a) + b) + a), "sum-unsized-refs", "Sum over a filtered iterator of references");
                        let mut k = 0;
                        let s: $A<F> = std::iter::from_fn(|| { k += 1; if k <= 2 { Some(if k == 1 { aa } else { bb }) } else { None } }).sum();
                        ensure!(same(s.0, (0.0 + a) + b), "sum-from_fn", "Sum over a from_fn iterator");
                        let s: $A<F> = [aa; 0].iter().sum();
                        ensure!(same(s.0, 0.0) && same($A::<F>::zero().0, 0.0), "sum-empty", "empty Sum and zero()");
                    }};
                }
                unit!(Rad);
                unit!(Deg);
                pass("raw-bits", a != 0.0 && b != 0.0)
            }

            /// bisect on native floats (both units), tolerance 1e-9 (1+|a|+|b|) turns-scaled
            pub fn bisect(d: &mut Draw) -> Outcome {
                let deg = d.bool();
                let turn: f64 = if deg { 360.0 } else { 2.0 * PI64 };
                let kind = d.int(0, 5);
                if kind >= 4 {
                    // a = b, anywhere in the finite range (the top binade, where a + b is no longer finite, one time in three):
                    // the difference is exactly zero, so the bisector is the direction of a itself
                    let a: F = if d.chance(1, 3) { (if d.bool() { 1.0 } else { -1.0 }) * (F::MAX / 2.0) * (1.0 + d.unit() as F * 0.999) } else { from_bits_finite(d) };
                    d.note("unit", &if deg { "Deg" } else { "Rad" });
                    d.note("a = b", &a);
                    let t = turn as F;
                    let want = { let r = a % t; if r < 0.0 { r + t } else { r } };
                    let (m, n) = if deg { (Deg(a).bisect(Deg(a)).0, Deg(a).normalize().0) } else { (Rad(a).bisect(Rad(a)).0, Rad(a).normalize().0) };
                    d.note("bisect", &m);
                    let circ = |x: F| { let x = x.abs(); x.min((t - x).abs()) };
                    ensure!(m.is_finite() && circ(m - want) <= 8.0 * F::EPSILON * t, "bisect-of-equal-angles",
                        "bisect({:e}, {:e}) = {:e}; the direction of the angle itself is {:e} (normalize gives {:e})", a, a, m, want, n);
                    return pass(if a.abs() > F::MAX / 2.0 { "equal-pair-top-binade" } else { "equal-pair" }, true);
                }
                let a = (d.f64_in(-3.0, 3.0) * turn) as F;
                let b = match kind {
                    0 => (a as f64 + turn / 2.0 + (d.int(-2, 2) as f64) * turn) as F,
                    1 => (a as f64 + d.f64_slog(1e-3, 0.2) * turn + (d.int(-2, 2) as f64) * turn) as F,
                    _ => (d.f64_in(-3.0, 3.0) * turn) as F,
                };
                d.note("unit", &if deg { "Deg" } else { "Rad" });
                d.note("a,b", &(a, b));
                let m = if deg { Deg(a).bisect(Deg(b)).0 } else { Rad(a).bisect(Rad(b)).0 } as f64;
                let wrap = |x: f64| x - turn * (x / turn + 0.5).floor();
                let d1 = wrap(m - a as f64);
                let d2 = wrap(b as f64 - m);
                let tol = (if std::mem::size_of::<F>() == 4 { 1e-4 } else { 1e-9 }) * turn;
                let diff = wrap(d1 - d2).abs();
                let sep = wrap(b as f64 - a as f64).abs();
                d.note("bisect", &m);
                if (sep - turn / 2.0).abs() <= tol {
                    // (numerically) opposite: either bisector is acceptable
                    ensure!(diff <= 4.0 * tol && (d1.abs() - turn / 4.0).abs() <= 4.0 * tol, "bisect-opposite",
                        "bisect of opposite angles {:e}, {:e} = {:e}: distances {:e} / {:e}", a, b, m, d1, d2);
                    return pass("opposite-pair", true);
                }
                ensure!(diff <= tol, "bisect-not-midway", "bisect({:e}, {:e}) = {:e}: signed distance to a is {:e}, to b is {:e}", a, b, m, d1, d2);
                ensure!(d1.abs() <= turn / 4.0 + tol, "bisect-far-side", "bisect({:e}, {:e}) = {:e} is {:e} away from a (more than a quarter turn)", a, b, m, d1);
                pass(if kind == 1 { "near-pair" } else { "generic-pair" }, true)
            }
        }
    };
}

float_checks!(f64c, f64, u64, bits64, 1e-290, 1e290);
float_checks!(f32c, f32, u32, bits32, 1e-30, 1e30);

pub fn property() -> Property {
    let mut s = Vec::new();
    macro_rules! add {
        ($name:expr, $scalar:expr, $f:expr, $q:expr, $t:expr, $len:expr, $req:expr, $rule:expr) => {
            s.push(SubCheck { name: $name, scalar: $scalar, quick: $q, thorough: $t, len: $len, f: $f, required: $req, rule: $rule, exhaustive: false });
        };
    }
    const PAIRS: &[(&str, u32)] = &[("opposite-pair", 50), ("seam-pair", 50), ("generic-pair", 200)];
    const NORM: &[(&str, u32)] = &[("raw-bits", 100), ("tiny-negative", 50), ("turn-multiple", 30), ("huge", 30), ("subnormal", 30)];
    add!("modular-Deg-Q", "Q", exact_deg, 6000, 400_000, 24, PAIRS, "a != b and a not a whole number of turns");
    add!("modular-Rad-Q", "Q", exact_rad, 6000, 400_000, 24, PAIRS, "a != b and a not a whole number of turns");
    add!("normalize-f64", "f64", f64c::normalize, 20000, 2_000_000, 12, NORM, "any non-zero finite value; classes raw-bits/tiny-negative/turn-multiple/huge/subnormal required");
    add!("normalize-f32", "f32", f32c::normalize, 20000, 2_000_000, 12, NORM, "any non-zero finite value; classes raw-bits/tiny-negative/turn-multiple/huge/subnormal required");
    add!("convert-f64", "f64", f64c::convert, 10000, 1_000_000, 24, &[("small", 100), ("large", 100), ("near-max", 50)], "every generated magnitude (log-uniform over the non-over/underflowing range; plus a subnormal angle for the single conversions)");
    add!("convert-f32", "f32", f32c::convert, 10000, 1_000_000, 24, &[("small", 100), ("large", 100), ("near-max", 50)], "every generated magnitude (log-uniform over the non-over/underflowing range; plus a subnormal angle for the single conversions)");
    add!("trig-f64", "f64", f64c::trig, 10000, 1_000_000, 12, &[("regular", 300), ("named-angle", 100)], "|x| > 1e-3 rad");
    add!("trig-f32", "f32", f32c::trig, 10000, 1_000_000, 12, &[("regular", 300), ("named-angle", 100)], "|x| > 1e-3 rad");
    add!("inverse-f64", "f64", f64c::inverse, 8000, 500_000, 24, &[("rad", 200), ("deg", 200)], "every generated ratio / quadrant");
    add!("inverse-f32", "f32", f32c::inverse, 8000, 500_000, 24, &[("rad", 200), ("deg", 200)], "every generated ratio / quadrant");
    add!("arithmetic-f64", "f64", f64c::arithmetic, 6000, 400_000, 8, &[], "a and b non-zero (raw bit patterns)");
    add!("arithmetic-f32", "f32", f32c::arithmetic, 6000, 400_000, 8, &[], "a and b non-zero (raw bit patterns)");
    add!("bisect-f64", "f64", f64c::bisect, 8000, 500_000, 16, &[("opposite-pair", 100), ("near-pair", 100), ("generic-pair", 150), ("equal-pair", 100), ("equal-pair-top-binade", 50)], "every generated pair");
    add!("bisect-f32", "f32", f32c::bisect, 8000, 500_000, 16, &[("opposite-pair", 100), ("near-pair", 100), ("generic-pair", 150), ("equal-pair", 100), ("equal-pair-top-binade", 50)], "every generated pair");
    Property {
        id: "C13",
        title: "Rad and Deg convert, normalise and evaluate trigonometry consistently",
        subchecks: s,
        assumptions: &[
            "finite inputs only; the unit round trip is checked for 1e-30..1e30 (f32) / 1e-290..1e290 (f64), where neither direction over/underflows",
            "the whole-number-of-turns clause is exact in Q (Deg<Q>, Rad<Q> with the rational image of the f64 constant) and toleranced (1e-9 turn f64, 1e-6 turn f32) for |a| <= 1e6 turns in floats",
            "trigonometry oracle: libm in f64 on the radian measure of the exact input value; tolerance 8 eps (|f| + |x f'(x)|); poles avoided by 1e-3",
            "bisect of numerically opposite angles: either bisector accepted",
        ],
        fuzz: true,
    }
}
