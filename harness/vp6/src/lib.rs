pub mod c19;

pub fn all() -> Vec<vcore::engine::Property> {
    vec![c19::property()]
}
