//! C19 — numeric cast of compound values is all-or-nothing and component-faithful.

use vcore::traits::{sig, Sig};
use vcore::engine::*;
use vcore::ensure;
use cgmath::{Matrix2, Matrix3, Matrix4, Point1, Point2, Point3, Quaternion, Vector1, Vector2, Vector3, Vector4};
use num_traits::NumCast;
use std::fmt::Debug;

pub trait P19: Copy + Debug + PartialEq + NumCast + Sig + 'static {
    const NAME: &'static str;
    /// value from the edge set (extremes, powers of two and their neighbours, non-finite) or random bits
    fn edge(d: &mut Draw) -> Self;
    /// small value that converts to every primitive type
    fn safe(d: &mut Draw) -> Self;
    /// a value at or next to 1 (`one`) or 0: compound values that *look like* an identity / zero / unit value
    fn near01(d: &mut Draw, one: bool) -> Self;
}
macro_rules! p19_int {
    ($T:ty, $U:ty, $bits:expr, $signed:expr) => {
        impl P19 for $T {
            const NAME: &'static str = stringify!($T);
            fn edge(d: &mut Draw) -> $T {
                let k = d.int(0, $bits - 1) as u32;
                let p: $U = (1 as $U) << k;
                let v: $T = match d.int(0, 9) {
                    0 => <$T>::MIN,
                    1 => <$T>::MAX,
                    2 => 0,
                    3 => 1,
                    4 => p as $T,
                    5 => p.wrapping_sub(1) as $T,
                    6 => p.wrapping_add(1) as $T,
                    7 => <$T>::MAX - (d.int(0, 3) as $T),
                    8 => if $bits == 64 {
                        // next to a rounding midpoint of the float targets: m*2^sh + 2^(sh-1) + j.
                        // f32 keeps 24 bits, f64 53: a conversion that rounds twice is off by one ulp here
                        let (mant_bits, sh) = if d.bool() { (24u32, d.int(30, 39) as u32) } else { (53u32, d.int(2, 10) as u32) };
                        let m: u64 = (1u64 << (mant_bits - 1)) | (d.bits64() >> (65 - mant_bits));
                        let j = d.pick(&[-2i64, -1, 0, 1, 2, 3]);
                        let v = (m << sh).wrapping_add(1u64 << (sh - 1)).wrapping_add(j as u64);
                        (v >> 1) as $U as $T
                    } else {
                        <$T>::MIN + (d.int(0, 3) as $T)
                    },
                    _ => (d.bits64() as $U) as $T,
                };
                if $signed && d.bool() { v.wrapping_neg() } else { v }
            }
            fn safe(d: &mut Draw) -> $T { d.int(0, 100) as $T }
            fn near01(_d: &mut Draw, one: bool) -> $T { if one { 1 } else { 0 } }
        }
    };
}
p19_int!(u8, u8, 8, false);
p19_int!(u16, u16, 16, false);
p19_int!(u32, u32, 32, false);
p19_int!(u64, u64, 64, false);
p19_int!(usize, usize, 64, false);
p19_int!(i8, u8, 8, true);
p19_int!(i16, u16, 16, true);
p19_int!(i32, u32, 32, true);
p19_int!(i64, u64, 64, true);
p19_int!(isize, usize, 64, true);
macro_rules! p19_float {
    ($T:ident, $bits:ident, $maxexp:expr) => {
        impl P19 for $T {
            const NAME: &'static str = stringify!($T);
            fn edge(d: &mut Draw) -> $T {
                let k = d.int(0, $maxexp) as i32;
                let p = (2.0 as $T).powi(k);
                let v: $T = match d.int(0, 13) {
                    0 => $T::NAN,
                    1 => $T::INFINITY,
                    2 => 0.0,
                    3 => $T::MAX,
                    4 => $T::MIN_POSITIVE,
                    5 => p,
                    6 => p - 1.0,
                    7 => p + 1.0,
                    8 => p - 0.5,
                    9 => p + 0.5,
                    10 => p * (1.0 - $T::EPSILON),
                    11 => p * (1.0 + $T::EPSILON),
                    12 => d.pick(&[0.5, 0.99, 1.5, 255.0, 255.5, 256.0, 127.5, 128.0, 65535.5, 32767.5, 0.25]),
                    _ => $T::from_bits(d.$bits()),
                };
                if d.bool() { -v } else { v }
            }
            fn safe(d: &mut Draw) -> $T { d.int(0, 100) as $T }
            fn near01(d: &mut Draw, one: bool) -> $T {
                let delta: $T = d.pick(&[0.0, 0.0, 1e-20, 1e-9, 1e-7, 4e-7, 9e-7, 1e-6, 3e-6, -1e-20, -1e-7, -5e-7, -9e-7, $T::EPSILON, -$T::EPSILON]);
                if one { 1.0 + delta } else { delta }
            }
        }
    };
}
p19_float!(f32, bits32, 127);
p19_float!(f64, bits64, 200);

/// one compound type: cast must be None iff some component fails, else the per-component casts
macro_rules! one_type {
    ($d:expr, $S:ty, $T:ty, $C:ident, $n:expr, $build:expr, $read:expr) => {{
        const N: usize = $n;
        let name = stringify!($C);
        // three shapes: all from the edge set; safe values with one edge value; safe only
        let shape = $d.int(0, 5);
        let pos = $d.below(N);
        // shape 5: the sparsity patterns of the library's own constructors (perspective / frustum, orthographic and affine,
        // view matrices, 2-D homogeneous transforms): exact zeros, exact +-1 where the constructor puts them, values elsewhere
        let pattern: &[u8] = match (N, $d.below(3)) {
            (16, 0) => b"v0000v00eev-00v0",
            (16, 1) => b"v0000v0000v0vvv1",
            (16, _) => b"vvv0vvv0vvv0vvv1",
            (9, 0) => b"vv0vv0vv1",
            (9, _) => b"v000v0ee1",
            (4, _) => b"v00v",
            _ => b"",
        };
        // side length when the components form a square (matrices; Vector4/Quaternion read as 2 x 2)
        let side = match N { 4 => 2, 9 => 3, 16 => 4, _ => 0 };
        let comps: Vec<$S> = (0..N)
            .map(|i| match shape {
                0 => <$S as P19>::edge($d),
                1 | 2 => if i == pos { <$S as P19>::edge($d) } else { <$S as P19>::safe($d) },
                // every component at or next to 0/1, in the pattern of an identity matrix where there is one
                4 => <$S as P19>::near01($d, if side > 0 { i / side == i % side } else { i == pos }),
                5 if pattern.len() == N => match pattern[i] {
                    b'0' => <$S as NumCast>::from(0u8).unwrap(),
                    b'1' => <$S as NumCast>::from(1u8).unwrap(),
                    b'-' => <$S as NumCast>::from(-1i8).unwrap_or_else(|| <$S as NumCast>::from(1u8).unwrap()),
                    b'e' => if $d.bool() { <$S as P19>::edge($d) } else { <$S as P19>::safe($d) },
                    _ => <$S as P19>::safe($d),
                },
                _ => <$S as P19>::safe($d),
            })
            .collect();
        let want: Vec<Option<$T>> = comps.iter().map(|c| <$T as NumCast>::from(*c)).collect();
        let src: $C<$S> = $build(&comps);
        let got: Option<$C<$T>> = src.cast::<$T>();
        let any_fail = want.iter().any(|w| w.is_none());
        if $d.recording() {
            $d.note(name, &comps);
        }
        match got {
            None => {
                ensure!(any_fail, "none-but-all-castable", "{}<{}>::cast::<{}>() is None although every component converts: {:?}", name, <$S as P19>::NAME, <$T as P19>::NAME, comps);
            }
            Some(g) => {
                ensure!(!any_fail, "some-but-component-fails", "{}<{}>::cast::<{}>() is Some({:?}) although a component does not convert: {:?}", name, <$S as P19>::NAME, <$T as P19>::NAME, g, comps);
                let gc: Vec<$T> = $read(&g);
                for i in 0..N {
                    let w = want[i].unwrap();
                    ensure!(sig(&gc[i]) == sig(&w), "component-not-faithful", "{}<{}>::cast::<{}>(): component {} is {:?}, scalar cast of {:?} gives {:?}", name, <$S as P19>::NAME, <$T as P19>::NAME, i, gc[i], comps[i], w);
                }
            }
        }
        $d.configs += 1;
        (any_fail, shape)
    }};
}

fn cast_pair<S: P19, T: P19>(d: &mut Draw) -> Outcome {
    let mut fails = 0;
    let mut oks = 0;
    macro_rules! tally {
        ($e:expr) => {{
            let (f, _) = $e;
            if f { fails += 1 } else { oks += 1 }
        }};
    }
    tally!(one_type!(d, S, T, Vector1, 1, |c: &[S]| Vector1::new(c[0]), |g: &Vector1<T>| vec![g.x]));
    tally!(one_type!(d, S, T, Vector2, 2, |c: &[S]| Vector2::new(c[0], c[1]), |g: &Vector2<T>| vec![g.x, g.y]));
    tally!(one_type!(d, S, T, Vector3, 3, |c: &[S]| Vector3::new(c[0], c[1], c[2]), |g: &Vector3<T>| vec![g.x, g.y, g.z]));
    tally!(one_type!(d, S, T, Vector4, 4, |c: &[S]| Vector4::new(c[0], c[1], c[2], c[3]), |g: &Vector4<T>| vec![g.x, g.y, g.z, g.w]));
    tally!(one_type!(d, S, T, Point1, 1, |c: &[S]| Point1::new(c[0]), |g: &Point1<T>| vec![g.x]));
    tally!(one_type!(d, S, T, Point2, 2, |c: &[S]| Point2::new(c[0], c[1]), |g: &Point2<T>| vec![g.x, g.y]));
    tally!(one_type!(d, S, T, Point3, 3, |c: &[S]| Point3::new(c[0], c[1], c[2]), |g: &Point3<T>| vec![g.x, g.y, g.z]));
    tally!(one_type!(d, S, T, Matrix2, 4, |c: &[S]| Matrix2::new(c[0], c[1], c[2], c[3]), |g: &Matrix2<T>| vec![g.x.x, g.x.y, g.y.x, g.y.y]));
    tally!(one_type!(d, S, T, Matrix3, 9, |c: &[S]| Matrix3::new(c[0], c[1], c[2], c[3], c[4], c[5], c[6], c[7], c[8]),
        |g: &Matrix3<T>| vec![g.x.x, g.x.y, g.x.z, g.y.x, g.y.y, g.y.z, g.z.x, g.z.y, g.z.z]));
    tally!(one_type!(d, S, T, Matrix4, 16,
        |c: &[S]| Matrix4::new(c[0], c[1], c[2], c[3], c[4], c[5], c[6], c[7], c[8], c[9], c[10], c[11], c[12], c[13], c[14], c[15]),
        |g: &Matrix4<T>| vec![g.x.x, g.x.y, g.x.z, g.x.w, g.y.x, g.y.y, g.y.z, g.y.w, g.z.x, g.z.y, g.z.z, g.z.w, g.w.x, g.w.y, g.w.z, g.w.w]));
    pass(if fails > 0 && oks > 0 { "some-and-none" } else if fails > 0 { "none-only" } else { "some-only" }, true)
}

fn quat_pair<S: P19, T: P19 + cgmath::BaseFloat>(d: &mut Draw) -> Outcome {
    // order of `new`: scalar first; components listed as [s, x, y, z]
    let (f, _) = one_type!(d, S, T, Quaternion, 4, |c: &[S]| Quaternion::new(c[0], c[1], c[2], c[3]), |g: &Quaternion<T>| vec![g.s, g.v.x, g.v.y, g.v.z]);
    pass(if f { "none" } else { "some" }, true)
}

/// Quaternion::cast only takes float targets, and no primitive conversion into f32/f64 ever fails, so
/// with primitives its None side is unreachable. The exact scalar Q is a BaseFloat whose NumCast
/// fails on NaN and infinities: through it the "None iff a component fails" direction is reached,
/// for the scalar part and for each vector component separately.
fn quat_to_exact<S: P19 + num_traits::Float + std::fmt::Debug>(d: &mut Draw) -> Outcome {
    use vcore::q::Q;
    let vals: [f64; 10] = [f64::NAN, f64::INFINITY, f64::NEG_INFINITY, 0.0, 1.0, -2.5, 255.0, 0.25, -1024.0, 3.0];
    let shape = d.int(0, 3);
    let pos = d.below(4);
    let comps: Vec<S> = (0..4)
        .map(|i| {
            let k = if shape == 0 || (shape < 3 && i == pos) { d.below(10) } else { 3 + d.below(7) };
            <S as NumCast>::from(vals[k]).unwrap()
        })
        .collect();
    d.note("Quaternion (s, x, y, z)", &comps);
    let want: Vec<Option<Q>> = comps.iter().map(|c| <Q as NumCast>::from(*c)).collect();
    let src = Quaternion::new(comps[0], comps[1], comps[2], comps[3]);
    let got: Option<Quaternion<Q>> = src.cast::<Q>();
    let any_fail = want.iter().any(|w| w.is_none());
    let vgot: Option<Vector4<Q>> = Vector4::new(comps[0], comps[1], comps[2], comps[3]).cast::<Q>();
    ensure!(vgot.is_none() == any_fail, "vector4-to-exact", "Vector4::cast::<Q>() is {:?} for {:?}", vgot, comps);
    match got {
        None => ensure!(any_fail, "none-but-all-castable", "Quaternion::cast::<Q>() is None although every component converts: {:?}", comps),
        Some(g) => {
            ensure!(!any_fail, "some-but-component-fails", "Quaternion::cast::<Q>() is Some({:?}) although a component does not convert: {:?}", g, comps);
            let gc = [g.s, g.v.x, g.v.y, g.v.z];
            for i in 0..4 {
                ensure!(Some(gc[i]) == want[i], "component-not-faithful", "Quaternion::cast::<Q>(): component {} is {:?}, scalar cast of {:?} gives {:?}", i, gc[i], comps[i], want[i]);
            }
        }
    }
    d.configs += 1;
    let first_fail = want.iter().position(|w| w.is_none());
    pass(match (any_fail, first_fail) { (false, _) => "some", (true, Some(0)) => "none-scalar-part-fails", _ => "none-vector-part-fails" }, true)
}

pub fn property() -> Property {
    let mut s: Vec<SubCheck> = Vec::new();
    const R: &str = "every generated compound value; shapes: all components from the edge set / safe values with one edge component at a drawn position / all safe / all components at or within 1e-6 of 0 and 1 in the pattern of an identity matrix / the sparsity patterns of the library's own constructors (perspective, affine, view, 2-D homogeneous) with exact 0, 1, -1 entries";
    macro_rules! row {
        ($S:ty, $sn:expr) => {
            row!(@t $S, $sn, u8, "u8"); row!(@t $S, $sn, u16, "u16"); row!(@t $S, $sn, u32, "u32"); row!(@t $S, $sn, u64, "u64"); row!(@t $S, $sn, usize, "usize");
            row!(@t $S, $sn, i8, "i8"); row!(@t $S, $sn, i16, "i16"); row!(@t $S, $sn, i32, "i32"); row!(@t $S, $sn, i64, "i64"); row!(@t $S, $sn, isize, "isize");
            row!(@t $S, $sn, f32, "f32"); row!(@t $S, $sn, f64, "f64");
            s.push(SubCheck { name: concat!("quaternion-", $sn, "-to-f32"), scalar: $sn, quick: 300, thorough: 20_000, len: 48, f: quat_pair::<$S, f32>, required: &[], rule: R, exhaustive: false });
            s.push(SubCheck { name: concat!("quaternion-", $sn, "-to-f64"), scalar: $sn, quick: 300, thorough: 20_000, len: 48, f: quat_pair::<$S, f64>, required: &[], rule: R, exhaustive: false });
        };
        (@t $S:ty, $sn:expr, $T:ty, $tn:expr) => {
            s.push(SubCheck { name: concat!("cast-", $sn, "-to-", $tn), scalar: $sn, quick: 300, thorough: 20_000, len: 420, f: cast_pair::<$S, $T>, required: &[], rule: R, exhaustive: false });
        };
    }
    row!(u8, "u8");
    row!(u16, "u16");
    row!(u32, "u32");
    row!(u64, "u64");
    row!(usize, "usize");
    row!(i8, "i8");
    row!(i16, "i16");
    row!(i32, "i32");
    row!(i64, "i64");
    row!(isize, "isize");
    row!(f32, "f32");
    row!(f64, "f64");
    const RQ: &[(&str, u32)] = &[("some", 100), ("none-scalar-part-fails", 50), ("none-vector-part-fails", 100)];
    s.push(SubCheck { name: "quaternion-f64-to-Q", scalar: "f64", quick: 1000, thorough: 50_000, len: 24, f: quat_to_exact::<f64>, required: RQ, rule: R, exhaustive: false });
    s.push(SubCheck { name: "quaternion-f32-to-Q", scalar: "f32", quick: 1000, thorough: 50_000, len: 24, f: quat_to_exact::<f32>, required: RQ, rule: R, exhaustive: false });
    Property {
        id: "C19",
        title: "Numeric cast of compound values is all-or-nothing and component-faithful",
        subchecks: s,
        assumptions: &[
            "num_traits' scalar NumCast is the trusted base: the oracle converts each component with it and compares bit for bit (all NaNs identified)",
            "all 12 x 12 source/target pairs for Vector1-4, Point1-3, Matrix2-4 and 12 x 2 (float targets) for Quaternion are instantiated; the failing component's position is drawn, covering every position over the run",
            "edge sets: MIN, MAX, 0, +-1, 2^k, 2^k+-1, MAX-j, MIN+j, raw bits (integers); NaN, +-inf, +-0, 2^k, 2^k+-1, 2^k+-0.5, 2^k(1+-eps), MAX, MIN_POSITIVE, x.5 values at the integer range ends, raw bits (floats)",
        ],
        fuzz: true,
    }
}
