pub mod engine;
pub mod gen;
pub mod props;
pub mod q;
pub mod refs;
pub mod runner;
