use crate::engine::Property;

macro_rules! props {
    ($($m:ident),* $(,)?) => {
        $(pub mod $m;)*
        pub fn all() -> Vec<Property> {
            vec![$($m::property()),*]
        }
    };
}

props!(c01, c02, c03, c04, c05, c06, c07, c08, c09, c10, c11, c12, c13, c14, c15, c16, c17, c18, c19, c20);

pub fn by_id(id: &str) -> Option<Property> {
    all().into_iter().find(|p| p.id == id)
}
