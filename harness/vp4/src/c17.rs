//! C17 — every spelling of an operator computes the same value.

use vcore::engine::*;
use vcore::gen::{f_unit_quat, Sc};
use vcore::q::Q;
use vcore::refs::mk_q;
use vcore::{ensure, ensure_eq};
use cgmath::prelude::*;
use cgmath::{Basis2, Basis3, BaseFloat, BaseNum, Deg, Matrix2, Matrix3, Matrix4, Point1, Point2, Point3, Quaternion, Rad};
use cgmath::{Rotation2, Vector1, Vector2, Vector3, Vector4};
use std::fmt::Debug;
use vcore::traits::{sig, Sig};

// ---- primitive scalar generators -----------------------------------------------------------------------

pub trait Prim: Copy + Debug + PartialEq + Sig + 'static {
    const NAME: &'static str;
    /// operand for + - * (safe range for integers, raw bit patterns for floats)
    fn g(d: &mut Draw) -> Self;
    /// non-zero divisor / modulus
    fn g_nz(d: &mut Draw) -> Self;
}
macro_rules! prim_uint {
    ($T:ty, $lim:expr) => {
        impl Prim for $T {
            const NAME: &'static str = stringify!($T);
            fn g(d: &mut Draw) -> $T { d.int(0, $lim) as $T }
            fn g_nz(d: &mut Draw) -> $T { d.int(1, $lim) as $T }
        }
    };
}
macro_rules! prim_sint {
    ($T:ty, $lim:expr) => {
        impl Prim for $T {
            const NAME: &'static str = stringify!($T);
            fn g(d: &mut Draw) -> $T { d.int(-$lim, $lim) as $T }
            fn g_nz(d: &mut Draw) -> $T { d.nz_int(-$lim, $lim) as $T }
        }
    };
}
prim_uint!(u8, 15);
prim_uint!(u16, 250);
prim_uint!(u32, 60_000);
prim_uint!(u64, 1_000_000);
prim_uint!(usize, 1_000_000);
prim_sint!(i8, 11);
prim_sint!(i16, 180);
prim_sint!(i32, 40_000);
prim_sint!(i64, 1_000_000);
prim_sint!(isize, 1_000_000);
impl Prim for f32 {
    const NAME: &'static str = "f32";
    fn g(d: &mut Draw) -> f32 {
        match d.int(0, 3) {
            0 => f32::from_bits(d.bits32()),
            1 => d.pick(&[0.0f32, -0.0, 1.0, -1.0, f32::INFINITY, f32::NEG_INFINITY, f32::MIN_POSITIVE, 1.0e-45, f32::MAX, 0.5, 3.0]),
            _ => d.f64_slog(1e-3, 1e3) as f32,
        }
    }
    fn g_nz(d: &mut Draw) -> f32 {
        let v = Self::g(d);
        if v == 0.0 {
            1.5
        } else {
            v
        }
    }
}
impl Prim for f64 {
    const NAME: &'static str = "f64";
    fn g(d: &mut Draw) -> f64 {
        match d.int(0, 3) {
            0 => f64::from_bits(d.bits64()),
            1 => d.pick(&[0.0f64, -0.0, 1.0, -1.0, f64::INFINITY, f64::NEG_INFINITY, f64::MIN_POSITIVE, 5.0e-324, f64::MAX, 0.5, 3.0]),
            _ => d.f64_slog(1e-3, 1e3),
        }
    }
    fn g_nz(d: &mut Draw) -> f64 {
        let v = Self::g(d);
        if v == 0.0 {
            1.5
        } else {
            v
        }
    }
}

macro_rules! same {
    ($base:expr, $other:expr, $sig:expr, $($what:tt)+) => {{
        let (b, o) = (&$base, &$other);
        if sig(b) != sig(o) {
            return Outcome::Fail { sig: $sig, msg: format!("{}: {:?} differs from the by-value result {:?}", format!($($what)+), o, b) };
        }
    }};
}
/// a op b in all four operand forms
macro_rules! forms4 {
    ($a:expr, $b:expr, $op:tt, $sig:expr, $what:expr) => {{
        let (a, b) = ($a, $b);
        let r = a $op b;
        same!(r, a $op &b, $sig, "{} (value, reference)", $what);
        same!(r, &a $op b, $sig, "{} (reference, value)", $what);
        same!(r, &a $op &b, $sig, "{} (reference, reference)", $what);
        r
    }};
}
/// a op s with the left side by value and by reference
macro_rules! forms2 {
    ($a:expr, $s:expr, $op:tt, $sig:expr, $what:expr) => {{
        let (a, s) = ($a, $s);
        let r = a $op s;
        same!(r, &a $op s, $sig, "{} (reference, scalar)", $what);
        r
    }};
}
macro_rules! assign {
    ($a:expr, $b:expr, $aop:tt, $want:expr, $sig:expr, $what:expr) => {{
        let mut t = $a;
        t $aop $b;
        same!($want, t, $sig, "{} (compound assignment)", $what);
    }};
}

// ---- vectors and points over every primitive -----------------------------------------------------------

macro_rules! vec_forms {
    ($fname:ident, $V:ident, $P:ident, [$($f:ident),+]) => {
        fn $fname<S: Prim + BaseNum>(d: &mut Draw) -> Outcome {
            let a = $V { $($f: S::g(d)),+ };
            let b = $V { $($f: S::g(d)),+ };
            let nz = $V { $($f: S::g_nz(d)),+ };
            let s = S::g(d);
            let k = S::g_nz(d);
            if d.recording() {
                d.note(concat!(stringify!($V), " a"), &a);
                d.note("b", &b);
                d.note("s, k", &(s, k));
            }
            let r = forms4!(a, b, +, "vector-add-forms", concat!(stringify!($V), " + ", stringify!($V)));
            assign!(a, b, +=, r, "vector-add_assign", concat!(stringify!($V), " += "));
            same!($V { $($f: a.$f + b.$f),+ }, r, "vector-add-value", "a + b per component");
            // keep unsigned subtraction in range: (a + b) - b
            let ab = a + b;
            let r = forms4!(ab, b, -, "vector-sub-forms", concat!(stringify!($V), " - ", stringify!($V)));
            assign!(ab, b, -=, r, "vector-sub_assign", concat!(stringify!($V), " -= "));
            same!($V { $($f: ab.$f - b.$f),+ }, r, "vector-sub-value", "a - b per component");
            let r = forms2!(a, s, *, "vector-mul-forms", concat!(stringify!($V), " * scalar"));
            assign!(a, s, *=, r, "vector-mul_assign", concat!(stringify!($V), " *= "));
            same!($V { $($f: a.$f * s),+ }, r, "vector-mul-value", "a * s per component");
            let r = forms2!(a, k, /, "vector-div-forms", concat!(stringify!($V), " / scalar"));
            assign!(a, k, /=, r, "vector-div_assign", concat!(stringify!($V), " /= "));
            same!($V { $($f: a.$f / k),+ }, r, "vector-div-value", "a / k per component");
            let r = forms2!(a, k, %, "vector-rem-forms", concat!(stringify!($V), " % scalar"));
            assign!(a, k, %=, r, "vector-rem_assign", concat!(stringify!($V), " %= "));
            same!($V { $($f: a.$f % k),+ }, r, "vector-rem-value", "a % k per component");
            // scalar on the left (the `$V<S>: ...` impls exist per primitive; checked in scalar_left below)
            let _ = nz;
            // points
            let p = $P { $($f: S::g(d)),+ };
            let r = forms4!(p, b, +, "point-add-forms", concat!(stringify!($P), " + ", stringify!($V)));
            assign!(p, b, +=, r, "point-add_assign", concat!(stringify!($P), " += "));
            same!($P { $($f: p.$f + b.$f),+ }, r, "point-add-value", "p + v per component");
            let pb = p + b;
            let r = forms4!(pb, b, -, "point-sub-vector-forms", concat!(stringify!($P), " - ", stringify!($V)));
            assign!(pb, b, -=, r, "point-sub_assign", concat!(stringify!($P), " -= "));
            same!($P { $($f: pb.$f - b.$f),+ }, r, "point-sub-vector-value", "p - v per component");
            let r = forms4!(pb, p, -, "point-sub-point-forms", concat!(stringify!($P), " - ", stringify!($P)));
            same!($V { $($f: pb.$f - p.$f),+ }, r, "point-sub-point-value", "q - p per component");
            let r = forms2!(p, s, *, "point-mul-forms", concat!(stringify!($P), " * scalar"));
            assign!(p, s, *=, r, "point-mul_assign", concat!(stringify!($P), " *= "));
            same!($P { $($f: p.$f * s),+ }, r, "point-mul-value", "p * s per component");
            let r = forms2!(p, k, /, "point-div-forms", concat!(stringify!($P), " / scalar"));
            assign!(p, k, /=, r, "point-div_assign", concat!(stringify!($P), " /= "));
            same!($P { $($f: p.$f / k),+ }, r, "point-div-value", "p / k per component");
            let r = forms2!(p, k, %, "point-rem-forms", concat!(stringify!($P), " % scalar"));
            assign!(p, k, %=, r, "point-rem_assign", concat!(stringify!($P), " %= "));
            same!($P { $($f: p.$f % k),+ }, r, "point-rem-value", "p % k per component");
            // Sum over values and references equals the left fold from zero()
            let len = d.int(0, 8) as usize;
            let list: Vec<$V<S>> = (0..len).map(|_| $V { $($f: S::g(d)),+ }).collect();
            let mut fold = $V::<S>::zero();
            for v in &list { fold = fold + *v; }
            let sv: $V<S> = list.iter().cloned().sum();
            let sr: $V<S> = list.iter().sum();
            same!(fold, sv, "vector-sum-values", "Sum over values ({} items)", len);
            same!(fold, sr, "vector-sum-refs", "Sum over references ({} items)", len);
            pass("ok", true)
        }
    };
}
vec_forms!(forms_dim1, Vector1, Point1, [x]);
vec_forms!(forms_dim2, Vector2, Point2, [x, y]);
vec_forms!(forms_dim3, Vector3, Point3, [x, y, z]);

fn forms_vec4<S: Prim + BaseNum>(d: &mut Draw) -> Outcome {
    let g = |d: &mut Draw| Vector4 { x: S::g(d), y: S::g(d), z: S::g(d), w: S::g(d) };
    let (a, b) = (g(d), g(d));
    let (s, k) = (S::g(d), S::g_nz(d));
    let r = forms4!(a, b, +, "vector-add-forms", "Vector4 + Vector4");
    assign!(a, b, +=, r, "vector-add_assign", "Vector4 +=");
    let ab = a + b;
    let r = forms4!(ab, b, -, "vector-sub-forms", "Vector4 - Vector4");
    assign!(ab, b, -=, r, "vector-sub_assign", "Vector4 -=");
    let r = forms2!(a, s, *, "vector-mul-forms", "Vector4 * scalar");
    assign!(a, s, *=, r, "vector-mul_assign", "Vector4 *=");
    let r = forms2!(a, k, /, "vector-div-forms", "Vector4 / scalar");
    assign!(a, k, /=, r, "vector-div_assign", "Vector4 /=");
    same!(Vector4 { x: a.x / k, y: a.y / k, z: a.z / k, w: a.w / k }, r, "vector-div-value", "Vector4 / k per component");
    let r = forms2!(a, k, %, "vector-rem-forms", "Vector4 % scalar");
    assign!(a, k, %=, r, "vector-rem_assign", "Vector4 %=");
    same!(Vector4 { x: a.x % k, y: a.y % k, z: a.z % k, w: a.w % k }, r, "vector-rem-value", "Vector4 % k per component");
    same!(Vector4 { x: a.x * s, y: a.y * s, z: a.z * s, w: a.w * s }, a * s, "vector-mul-value", "Vector4 * s per component");
    same!(Vector4 { x: a.x + b.x, y: a.y + b.y, z: a.z + b.z, w: a.w + b.w }, a + b, "vector-add-value", "Vector4 + Vector4 per component");
    let len = d.int(0, 8) as usize;
    let list: Vec<Vector4<S>> = (0..len).map(|_| g(d)).collect();
    let mut fold = Vector4::<S>::zero();
    for v in &list {
        fold = fold + *v;
    }
    let sv: Vector4<S> = list.iter().cloned().sum();
    let sr: Vector4<S> = list.iter().sum();
    same!(fold, sv, "vector-sum-values", "Sum over values");
    same!(fold, sr, "vector-sum-refs", "Sum over references");
    pass("ok", true)
}

fn forms_all_dims<S: Prim + BaseNum>(d: &mut Draw) -> Outcome {
    for f in [forms_dim1::<S>, forms_dim2::<S>, forms_dim3::<S>, forms_vec4::<S>] {
        match f(d) {
            Outcome::Pass { .. } => {}
            o => return o,
        }
    }
    pass(S::NAME, true)
}

// ---- scalar on the left, all twelve primitives x ten compound types -----------------------------------------

macro_rules! scalar_left_one {
    ($d:expr, $S:ty, $T:ident, [$($f:ident),+], $inner:expr) => {{
        let s: $S = <$S as Prim>::g($d);
        let k: $S = <$S as Prim>::g($d);
        let x = $T { $($f: $inner($d, false)),+ };
        let nz = $T { $($f: $inner($d, true)),+ };
        let r = s * x;
        same!($T { $($f: s * x.$f),+ }, r, "scalar-left-mul", "{} * {}: scalar as left operand per component", stringify!($S), stringify!($T));
        same!(r, s * &x, "scalar-left-mul-ref", "{} * &{}", stringify!($S), stringify!($T));
        let r = k / nz;
        same!($T { $($f: k / nz.$f),+ }, r, "scalar-left-div", "{} / {}: scalar as left operand per component", stringify!($S), stringify!($T));
        same!(r, k / &nz, "scalar-left-div-ref", "{} / &{}", stringify!($S), stringify!($T));
        let r = k % nz;
        same!($T { $($f: k % nz.$f),+ }, r, "scalar-left-rem", "{} % {}: scalar as left operand per component", stringify!($S), stringify!($T));
        same!(r, k % &nz, "scalar-left-rem-ref", "{} % &{}", stringify!($S), stringify!($T));
    }};
}
macro_rules! scalar_left {
    ($fname:ident, $S:ty) => {
        fn $fname(d: &mut Draw) -> Outcome {
            let sc = |d: &mut Draw, nz: bool| -> $S { if nz { <$S as Prim>::g_nz(d) } else { <$S as Prim>::g(d) } };
            scalar_left_one!(d, $S, Vector1, [x], sc);
            scalar_left_one!(d, $S, Vector2, [x, y], sc);
            scalar_left_one!(d, $S, Vector3, [x, y, z], sc);
            scalar_left_one!(d, $S, Vector4, [x, y, z, w], sc);
            scalar_left_one!(d, $S, Point1, [x], sc);
            scalar_left_one!(d, $S, Point2, [x, y], sc);
            scalar_left_one!(d, $S, Point3, [x, y, z], sc);
            let c2 = |d: &mut Draw, nz: bool| Vector2 { x: sc(d, nz), y: sc(d, nz) };
            let c3 = |d: &mut Draw, nz: bool| Vector3 { x: sc(d, nz), y: sc(d, nz), z: sc(d, nz) };
            let c4 = |d: &mut Draw, nz: bool| Vector4 { x: sc(d, nz), y: sc(d, nz), z: sc(d, nz), w: sc(d, nz) };
            scalar_left_one!(d, $S, Matrix2, [x, y], c2);
            scalar_left_one!(d, $S, Matrix3, [x, y, z], c3);
            scalar_left_one!(d, $S, Matrix4, [x, y, z, w], c4);
            pass(stringify!($S), true)
        }
    };
}
scalar_left!(sl_u8, u8);
scalar_left!(sl_u16, u16);
scalar_left!(sl_u32, u32);
scalar_left!(sl_u64, u64);
scalar_left!(sl_usize, usize);
scalar_left!(sl_i8, i8);
scalar_left!(sl_i16, i16);
scalar_left!(sl_i32, i32);
scalar_left!(sl_i64, i64);
scalar_left!(sl_isize, isize);
scalar_left!(sl_f32, f32);
scalar_left!(sl_f64, f64);


// ---- integers over their whole range: the outcome (value, or the overflow / division panic of this build) of every
// ---- compound operator must be the outcome of the primitive operator applied per component ------------------------

/// outcome of a computation that may panic: the value's signature, or None
fn outcome<R: Sig>(f: impl FnOnce() -> R) -> Option<Vec<u64>> {
    catches(f).ok().map(|r| sig(&r))
}
macro_rules! same_outcome {
    ($prim:expr, $comp:expr, $sig:expr, $($what:tt)+) => {{
        let e = outcome(|| $prim);
        let g = outcome(|| $comp);
        if e != g {
            return Outcome::Fail { sig: $sig, msg: format!("{}: compound operator gives {:?}, the primitive operator per component gives {:?} (None = panic)", format!($($what)+), g, e) };
        }
        e.is_none()
    }};
}
macro_rules! wide_one {
    ($d:ident, $w:ident, $S:ty, $panics:ident, $total:ident, $T:ident, $P:ident, [$($f:ident),+]) => {{
        let d = &mut *$d;
        let w = &$w;
        macro_rules! t {
            ($e:expr) => {{
                $total += 1;
                if $e { $panics += 1; }
            }};
        }
                    let x = $T { $($f: w(d)),+ };
                    let y = $T { $($f: w(d)),+ };
                    let p = $P { $($f: w(d)),+ };
                    let q = $P { $($f: w(d)),+ };
                    let k = w(d);
                    let n = stringify!($T);
                    t!(same_outcome!($T { $($f: x.$f + y.$f),+ }, x + y, "overflow-add", "{}<{}> + ", n, stringify!($S)));
                    t!(same_outcome!($T { $($f: x.$f + y.$f),+ }, &x + &y, "overflow-add", "&{}<{}> + &", n, stringify!($S)));
                    t!(same_outcome!($T { $($f: x.$f - y.$f),+ }, x - y, "overflow-sub", "{}<{}> - ", n, stringify!($S)));
                    t!(same_outcome!($T { $($f: x.$f * k),+ }, x * k, "overflow-mul-scalar", "{}<{}> * scalar", n, stringify!($S)));
                    t!(same_outcome!($T { $($f: x.$f / k),+ }, x / k, "overflow-div-scalar", "{}<{}> / scalar", n, stringify!($S)));
                    t!(same_outcome!($T { $($f: x.$f % k),+ }, x % k, "overflow-rem-scalar", "{}<{}> % scalar", n, stringify!($S)));
                    t!(same_outcome!($T { $($f: k * x.$f),+ }, k * x, "overflow-scalar-left-mul", "{} * {}", stringify!($S), n));
                    t!(same_outcome!($T { $($f: k * x.$f),+ }, k * &x, "overflow-scalar-left-mul", "{} * &{}", stringify!($S), n));
                    t!(same_outcome!($T { $($f: k / x.$f),+ }, k / x, "overflow-scalar-left-div", "{} / {}", stringify!($S), n));
                    t!(same_outcome!($T { $($f: k % x.$f),+ }, k % x, "overflow-scalar-left-rem", "{} % {}", stringify!($S), n));
                    t!(same_outcome!($T { $($f: x.$f + y.$f),+ }, { let mut m = x; m += y; m }, "overflow-add_assign", "{}<{}> +=", n, stringify!($S)));
                    t!(same_outcome!($T { $($f: x.$f - y.$f),+ }, { let mut m = x; m -= y; m }, "overflow-sub_assign", "{}<{}> -=", n, stringify!($S)));
                    t!(same_outcome!($T { $($f: x.$f * k),+ }, { let mut m = x; m *= k; m }, "overflow-mul_assign", "{}<{}> *=", n, stringify!($S)));
                    t!(same_outcome!($T { $($f: x.$f / k),+ }, { let mut m = x; m /= k; m }, "overflow-div_assign", "{}<{}> /=", n, stringify!($S)));
                    t!(same_outcome!($T { $($f: x.$f % k),+ }, { let mut m = x; m %= k; m }, "overflow-rem_assign", "{}<{}> %=", n, stringify!($S)));
                    t!(same_outcome!($T { $($f: x.$f * y.$f),+ }, x.mul_element_wise(y), "overflow-mul_element_wise", "{}<{}>::mul_element_wise", n, stringify!($S)));
                    t!(same_outcome!($T { $($f: x.$f + k),+ }, x.add_element_wise(k), "overflow-add_element_wise-scalar", "{}<{}>::add_element_wise(scalar)", n, stringify!($S)));
                    // points
                    let pn = stringify!($P);
                    t!(same_outcome!($P { $($f: p.$f + x.$f),+ }, p + x, "overflow-point-add", "{}<{}> + vector", pn, stringify!($S)));
                    t!(same_outcome!($P { $($f: p.$f - x.$f),+ }, p - x, "overflow-point-sub", "{}<{}> - vector", pn, stringify!($S)));
                    t!(same_outcome!($T { $($f: p.$f - q.$f),+ }, p - q, "overflow-point-diff", "{}<{}> - point", pn, stringify!($S)));
                    t!(same_outcome!($P { $($f: p.$f * k),+ }, p * k, "overflow-point-mul-scalar", "{}<{}> * scalar", pn, stringify!($S)));
                    t!(same_outcome!($P { $($f: k * p.$f),+ }, k * p, "overflow-point-scalar-left-mul", "{} * {}", stringify!($S), pn));
                    t!(same_outcome!($P { $($f: p.$f + x.$f),+ }, { let mut m = p; m += x; m }, "overflow-point-add_assign", "{}<{}> += vector", pn, stringify!($S)));
                    // the remaining scalar forms of points, with the scalar on either side (MIN / -1 and MIN % -1 have no value)
                    t!(same_outcome!($P { $($f: k * p.$f),+ }, k * &p, "overflow-point-scalar-left-mul", "{} * &{}", stringify!($S), pn));
                    t!(same_outcome!($P { $($f: k / p.$f),+ }, k / p, "overflow-point-scalar-left-div", "{} / {}", stringify!($S), pn));
                    t!(same_outcome!($P { $($f: k / p.$f),+ }, k / &p, "overflow-point-scalar-left-div", "{} / &{}", stringify!($S), pn));
                    t!(same_outcome!($P { $($f: k % p.$f),+ }, k % p, "overflow-point-scalar-left-rem", "{} % {}", stringify!($S), pn));
                    t!(same_outcome!($P { $($f: k % p.$f),+ }, k % &p, "overflow-point-scalar-left-rem", "{} % &{}", stringify!($S), pn));
                    t!(same_outcome!($P { $($f: p.$f / k),+ }, p / k, "overflow-point-div-scalar", "{}<{}> / scalar", pn, stringify!($S)));
                    t!(same_outcome!($P { $($f: p.$f % k),+ }, p % k, "overflow-point-rem-scalar", "{}<{}> % scalar", pn, stringify!($S)));
                    t!(same_outcome!($P { $($f: p.$f % k),+ }, &p % k, "overflow-point-rem-scalar", "&{}<{}> % scalar", pn, stringify!($S)));
                    t!(same_outcome!($P { $($f: p.$f / k),+ }, { let mut m = p; m /= k; m }, "overflow-point-div_assign", "{}<{}> /= scalar", pn, stringify!($S)));
                    t!(same_outcome!($P { $($f: p.$f % k),+ }, { let mut m = p; m %= k; m }, "overflow-point-rem_assign", "{}<{}> %= scalar", pn, stringify!($S)));
                    t!(same_outcome!($T { $($f: k % x.$f),+ }, k % &x, "overflow-scalar-left-rem", "{} % &{}", stringify!($S), n));
                    t!(same_outcome!($T { $($f: k / x.$f),+ }, k / &x, "overflow-scalar-left-div", "{} / &{}", stringify!($S), n));
                }};
}
macro_rules! wide_int {
    ($fname:ident, $S:ty, $signed:expr) => {
        fn $fname(d: &mut Draw) -> Outcome {
            let w = |d: &mut Draw| -> $S {
                match d.int(0, 6) {
                    // the range ends of the *narrower* integer types (where a "do it in fewer bits" shortcut would trip), +-1
                    6 => (d.pick(&[-128i128, 127, 128, 255, 256, -32768, 32767, 32768, 65535, 65536, -2147483648, 2147483647, 2147483648, 4294967295, 4294967296]) + d.int(-1, 1) as i128 * (d.int(0, 3) == 0) as i128) as $S,
                    0 => d.bits64() as $S,
                    1 => d.pick(&[<$S>::MIN, <$S>::MAX, <$S>::MIN + 1, <$S>::MAX - 1, 0, 1, 2, <$S>::MAX / 2, <$S>::MAX / 2 + 1]),
                    2 => {
                        // around the square root of MAX: products just inside / just outside the range
                        let r = (<$S>::MAX as f64).sqrt() as i64;
                        (r + d.int(-3, 3)) as $S
                    }
                    3 if $signed => (0 as $S).wrapping_sub(d.int(0, 3) as $S),
                    _ => <$S as Prim>::g(d),
                }
            };
            let mut panics = 0u32;
            let mut total = 0u32;
            macro_rules! t {
                ($e:expr) => {{
                    total += 1;
                    if $e { panics += 1; }
                }};
            }
            wide_one!(d, w, $S, panics, total, Vector1, Point1, [x]);
            wide_one!(d, w, $S, panics, total, Vector2, Point2, [x, y]);
            wide_one!(d, w, $S, panics, total, Vector3, Point3, [x, y, z]);
            {
                // Vector4 has no point type: reuse Point3 for the point clauses
                let x = Vector4 { x: w(d), y: w(d), z: w(d), w: w(d) };
                let y = Vector4 { x: w(d), y: w(d), z: w(d), w: w(d) };
                let k = w(d);
                t!(same_outcome!(Vector4 { x: x.x + y.x, y: x.y + y.y, z: x.z + y.z, w: x.w + y.w }, x + y, "overflow-add", "Vector4<{}> +", stringify!($S)));
                t!(same_outcome!(Vector4 { x: x.x - y.x, y: x.y - y.y, z: x.z - y.z, w: x.w - y.w }, x - y, "overflow-sub", "Vector4<{}> -", stringify!($S)));
                t!(same_outcome!(Vector4 { x: x.x * k, y: x.y * k, z: x.z * k, w: x.w * k }, x * k, "overflow-mul-scalar", "Vector4<{}> * scalar", stringify!($S)));
                t!(same_outcome!(Vector4 { x: k * x.x, y: k * x.y, z: k * x.z, w: k * x.w }, k * x, "overflow-scalar-left-mul", "{} * Vector4", stringify!($S)));
                t!(same_outcome!(Vector4 { x: k / x.x, y: k / x.y, z: k / x.z, w: k / x.w }, k / x, "overflow-scalar-left-div", "{} / Vector4", stringify!($S)));
                t!(same_outcome!(Vector4 { x: x.x * k, y: x.y * k, z: x.z * k, w: x.w * k }, { let mut m = x; m *= k; m }, "overflow-mul_assign", "Vector4<{}> *=", stringify!($S)));
            }
            let cls = if panics == 0 { "no-panic" } else if panics == total { "all-panic" } else { "some-panic" };
            pass(cls, panics > 0 && panics < total)
        }
    };
}
wide_int!(wi_u8, u8, false);
wide_int!(wi_u16, u16, false);
wide_int!(wi_u32, u32, false);
wide_int!(wi_u64, u64, false);
wide_int!(wi_usize, usize, false);
wide_int!(wi_i8, i8, true);
wide_int!(wi_i16, i16, true);
wide_int!(wi_i32, i32, true);
wide_int!(wi_i64, i64, true);
wide_int!(wi_isize, isize, true);


// ---- long lists: Sum and Product are the left fold however many items there are ----------------------------------

macro_rules! long_folds {
    ($fname:ident, $F:ty) => {
        fn $fname(d: &mut Draw) -> Outcome {
            type F = $F;
            // list length: short, around typical block sizes (16, 32, 64, 128, 256), or anywhere up to 600
            let len = match d.int(0, 4) {
                0 => d.int(0, 12),
                1 => d.pick(&[16i64, 32, 64, 128, 256, 512, 1024, 2048]) + d.int(-2, 3),
                2 => d.int(1000, 2600),
                _ => d.int(13, 600),
            } as usize;
            // a few drawn values, repeated cyclically with exact sign / power-of-two changes: sums of wildly different
            // magnitudes, where any regrouping of the additions changes the rounded result
            let nb = d.int(1, 5) as usize;
            let base: Vec<F> = (0..nb * 4)
                .map(|_| match d.int(0, 4) {
                    0 => (2.0 as F).powi(d.int(20, 60) as i32) * if d.bool() { 1.0 } else { -1.0 },
                    1 => 0.0,
                    2 => 1.0,
                    _ => d.f64_slog(1e-3, 1e3) as F,
                })
                .collect();
            // where a non-fused iterator reports its first None (after which it would yield again): the fold ends there
            let cut = if d.bool() { (d.int(0, 5) as usize).min(len) } else { ((d.int(0, (1 << 20) - 1) as usize) * (len + 1)) >> 20 };
            d.note("list length, base values", &(len, base.clone()));
            d.note("position of the first None of the gapped iterators", &cut);
            let el = |j: usize, k: usize| -> F {
                let f: F = [1.0, -1.0, 0.5, 1.0, -0.25, 2.0, 1.0][(j / nb) % 7];
                base[(j % nb) * 4 + k] * f
            };
            macro_rules! sums {
                ($T:ty, $mk:expr, $sig:expr) => {{
                    let list: Vec<$T> = (0..len).map(|j| $mk(j)).collect();
                    let mut fold = <$T>::zero();
                    for x in &list {
                        fold = fold + *x;
                    }
                    let sv: $T = list.iter().cloned().sum();
                    let sr: $T = list.iter().sum();
                    same!(fold, sv, concat!($sig, "-sum-values"), "{} Sum over {} values", stringify!($T), len);
                    same!(fold, sr, concat!($sig, "-sum-refs"), "{} Sum over {} references", stringify!($T), len);
                    // the same items from iterators that do not know their length (size_hint lower bound 0), that only know
                    // an upper bound, or that are chained from two parts
                    let f1: $T = list.iter().cloned().filter(|_| true).sum();
                    let f2: $T = list.iter().filter(|_| true).sum();
                    let mut k = 0usize;
                    let f3: $T = std::iter::from_fn(|| { k += 1; list.get(k - 1).cloned() }).sum();
                    let half = len / 2;
                    let f4: $T = list[..half].iter().chain(list[half..].iter()).sum();
                    let f5: $T = list.iter().cloned().take_while(|_| true).sum();
                    same!(fold, f1, concat!($sig, "-sum-unsized-values"), "{} Sum over a filtered iterator of {} values", stringify!($T), len);
                    same!(fold, f2, concat!($sig, "-sum-unsized-refs"), "{} Sum over a filtered iterator of {} references", stringify!($T), len);
                    same!(fold, f3, concat!($sig, "-sum-from_fn"), "{} Sum over a from_fn iterator of {} values", stringify!($T), len);
                    same!(fold, f4, concat!($sig, "-sum-chained"), "{} Sum over two chained slices of {} references", stringify!($T), len);
                    same!(fold, f5, concat!($sig, "-sum-take_while"), "{} Sum over a take_while iterator of {} values", stringify!($T), len);
                    // iterators that are not fused: None at position `cut`, items again afterwards. The fold - and so the sum -
                    // ends at the first None
                    let mut upto = <$T>::zero();
                    for x in &list[..cut] {
                        upto = upto + *x;
                    }
                    let (mut k, mut gap) = (0usize, false);
                    let g1: $T = std::iter::from_fn(|| { if k == cut && !gap { gap = true; return None; } k += 1; list.get(k - 1).cloned() }).sum();
                    let (mut k, mut gap) = (0usize, false);
                    let g2: $T = std::iter::from_fn(|| { if k == cut && !gap { gap = true; return None; } k += 1; list.get(k - 1) }).sum();
                    let g3: $T = list.iter().scan(0usize, |i, x| { *i += 1; if *i - 1 == cut { None } else { Some(x) } }).sum();
                    same!(upto, g1, concat!($sig, "-sum-gapped-values"), "{} Sum over a non-fused iterator of values whose first None comes after {} of {} items", stringify!($T), cut, len);
                    same!(upto, g2, concat!($sig, "-sum-gapped-refs"), "{} Sum over a non-fused iterator of references whose first None comes after {} of {} items", stringify!($T), cut, len);
                    same!(upto, g3, concat!($sig, "-sum-gapped-scan"), "{} Sum over a scan() iterator whose first None comes after {} of {} items", stringify!($T), cut, len);
                }};
            }
            sums!(Vector1<F>, |j| Vector1::new(el(j, 0)), "long-vector1");
            sums!(Vector2<F>, |j| Vector2::new(el(j, 0), el(j, 1)), "long-vector2");
            sums!(Vector3<F>, |j| Vector3::new(el(j, 0), el(j, 1), el(j, 2)), "long-vector3");
            sums!(Vector4<F>, |j| Vector4::new(el(j, 0), el(j, 1), el(j, 2), el(j, 3)), "long-vector4");
            sums!(Quaternion<F>, |j| Quaternion::new(el(j, 0), el(j, 1), el(j, 2), el(j, 3)), "long-quaternion");
            sums!(Rad<F>, |j| Rad(el(j, 0)), "long-rad");
            sums!(Deg<F>, |j| Deg(el(j, 1)), "long-deg");
            sums!(Matrix2<F>, |j| Matrix2::new(el(j, 0), el(j, 1), el(j, 2), el(j, 3)), "long-matrix2");
            sums!(Matrix3<F>, |j| Matrix3::new(el(j, 0), el(j, 1), el(j, 2), el(j, 3), el(j, 0), el(j, 2), el(j, 1), el(j, 3), el(j, 0)), "long-matrix3");
            sums!(Matrix4<F>, |j| Matrix4::from_cols(Vector4::new(el(j, 0), el(j, 1), el(j, 2), el(j, 3)), Vector4::new(el(j, 3), el(j, 2), el(j, 1), el(j, 0)), Vector4::new(el(j, 1), el(j, 0), el(j, 3), el(j, 2)), Vector4::new(el(j, 2), el(j, 3), el(j, 0), el(j, 1))), "long-matrix4");
            // products of many factors: rotations (so that nothing overflows), by a few drawn angles
            let angs: Vec<F> = (0..nb).map(|_| d.f64_in(-3.0, 3.0) as F).collect();
            macro_rules! prods {
                ($T:ty, $mk:expr, $sig:expr) => {{
                    let list: Vec<$T> = (0..len).map(|j| $mk(j)).collect();
                    let mut fold = <$T>::one();
                    for x in &list {
                        fold = fold * *x;
                    }
                    let pv: $T = list.iter().cloned().product();
                    let pr: $T = list.iter().product();
                    same!(fold, pv, concat!($sig, "-product-values"), "{} Product over {} values", stringify!($T), len);
                    same!(fold, pr, concat!($sig, "-product-refs"), "{} Product over {} references", stringify!($T), len);
                    let f1: $T = list.iter().cloned().filter(|_| true).product();
                    let f2: $T = list.iter().filter(|_| true).product();
                    let mut k = 0usize;
                    let f3: $T = std::iter::from_fn(|| { k += 1; list.get(k - 1).cloned() }).product();
                    let half = len / 2;
                    let f4: $T = list[..half].iter().chain(list[half..].iter()).product();
                    same!(fold, f1, concat!($sig, "-product-unsized-values"), "{} Product over a filtered iterator of {} values", stringify!($T), len);
                    same!(fold, f2, concat!($sig, "-product-unsized-refs"), "{} Product over a filtered iterator of {} references", stringify!($T), len);
                    same!(fold, f3, concat!($sig, "-product-from_fn"), "{} Product over a from_fn iterator of {} values", stringify!($T), len);
                    same!(fold, f4, concat!($sig, "-product-chained"), "{} Product over two chained slices of {} references", stringify!($T), len);
                    let mut upto = <$T>::one();
                    for x in &list[..cut] {
                        upto = upto * *x;
                    }
                    let (mut k, mut gap) = (0usize, false);
                    let g1: $T = std::iter::from_fn(|| { if k == cut && !gap { gap = true; return None; } k += 1; list.get(k - 1).cloned() }).product();
                    let (mut k, mut gap) = (0usize, false);
                    let g2: $T = std::iter::from_fn(|| { if k == cut && !gap { gap = true; return None; } k += 1; list.get(k - 1) }).product();
                    let g3: $T = list.iter().scan(0usize, |i, x| { *i += 1; if *i - 1 == cut { None } else { Some(x) } }).product();
                    same!(upto, g1, concat!($sig, "-product-gapped-values"), "{} Product over a non-fused iterator of values whose first None comes after {} of {} items", stringify!($T), cut, len);
                    same!(upto, g2, concat!($sig, "-product-gapped-refs"), "{} Product over a non-fused iterator of references whose first None comes after {} of {} items", stringify!($T), cut, len);
                    same!(upto, g3, concat!($sig, "-product-gapped-scan"), "{} Product over a scan() iterator whose first None comes after {} of {} items", stringify!($T), cut, len);
                }};
            }
            let ang = |j: usize| Rad(angs[j % nb] * [1.0 as F, -0.5, 0.25][(j / nb) % 3]);
            prods!(Quaternion<F>, |j| match j % 3 { 0 => Quaternion::from_angle_x(ang(j)), 1 => Quaternion::from_angle_y(ang(j)), _ => Quaternion::from_angle_z(ang(j)) }, "long-quaternion");
            prods!(Matrix2<F>, |j| Matrix2::from_angle(ang(j)), "long-matrix2");
            prods!(Matrix3<F>, |j| match j % 3 { 0 => Matrix3::from_angle_x(ang(j)), 1 => Matrix3::from_angle_y(ang(j)), _ => Matrix3::from_angle_z(ang(j)) }, "long-matrix3");
            prods!(Matrix4<F>, |j| match j % 3 { 0 => Matrix4::from_angle_x(ang(j)), 1 => Matrix4::from_angle_y(ang(j)), _ => Matrix4::from_translation(Vector3::new(el(j, 0), 1.0, -2.0) * (1e-3 as F)) }, "long-matrix4");
            prods!(Basis2<F>, |j| Rotation2::from_angle(ang(j)), "long-basis2");
            prods!(Basis3<F>, |j| match j % 3 { 0 => cgmath::Rotation3::from_angle_x(ang(j)), 1 => cgmath::Rotation3::from_angle_y(ang(j)), _ => cgmath::Rotation3::from_angle_z(ang(j)) }, "long-basis3");
            pass(if len <= 12 { "short" } else if len <= 128 { "up-to-128" } else if len < 1000 { "longer-than-128" } else { "longer-than-1000" }, len >= 2)
        }
    };
}
long_folds!(long_folds_f32, f32);
long_folds!(long_folds_f64, f64);

/// integer vectors: the outcome (value, or the overflow panic of this build) of Sum over a long list is that of the left fold
macro_rules! long_int_folds {
    ($fname:ident, $S:ty) => {
        fn $fname(d: &mut Draw) -> Outcome {
            let len = match d.int(0, 3) {
                0 => d.int(0, 12),
                1 => d.pick(&[16i64, 32, 64, 128, 256, 1024]) + d.int(-2, 3),
                2 => d.int(1000, 2600),
                _ => d.int(13, 400),
            } as usize;
            // mostly zeros and small values, a few large ones of either sign: partial sums cross the type's range or not
            // depending on the order in which the additions are done
            let big: Vec<$S> = (0..4).map(|_| (<$S>::MAX / 2 + (d.int(0, 40) as $S)) as $S).collect();
            let pattern: Vec<u8> = (0..16).map(|_| d.int(0, 9) as u8).collect();
            d.note("length, large values, pattern", &(len, big.clone(), pattern.clone()));
            let neg = |x: $S| (0 as $S).wrapping_sub(x);
            let signed = <$S>::MIN != 0;
            let el = |j: usize| -> $S {
                match pattern[j % 16] {
                    0 => big[j % 4],
                    1 if signed => neg(big[(j + 1) % 4]),
                    2 => (j % 7) as $S,
                    3 if signed => neg((j % 5) as $S),
                    _ => 0,
                }
            };
            let list: Vec<Vector2<$S>> = (0..len).map(|j| Vector2::new(el(j), el(j + 3))).collect();
            let l2 = list.clone();
            let want = outcome(move || {
                let mut f = Vector2::<$S>::zero();
                for x in &l2 {
                    f = f + *x;
                }
                f
            });
            let l2 = list.clone();
            let gv = outcome(move || l2.iter().cloned().sum::<Vector2<$S>>());
            let l2 = list.clone();
            let gr = outcome(move || l2.iter().sum::<Vector2<$S>>());
            if gv != want || gr != want {
                return Outcome::Fail { sig: "long-int-sum-outcome", msg: format!("Sum over {} Vector2<{}>: by value {:?}, by reference {:?}, left fold {:?} (None = overflow panic)", len, stringify!($S), gv, gr, want) };
            }
            pass(if want.is_none() { "fold-overflows" } else if len > 128 { "long-no-overflow" } else { "short-no-overflow" }, len >= 2)
        }
    };
}
long_int_folds!(long_int_folds_i8, i8);
long_int_folds!(long_int_folds_i32, i32);
long_int_folds!(long_int_folds_u8, u8);
long_int_folds!(long_int_folds_u64, u64);

// ---- float-only compound types: matrices, quaternions, angles, bases ------------------------------------------

macro_rules! matrix_forms {
    ($d:expr, $F:ty, $M:ident, $V:ident, [$($f:ident),+], $gv:expr) => {{
        let a = $M { $($f: $gv($d)),+ };
        let b = $M { $($f: $gv($d)),+ };
        let v: $V<$F> = $gv($d);
        let (s, k) = (<$F as Prim>::g($d), <$F as Prim>::g_nz($d));
        let name = stringify!($M);
        let r = forms4!(a, b, +, "matrix-add-forms", format!("{} + {}", name, name));
        assign!(a, b, +=, r, "matrix-add_assign", format!("{} +=", name));
        let r = forms4!(a, b, -, "matrix-sub-forms", format!("{} - {}", name, name));
        assign!(a, b, -=, r, "matrix-sub_assign", format!("{} -=", name));
        let _ = forms4!(a, b, *, "matrix-mul-forms", format!("{} * {}", name, name));
        let _ = forms4!(a, v, *, "matrix-mul-vector-forms", format!("{} * vector", name));
        let r = forms2!(a, s, *, "matrix-mul-scalar-forms", format!("{} * scalar", name));
        assign!(a, s, *=, r, "matrix-mul_assign", format!("{} *=", name));
        let r = forms2!(a, k, /, "matrix-div-scalar-forms", format!("{} / scalar", name));
        assign!(a, k, /=, r, "matrix-div_assign", format!("{} /=", name));
        let r = forms2!(a, k, %, "matrix-rem-scalar-forms", format!("{} % scalar", name));
        assign!(a, k, %=, r, "matrix-rem_assign", format!("{} %=", name));
        same!(-a, -&a, "matrix-neg-forms", "-&{}", name);
        same!($M { $($f: -a.$f),+ }, -a, "matrix-neg-value", "-{} per column", name);
        // folds
        let len = $d.int(0, 5) as usize;
        let list: Vec<$M<$F>> = (0..len).map(|_| match $d.int(0, 5) { 0 => $M::<$F>::one(), 1 => $M::<$F>::zero(), _ => $M { $($f: $gv($d)),+ } }).collect();
        let mut fs = $M::<$F>::zero();
        let mut fp = $M::<$F>::one();
        for m in &list { fs = fs + *m; fp = fp * *m; }
        let sv: $M<$F> = list.iter().cloned().sum();
        let sr: $M<$F> = list.iter().sum();
        let pv: $M<$F> = list.iter().cloned().product();
        let pr: $M<$F> = list.iter().product();
        same!(fs, sv, "matrix-sum-values", "{} Sum over values ({} items)", name, len);
        same!(fs, sr, "matrix-sum-refs", "{} Sum over references ({} items)", name, len);
        same!(fp, pv, "matrix-product-values", "{} Product over values ({} items)", name, len);
        same!(fp, pr, "matrix-product-refs", "{} Product over references ({} items)", name, len);
    }};
}

macro_rules! float_forms {
    ($fname:ident, $F:ty) => {
        fn $fname(d: &mut Draw) -> Outcome {
            type F = $F;
            let g = |d: &mut Draw| <F as Prim>::g(d);
            let gv2 = |d: &mut Draw| Vector2 { x: g(d), y: g(d) };
            let gv3 = |d: &mut Draw| Vector3 { x: g(d), y: g(d), z: g(d) };
            let gv4 = |d: &mut Draw| Vector4 { x: g(d), y: g(d), z: g(d), w: g(d) };
            matrix_forms!(d, F, Matrix2, Vector2, [x, y], gv2);
            matrix_forms!(d, F, Matrix3, Vector3, [x, y, z], gv3);
            matrix_forms!(d, F, Matrix4, Vector4, [x, y, z, w], gv4);
            // vectors: negation (by value only) and the float remainder
            let v = gv3(d);
            same!(Vector3 { x: -v.x, y: -v.y, z: -v.z }, -v, "vector-neg-value", "-Vector3 per component");
            // quaternions
            let gq = |d: &mut Draw| Quaternion { s: g(d), v: gv3(d) };
            let (p, q) = (gq(d), gq(d));
            let (s, k) = (g(d), <F as Prim>::g_nz(d));
            let r = forms4!(p, q, +, "quaternion-add-forms", "Quaternion + Quaternion");
            assign!(p, q, +=, r, "quaternion-add_assign", "Quaternion +=");
            let r = forms4!(p, q, -, "quaternion-sub-forms", "Quaternion - Quaternion");
            assign!(p, q, -=, r, "quaternion-sub_assign", "Quaternion -=");
            let _ = forms4!(p, q, *, "quaternion-mul-forms", "Quaternion * Quaternion");
            let _ = forms4!(p, v, *, "quaternion-mul-vector-forms", "Quaternion * Vector3");
            let r = forms2!(p, s, *, "quaternion-mul-scalar-forms", "Quaternion * scalar");
            assign!(p, s, *=, r, "quaternion-mul_assign", "Quaternion *=");
            same!(Quaternion { s: p.s * s, v: p.v * s }, r, "quaternion-mul-scalar-value", "Quaternion * scalar per component");
            let r = forms2!(p, k, /, "quaternion-div-scalar-forms", "Quaternion / scalar");
            assign!(p, k, /=, r, "quaternion-div_assign", "Quaternion /=");
            same!(Quaternion { s: p.s / k, v: p.v / k }, r, "quaternion-div-scalar-value", "Quaternion / scalar per component");
            let r = forms2!(p, k, %, "quaternion-rem-scalar-forms", "Quaternion % scalar");
            assign!(p, k, %=, r, "quaternion-rem_assign", "Quaternion %=");
            same!(Quaternion { s: p.s % k, v: p.v % k }, r, "quaternion-rem-scalar-value", "Quaternion % scalar per component");
            same!(-p, -&p, "quaternion-neg-forms", "-&Quaternion");
            same!(Quaternion { s: -p.s, v: -p.v }, -p, "quaternion-neg-value", "-Quaternion per component");
            // scalar on the left: * and /
            let r = s * p;
            same!(Quaternion { s: s * p.s, v: s * p.v }, r, "scalar-left-mul-quaternion", "scalar * Quaternion per component");
            same!(r, s * &p, "scalar-left-mul-quaternion-ref", "scalar * &Quaternion");
            let r = s / p;
            same!(Quaternion { s: s / p.s, v: s / p.v }, r, "scalar-left-div-quaternion", "scalar / Quaternion per component");
            same!(r, s / &p, "scalar-left-div-quaternion-ref", "scalar / &Quaternion");
            let len = d.int(0, 5) as usize;
            // (neutral elements in the middle of a list are factors like any other: x * 1 turns an infinity into NaN and a
            // -0.0 into +0.0, and the fold is defined as doing exactly that)
            let list: Vec<Quaternion<F>> = (0..len).map(|_| match d.int(0, 5) { 0 => Quaternion::<F>::one(), 1 => Quaternion::<F>::zero(), _ => gq(d) }).collect();
            let mut fs = Quaternion::<F>::zero();
            let mut fp = Quaternion::<F>::one();
            for x in &list { fs = fs + *x; fp = fp * *x; }
            let sv: Quaternion<F> = list.iter().cloned().sum();
            let sr: Quaternion<F> = list.iter().sum();
            let pv: Quaternion<F> = list.iter().cloned().product();
            let pr: Quaternion<F> = list.iter().product();
            same!(fs, sv, "quaternion-sum-values", "Quaternion Sum over values");
            same!(fs, sr, "quaternion-sum-refs", "Quaternion Sum over references");
            same!(fp, pv, "quaternion-product-values", "Quaternion Product over values");
            same!(fp, pr, "quaternion-product-refs", "Quaternion Product over references");
            // angles
            macro_rules! angle {
                ($A:ident) => {{
                    let (a, b) = ($A(g(d)), $A(<F as Prim>::g_nz(d)));
                    let r = forms4!(a, b, +, "angle-add-forms", concat!(stringify!($A), " + ", stringify!($A)));
                    assign!(a, b, +=, r, "angle-add_assign", concat!(stringify!($A), " +="));
                    let r = forms4!(a, b, -, "angle-sub-forms", concat!(stringify!($A), " - ", stringify!($A)));
                    assign!(a, b, -=, r, "angle-sub_assign", concat!(stringify!($A), " -="));
                    let r = forms4!(a, b, %, "angle-rem-forms", concat!(stringify!($A), " % ", stringify!($A)));
                    assign!(a, b, %=, r, "angle-rem_assign", concat!(stringify!($A), " %="));
                    let _ = forms4!(a, b, /, "angle-ratio-forms", concat!(stringify!($A), " / ", stringify!($A)));
                    let r = forms2!(a, s, *, "angle-mul-forms", concat!(stringify!($A), " * scalar"));
                    assign!(a, s, *=, r, "angle-mul_assign", concat!(stringify!($A), " *="));
                    let r = forms2!(a, k, /, "angle-div-forms", concat!(stringify!($A), " / scalar"));
                    assign!(a, k, /=, r, "angle-div_assign", concat!(stringify!($A), " /="));
                    same!(-a, -&a, "angle-neg-forms", concat!("-&", stringify!($A)));
                    same!($A(-a.0), -a, "angle-neg-value", concat!("-", stringify!($A)));
                }};
            }
            angle!(Rad);
            angle!(Deg);
            // bases (finite, orthonormal inputs)
            let (t1, t2) = (d.f64_in(-7.0, 7.0) as F, d.f64_in(-7.0, 7.0) as F);
            let (b1, b2): (Basis2<F>, Basis2<F>) = (Rotation2::from_angle(Rad(t1)), Rotation2::from_angle(Rad(t2)));
            let r = forms4!(b1, b2, *, "basis2-mul-forms", "Basis2 * Basis2");
            same!(Matrix2::from(b1) * Matrix2::from(b2), Matrix2::from(r), "basis2-mul-value", "Basis2 product vs matrix product");
            let u1 = f_unit_quat(d);
            let u2 = f_unit_quat(d);
            let cast = |u: [f64; 4]| mk_q(&[u[0] as F, u[1] as F, u[2] as F, u[3] as F]);
            let (c1, c2) = (Basis3::from(cast(u1)), Basis3::from(cast(u2)));
            let r = forms4!(c1, c2, *, "basis3-mul-forms", "Basis3 * Basis3");
            same!(Matrix3::from(c1) * Matrix3::from(c2), Matrix3::from(r), "basis3-mul-value", "Basis3 product vs matrix product");
            // Basis2 also holds reflections (look_at_stable with flip), which do not commute with rotations
            let dir = Vector2 { x: d.f64_in(-3.0, 3.0) as F + 0.125, y: d.f64_in(-3.0, 3.0) as F };
            let refl: Basis2<F> = Basis2::look_at_stable(dir, true);
            let _ = forms4!(refl, b1, *, "basis2-mul-forms", "Basis2(reflection) * Basis2");
            let lb2 = match d.int(0, 3) { 0 => [b1, b2, b1], 1 => [refl, b1, b2], 2 => [b1, refl, b2], _ => [b1, b2, refl] };
            let pv: Basis2<F> = lb2.iter().cloned().product();
            let pr: Basis2<F> = lb2.iter().product();
            let fold = ((Basis2::<F>::one() * lb2[0]) * lb2[1]) * lb2[2];
            same!(fold, pv, "basis2-product-values", "Basis2 Product over values");
            same!(fold, pr, "basis2-product-refs", "Basis2 Product over references");
            let lb3 = [c1, c2];
            let pv: Basis3<F> = lb3.iter().cloned().product();
            let pr: Basis3<F> = lb3.iter().product();
            let fold = (Basis3::<F>::one() * c1) * c2;
            same!(fold, pv, "basis3-product-values", "Basis3 Product over values");
            same!(fold, pr, "basis3-product-refs", "Basis3 Product over references");
            pass(stringify!($F), true)
        }
    };
}
float_forms!(float_forms_f32, f32);
float_forms!(float_forms_f64, f64);

/// exact fold laws (no rounding): Sum/Product over Q
fn folds_q(d: &mut Draw) -> Outcome {
    let g = |d: &mut Draw| <Q as Sc>::gen(d);
    let len = d.int(0, 8) as usize;
    let vs: Vec<Vector3<Q>> = (0..len).map(|_| Vector3::new(g(d), g(d), g(d))).collect();
    let mut f = Vector3::<Q>::zero();
    for v in &vs {
        f = f + *v;
    }
    let a: Vector3<Q> = vs.iter().sum();
    let b: Vector3<Q> = vs.iter().cloned().sum();
    ensure_eq!(a, f, "vector-sum-refs", "Sum over references");
    ensure_eq!(b, f, "vector-sum-values", "Sum over values");
    let len = d.int(0, 4) as usize;
    let ms: Vec<Matrix2<Q>> = (0..len).map(|_| Matrix2::new(g(d), g(d), g(d), g(d))).collect();
    let mut fs = Matrix2::<Q>::zero();
    let mut fp = Matrix2::<Q>::one();
    for m in &ms {
        fs = fs + *m;
        fp = fp * *m;
    }
    let s: Matrix2<Q> = ms.iter().sum();
    let p: Matrix2<Q> = ms.iter().product();
    ensure_eq!(s, fs, "matrix-sum-refs", "Matrix2 Sum");
    ensure_eq!(p, fp, "matrix-product-refs", "Matrix2 Product");
    let qs: Vec<Quaternion<Q>> = (0..len).map(|_| Quaternion::new(g(d), g(d), g(d), g(d))).collect();
    let mut fs = Quaternion::<Q>::zero();
    let mut fp = Quaternion::<Q>::one();
    for q in &qs {
        fs = fs + *q;
        fp = fp * *q;
    }
    let s: Quaternion<Q> = qs.iter().sum();
    let p: Quaternion<Q> = qs.iter().cloned().product();
    ensure_eq!(s, fs, "quaternion-sum-refs", "Quaternion Sum");
    ensure_eq!(p, fp, "quaternion-product-values", "Quaternion Product");
    pass(if len == 0 { "empty" } else { "non-empty" }, len >= 2)
}

// ---- straight-line programs ---------------------------------------------------------------------------------

/// A tiny register machine over one compound type T with scalar S. Interpreter A uses only by-value
/// binary operators; interpreter B spells every instruction with a form chosen by the draws.
macro_rules! program {
    ($fname:ident, $T:ty, $S:ty, $gen:expr, $has_mul:expr) => {
        fn $fname(d: &mut Draw) -> Outcome {
            type T = $T;
            type S = $S;
            let nregs = 4usize;
            let mut ra: Vec<T> = (0..nregs).map(|_| $gen(d)).collect();
            let mut rb = ra.clone();
            let len = d.int(1, 16) as usize;
            let mut forms_used = std::collections::BTreeSet::new();
            let mut listing = Vec::new();
            for _ in 0..len {
                let op = d.int(0, if $has_mul { 5 } else { 4 });
                let (dst, x, y) = (d.below(nregs), d.below(nregs), d.below(nregs));
                let form = d.int(0, 5);
                // keep magnitudes bounded: scalars in a small set
                let s: S = [0.5 as S, 2.0 as S, -1.0 as S, 0.25 as S][d.below(4)];
                match op {
                    0 | 1 => {
                        // dst = x + y / x - y
                        let add = op == 0;
                        ra[dst] = if add { ra[x] + ra[y] } else { ra[x] - ra[y] };
                        let (bx, by) = (rb[x], rb[y]);
                        rb[dst] = match (form, add) {
                            (0, true) => bx + by,
                            (1, true) => bx + &by,
                            (2, true) => &bx + by,
                            (3, true) => &bx + &by,
                            (_, true) => { let mut t = bx; t += by; t }
                            (0, false) => bx - by,
                            (1, false) => bx - &by,
                            (2, false) => &bx - by,
                            (3, false) | (5, false) => &bx - &by,
                            (_, false) => { let mut t = bx; t -= by; t }
                        };
                        listing.push(format!("r{} = r{} {} r{} [form {}]", dst, x, if add { '+' } else { '-' }, y, form));
                    }
                    2 => {
                        ra[dst] = ra[x] * s;
                        let bx = rb[x];
                        rb[dst] = match form {
                            0 | 3 => bx * s,
                            1 | 4 => &bx * s,
                            _ => { let mut t = bx; t *= s; t }
                        };
                        listing.push(format!("r{} = r{} * {:?} [form {}]", dst, x, s, form));
                    }
                    3 => {
                        ra[dst] = ra[x] / s;
                        let bx = rb[x];
                        rb[dst] = match form {
                            0 | 3 => bx / s,
                            1 | 4 => &bx / s,
                            _ => { let mut t = bx; t /= s; t }
                        };
                        listing.push(format!("r{} = r{} / {:?} [form {}]", dst, x, s, form));
                    }
                    4 => {
                        // three-term sum through the iterator
                        ra[dst] = (T::zero() + ra[x]) + ra[y] + ra[dst];
                        let items = [rb[x], rb[y], rb[dst]];
                        rb[dst] = if form % 2 == 0 { items.iter().sum() } else { items.iter().cloned().sum() };
                        listing.push(format!("r{} = sum(r{}, r{}, r{}) [form {}]", dst, x, y, dst, form));
                    }
                    _ => {
                        // forms 0-3: operand forms of the binary product; 4-5: Product over an iterator,
                        // which is the left fold from one() and is compared with exactly that
                        ra[dst] = program_mul_a(&ra[x], &ra[y], form);
                        rb[dst] = program_mul_b(&rb[x], &rb[y], form);
                        listing.push(format!("r{} = r{} * r{} [form {}]", dst, x, y, form));
                    }
                }
                forms_used.insert(form.min(4));
            }
            if d.recording() {
                d.note("program", &listing);
            }
            for i in 0..nregs {
                if sig(&ra[i]) != sig(&rb[i]) {
                    return Outcome::Fail {
                        sig: "program-forms-disagree",
                        msg: format!("register {} differs between the by-value program and the mixed-form program: {:?} vs {:?}; program: {:?}", i, ra[i], rb[i], listing),
                    };
                }
            }
            let nt = len >= 3 && forms_used.len() >= 2;
            pass(if nt { "mixed" } else { "short" }, nt)
        }
    };
}

trait ProgMul: Sized {
    fn mul_a(a: &Self, b: &Self, form: i64) -> Self;
    fn mul_b(a: &Self, b: &Self, form: i64) -> Self;
}
macro_rules! progmul {
    ($T:ty) => {
        impl ProgMul for $T {
            fn mul_a(a: &Self, b: &Self, form: i64) -> Self {
                if form >= 4 {
                    (<$T as num_traits::One>::one() * *a) * *b
                } else {
                    *a * *b
                }
            }
            fn mul_b(a: &Self, b: &Self, form: i64) -> Self {
                match form {
                    0 => *a * *b,
                    1 => *a * b,
                    2 => a * *b,
                    3 => a * b,
                    4 => [*a, *b].iter().product(),
                    _ => vec![*a, *b].into_iter().product(),
                }
            }
        }
    };
}
progmul!(Matrix3<f64>);
progmul!(Quaternion<f64>);
macro_rules! no_progmul {
    ($T:ty) => {
        impl ProgMul for $T {
            fn mul_a(a: &Self, _: &Self, _: i64) -> Self {
                *a
            }
            fn mul_b(a: &Self, _: &Self, _: i64) -> Self {
                *a
            }
        }
    };
}
no_progmul!(Vector3<f64>);
no_progmul!(Vector4<f32>);
no_progmul!(Rad<f64>);
fn program_mul_a<T: ProgMul>(a: &T, b: &T, form: i64) -> T {
    T::mul_a(a, b, form)
}
fn program_mul_b<T: ProgMul>(a: &T, b: &T, form: i64) -> T {
    T::mul_b(a, b, form)
}

fn gp_f64(d: &mut Draw) -> f64 {
    d.f64_slog(1e-2, 1e2)
}
program!(program_vector3, Vector3<f64>, f64, |d: &mut Draw| Vector3::new(gp_f64(d), gp_f64(d), gp_f64(d)), false);
program!(program_vector4f32, Vector4<f32>, f32, |d: &mut Draw| Vector4::new(gp_f64(d) as f32, gp_f64(d) as f32, gp_f64(d) as f32, gp_f64(d) as f32), false);
program!(program_matrix3, Matrix3<f64>, f64, |d: &mut Draw| Matrix3::new(gp_f64(d), gp_f64(d), gp_f64(d), gp_f64(d), gp_f64(d), gp_f64(d), gp_f64(d), gp_f64(d), gp_f64(d)), true);
program!(program_quaternion, Quaternion<f64>, f64, |d: &mut Draw| Quaternion::new(gp_f64(d), gp_f64(d), gp_f64(d), gp_f64(d)), true);
program!(program_rad, Rad<f64>, f64, |d: &mut Draw| Rad(gp_f64(d)), false);

pub fn property() -> Property {
    let mut s = Vec::new();
    macro_rules! add {
        ($name:expr, $scalar:expr, $f:expr, $q:expr, $t:expr, $len:expr, $req:expr, $rule:expr) => {
            s.push(SubCheck { name: $name, scalar: $scalar, quick: $q, thorough: $t, len: $len, f: $f, required: $req, rule: $rule, exhaustive: false });
        };
    }
    const R: &str = "every generated operand tuple (floats from raw bit patterns incl. +-0, subnormals, infinities; integers in the no-overflow range)";
    macro_rules! forms {
        ($T:ty, $tag:expr) => {
            add!(concat!("vector_point_forms-", $tag), $tag, forms_all_dims::<$T>, 1500, 100_000, 640, &[], R);
        };
    }
    forms!(u8, "u8");
    forms!(u16, "u16");
    forms!(u32, "u32");
    forms!(u64, "u64");
    forms!(usize, "usize");
    forms!(i8, "i8");
    forms!(i16, "i16");
    forms!(i32, "i32");
    forms!(i64, "i64");
    forms!(isize, "isize");
    forms!(f32, "f32");
    forms!(f64, "f64");
    macro_rules! sl {
        ($f:ident, $tag:expr) => {
            add!(concat!("scalar_left-", $tag), $tag, $f, 1500, 100_000, 640, &[], R);
        };
    }
    macro_rules! wi {
        ($f:ident, $tag:expr) => {
            add!(concat!("int_overflow-", $tag), $tag, $f, 400, 30_000, 640, &[("some-panic", 300)],
                "integers over their whole range (random bits, MIN/MAX and neighbours, values around sqrt(MAX)); a case is non-trivial when some but not all of its operator applications overflow");
        };
    }
    wi!(wi_u8, "u8");
    wi!(wi_u16, "u16");
    wi!(wi_u32, "u32");
    wi!(wi_u64, "u64");
    wi!(wi_usize, "usize");
    wi!(wi_i8, "i8");
    wi!(wi_i16, "i16");
    wi!(wi_i32, "i32");
    wi!(wi_i64, "i64");
    wi!(wi_isize, "isize");
    const RL: &str = "lists of at least two items; lengths 0..12, around 16/32/../2048, anywhere up to 600, and 1000..2600";
    add!("long_folds-f32", "f32", long_folds_f32, 150, 20_000, 128, &[("up-to-128", 100), ("longer-than-128", 150), ("longer-than-1000", 100)], RL);
    add!("long_folds-f64", "f64", long_folds_f64, 150, 20_000, 128, &[("up-to-128", 100), ("longer-than-128", 150), ("longer-than-1000", 100)], RL);
    add!("long_int_folds-i8", "i8", long_int_folds_i8, 600, 40_000, 48, &[("fold-overflows", 100), ("long-no-overflow", 5)], RL);
    add!("long_int_folds-i32", "i32", long_int_folds_i32, 600, 40_000, 48, &[("fold-overflows", 100), ("long-no-overflow", 30)], RL);
    add!("long_int_folds-u8", "u8", long_int_folds_u8, 600, 40_000, 48, &[("fold-overflows", 100)], RL);
    add!("long_int_folds-u64", "u64", long_int_folds_u64, 600, 40_000, 48, &[("fold-overflows", 100)], RL);
    sl!(sl_u8, "u8");
    sl!(sl_u16, "u16");
    sl!(sl_u32, "u32");
    sl!(sl_u64, "u64");
    sl!(sl_usize, "usize");
    sl!(sl_i8, "i8");
    sl!(sl_i16, "i16");
    sl!(sl_i32, "i32");
    sl!(sl_i64, "i64");
    sl!(sl_isize, "isize");
    sl!(sl_f32, "f32");
    sl!(sl_f64, "f64");
    add!("float_types_forms-f32", "f32", float_forms_f32, 1500, 100_000, 1000, &[], R);
    add!("float_types_forms-f64", "f64", float_forms_f64, 1500, 100_000, 1200, &[], R);
    add!("folds-Q", "Q", folds_q, 2000, 100_000, 200, &[("non-empty", 300), ("empty", 50)], "list length >= 2");
    const RP: &str = "programs with >= 3 instructions using >= 2 different operator forms";
    const MIXED: &[(&str, u32)] = &[("mixed", 500)];
    add!("program-Vector3-f64", "f64", program_vector3, 3000, 500_000, 256, MIXED, RP);
    add!("program-Vector4-f32", "f32", program_vector4f32, 3000, 500_000, 256, MIXED, RP);
    add!("program-Matrix3-f64", "f64", program_matrix3, 3000, 500_000, 320, MIXED, RP);
    add!("program-Quaternion-f64", "f64", program_quaternion, 3000, 500_000, 256, MIXED, RP);
    add!("program-Rad-f64", "f64", program_rad, 3000, 500_000, 200, MIXED, RP);
    Property {
        id: "C17",
        title: "Every spelling of an operator computes the same value",
        subchecks: s,
        assumptions: &[
            "results are compared bit for bit (all NaNs identified); integer operands are constructed so that no operation overflows, divisors and moduli are non-zero",
            "scalar-on-the-left is checked against the primitive operator applied per component with the scalar as left operand, for all twelve primitive types and the ten vector/point/matrix types, plus f32/f64 * and / Quaternion",
            "straight-line programs: two interpreters over the same register file, one using only by-value binary operators, the other a drawn form per instruction (references, compound assignment, Sum/Product); scalars restricted to {1/4, 1/2, -1, 2} so that values stay finite",
        ],
        fuzz: false,
    }
}
