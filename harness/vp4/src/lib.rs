pub mod c17;

pub fn all() -> Vec<vcore::engine::Property> {
    vec![c17::property()]
}
