//! Generation, execution, shrinking, replay and evidence for all properties.
//!
//! Every sub-check is a plain function `fn(&mut Draw) -> Outcome`.  `Draw` is a cursor over a
//! fixed-length `Vec<u32>`; the vector is the *only* source of variation, so a case is a pure
//! function of (tree, vector).  proptest's `TestRunner` produces and shrinks the vectors; the
//! libFuzzer target feeds byte strings reinterpreted as the same vectors.

use proptest::strategy::{Just, Strategy};
use proptest::test_runner::{Config, RngAlgorithm, RngSeed, TestCaseError, TestError, TestRunner};
use serde_json::{json, Value};
use std::cell::{Cell, RefCell};
use std::collections::{BTreeMap, HashSet};
use std::panic::{catch_unwind, AssertUnwindSafe};
use std::time::Instant;

// ------------------------------------------------------------------------------------------------
// thread-local case state: taint flag (exact tiers), last panic message

thread_local! {
    static TAINT: Cell<Option<&'static str>> = Cell::new(None);
    static LAST_PANIC: RefCell<String> = RefCell::new(String::new());
}

/// Mark the current case as undecidable by the exact tier (overflow, irrational sqrt, ...).
#[inline]
pub fn taint(why: &'static str) {
    TAINT.with(|t| {
        if t.get().is_none() {
            t.set(Some(why))
        }
    });
}
pub fn tainted() -> Option<&'static str> {
    TAINT.with(|t| t.get())
}
pub fn reset_case_state() {
    TAINT.with(|t| t.set(None));
    crate::q::reset_registry();
}

pub fn install_silent_panic_hook() {
    std::panic::set_hook(Box::new(|info| {
        let msg = if let Some(s) = info.payload().downcast_ref::<&str>() {
            s.to_string()
        } else if let Some(s) = info.payload().downcast_ref::<String>() {
            s.clone()
        } else {
            "<non-string panic>".to_string()
        };
        let loc = info
            .location()
            .map(|l| format!(" at {}:{}", l.file(), l.line()))
            .unwrap_or_default();
        LAST_PANIC.with(|p| *p.borrow_mut() = format!("{}{}", msg, loc));
    }));
}
pub fn last_panic() -> String {
    LAST_PANIC.with(|p| p.borrow().clone())
}

/// Run `f`, return Err(message) if it panicked.
pub fn catches<R>(f: impl FnOnce() -> R) -> Result<R, String> {
    match catch_unwind(AssertUnwindSafe(f)) {
        Ok(r) => Ok(r),
        Err(_) => Err(last_panic()),
    }
}

// ------------------------------------------------------------------------------------------------
// Draw

pub struct Draw<'a> {
    raw: &'a [u32],
    pos: usize,
    hash: u64,
    notes: Option<Vec<(String, String)>>,
    /// number of enumerated configurations covered by this case (for exhaustive sweeps)
    pub configs: u64,
}

impl<'a> Draw<'a> {
    pub fn new(raw: &'a [u32], record: bool) -> Draw<'a> {
        Draw {
            raw,
            pos: 0,
            hash: 0xcbf29ce484222325,
            notes: if record { Some(Vec::new()) } else { None },
            configs: 0,
        }
    }
    #[inline]
    fn mix(&mut self, v: u64) {
        self.hash ^= v;
        self.hash = self.hash.wrapping_mul(0x100000001b3);
        self.hash ^= self.hash >> 29;
    }
    pub fn hash(&self) -> u64 {
        self.hash
    }
    pub fn consumed(&self) -> usize {
        self.pos
    }
    pub fn recording(&self) -> bool {
        self.notes.is_some()
    }
    pub fn note<T: std::fmt::Debug>(&mut self, key: &str, v: &T) {
        if let Some(n) = self.notes.as_mut() {
            if n.len() < 64 {
                let mut s = format!("{:?}", v);
                if s.len() > 400 {
                    s.truncate(400);
                    s.push_str("...");
                }
                n.push((key.to_string(), s));
            }
        }
    }
    pub fn take_notes(&mut self) -> Vec<(String, String)> {
        self.notes.take().unwrap_or_default()
    }

    /// next raw entry (0 once the vector is exhausted)
    #[inline]
    pub fn raw(&mut self) -> u32 {
        let v = if self.pos < self.raw.len() { self.raw[self.pos] } else { 0 };
        self.pos += 1;
        v
    }
    /// uniform-ish integer in [lo, hi], monotone in the raw entry (0 -> lo, MAX -> hi)
    #[inline]
    pub fn int(&mut self, lo: i64, hi: i64) -> i64 {
        debug_assert!(lo <= hi);
        let span = (hi - lo) as u128 + 1;
        let r = self.raw() as u128;
        let v = lo + ((r * span) >> 32) as i64;
        self.mix(v as u64);
        v
    }
    /// integer in [lo, hi] \ {0}; requires lo < 0 < hi
    #[inline]
    pub fn nz_int(&mut self, lo: i64, hi: i64) -> i64 {
        let v = self.int(lo, hi - 1);
        if v >= 0 {
            v + 1
        } else {
            v
        }
    }
    #[inline]
    pub fn below(&mut self, n: usize) -> usize {
        self.int(0, n as i64 - 1) as usize
    }
    #[inline]
    pub fn pick<T: Copy>(&mut self, xs: &[T]) -> T {
        xs[self.below(xs.len())]
    }
    #[inline]
    pub fn bool(&mut self) -> bool {
        self.int(0, 1) == 1
    }
    /// true with probability num/den
    #[inline]
    pub fn chance(&mut self, num: i64, den: i64) -> bool {
        self.int(0, den - 1) < num
    }
    /// 64 raw bits
    #[inline]
    pub fn bits64(&mut self) -> u64 {
        let hi = self.raw() as u64;
        let lo = self.raw() as u64;
        let v = (hi << 32) | lo;
        self.mix(v);
        v
    }
    #[inline]
    pub fn bits32(&mut self) -> u32 {
        let v = self.raw();
        self.mix(v as u64);
        v
    }
    /// uniform in [0,1) with 53 bits, monotone in the first raw entry
    #[inline]
    pub fn unit(&mut self) -> f64 {
        let v = self.bits64() >> 11;
        v as f64 / (1u64 << 53) as f64
    }
    #[inline]
    pub fn f64_in(&mut self, lo: f64, hi: f64) -> f64 {
        lo + (hi - lo) * self.unit()
    }
    /// log-uniform in [lo, hi], lo > 0
    #[inline]
    pub fn f64_log(&mut self, lo: f64, hi: f64) -> f64 {
        (lo.ln() + (hi.ln() - lo.ln()) * self.unit()).exp()
    }
    /// log-uniform magnitude with random sign
    #[inline]
    pub fn f64_slog(&mut self, lo: f64, hi: f64) -> f64 {
        let s = if self.bool() { 1.0 } else { -1.0 };
        s * self.f64_log(lo, hi)
    }
    /// standard normal (Box-Muller on two draws)
    pub fn gauss(&mut self) -> f64 {
        let u1 = 1.0 - self.unit();
        let u2 = self.unit();
        (-2.0 * u1.ln()).sqrt() * (2.0 * std::f64::consts::PI * u2).cos()
    }
}

// ------------------------------------------------------------------------------------------------
// Outcome

#[derive(Debug, Clone)]
pub enum Outcome {
    Pass { class: &'static str, nontrivial: bool },
    Discard(&'static str),
    Fail { sig: &'static str, msg: String },
}

pub fn pass(class: &'static str, nontrivial: bool) -> Outcome {
    Outcome::Pass { class, nontrivial }
}

/// `ensure!(cond, "signature", "format", args...)`: return a failure from the sub-check.
#[macro_export]
macro_rules! ensure {
    ($cond:expr, $sig:expr, $($fmt:tt)+) => {
        if !($cond) {
            return $crate::engine::Outcome::Fail { sig: $sig, msg: format!($($fmt)+) };
        }
    };
}
/// `ensure_eq!(got, want, "signature", "what")`
#[macro_export]
macro_rules! ensure_eq {
    ($got:expr, $want:expr, $sig:expr, $($fmt:tt)+) => {{
        let (g, w) = (&$got, &$want);
        if !(*g == *w) {
            return $crate::engine::Outcome::Fail {
                sig: $sig,
                msg: format!("{}: got {:?}, expected {:?}", format!($($fmt)+), g, w),
            };
        }
    }};
}
/// propagate a failure out of a helper returning `Result<(), Outcome>`
#[macro_export]
macro_rules! tryo {
    ($e:expr) => {
        if let Err(o) = $e {
            return o;
        }
    };
}
/// like ensure! but for helpers returning Result<(), Outcome>
#[macro_export]
macro_rules! ensure_r {
    ($cond:expr, $sig:expr, $($fmt:tt)+) => {
        if !($cond) {
            return Err($crate::engine::Outcome::Fail { sig: $sig, msg: format!($($fmt)+) });
        }
    };
}
#[macro_export]
macro_rules! ensure_eq_r {
    ($got:expr, $want:expr, $sig:expr, $($fmt:tt)+) => {{
        let (g, w) = (&$got, &$want);
        if !(*g == *w) {
            return Err($crate::engine::Outcome::Fail {
                sig: $sig,
                msg: format!("{}: got {:?}, expected {:?}", format!($($fmt)+), g, w),
            });
        }
    }};
}

// ------------------------------------------------------------------------------------------------
// SubCheck registry types

#[derive(Clone, Copy)]
pub struct SubCheck {
    pub name: &'static str,
    /// scalar tier(s) the generic code is instantiated with
    pub scalar: &'static str,
    pub quick: u32,
    pub thorough: u32,
    /// length of the raw vector
    pub len: usize,
    pub f: fn(&mut Draw) -> Outcome,
    /// classes that must be reached: (class, minimum count per 1000 evaluations)
    pub required: &'static [(&'static str, u32)],
    /// what makes a case non-trivial
    pub rule: &'static str,
    /// true when every case sweeps a finite configuration space completely
    pub exhaustive: bool,
}

pub struct Property {
    pub id: &'static str,
    pub title: &'static str,
    pub subchecks: Vec<SubCheck>,
    pub assumptions: &'static [&'static str],
    /// which thorough-tier fuzz campaign (if any) serves this property
    pub fuzz: bool,
}

// ------------------------------------------------------------------------------------------------
// executing one case

pub struct CaseResult {
    pub outcome: Outcome,
    pub hash: u64,
    pub notes: Vec<(String, String)>,
    pub configs: u64,
    /// how many entries of the raw vector the case asked for
    pub consumed: usize,
}

pub fn exec_case(sc: &SubCheck, raw: &[u32], record: bool) -> CaseResult {
    reset_case_state();
    let mut d = Draw::new(raw, record);
    let r = catch_unwind(AssertUnwindSafe(|| (sc.f)(&mut d)));
    let outcome = match r {
        Ok(o) => match tainted() {
            Some(why) => Outcome::Discard(why),
            None => o,
        },
        Err(_) => match tainted() {
            Some(why) => Outcome::Discard(why),
            None => Outcome::Fail {
                sig: "panic",
                msg: format!("unexpected panic: {}", last_panic()),
            },
        },
    };
    let hash = d.hash();
    let configs = d.configs;
    let outcome = if d.consumed() > raw.len() {
        // the sub-check asked for more entropy than its declared vector length: a harness defect
        match outcome {
            Outcome::Fail { .. } => outcome,
            _ => Outcome::Discard("HARNESS: draw vector exhausted (declared len too small)"),
        }
    } else {
        outcome
    };
    let consumed = d.consumed();
    CaseResult { outcome, hash, notes: d.take_notes(), configs, consumed }
}

// ------------------------------------------------------------------------------------------------
// known findings

#[derive(Debug, Clone)]
pub struct Finding {
    pub property: String,
    pub subcheck: String,
    pub signature: String,
    pub status: String, // "known" | "fixed"
    pub what: String,
}
#[derive(Debug, Clone, Default)]
pub struct Findings {
    pub all: Vec<Finding>,
}
impl Findings {
    pub fn load(path: &str) -> Findings {
        let mut out = Findings::default();
        let txt = match std::fs::read_to_string(path) {
            Ok(t) => t,
            Err(_) => return out,
        };
        let v: Value = match serde_json::from_str(&txt) {
            Ok(v) => v,
            Err(e) => {
                eprintln!("known_findings.json unreadable: {}", e);
                return out;
            }
        };
        if let Some(arr) = v.get("findings").and_then(|a| a.as_array()) {
            for f in arr {
                let g = |k: &str| f.get(k).and_then(|s| s.as_str()).unwrap_or("").to_string();
                out.all.push(Finding {
                    property: g("property"),
                    subcheck: g("subcheck"),
                    signature: g("signature"),
                    status: g("status"),
                    what: g("what"),
                });
            }
        }
        out
    }
    /// a *known* (unrepaired) finding suppresses exactly its own signature
    pub fn is_known(&self, prop: &str, sub: &str, sig: &str) -> Option<&Finding> {
        self.all.iter().find(|f| {
            f.status == "known" && f.property == prop && f.subcheck == sub && f.signature == sig
        })
    }
}

// ------------------------------------------------------------------------------------------------
// running a sub-check under proptest

#[derive(Debug, Clone)]
pub struct Failure {
    pub subcheck: String,
    pub raw: Vec<u32>,
    pub sig: String,
    pub msg: String,
    pub notes: Vec<(String, String)>,
}

#[derive(Default)]
pub struct SubReport {
    pub name: String,
    pub scalar: String,
    pub evaluations: u64,
    pub configs: u64,
    pub discards: BTreeMap<String, u64>,
    pub classes: BTreeMap<String, u64>,
    pub nontrivial: HashSet<u64>,
    pub sample_raws: BTreeMap<String, Vec<Vec<u32>>>,
    pub known_hits: BTreeMap<String, u64>,
    pub failure: Option<Failure>,
    pub wall_s: f64,
    /// the largest number of raw entries any passing case consumed (to be read against the declared vector length)
    pub max_consumed: usize,
}

fn fnv(s: &str) -> u64 {
    let mut h = 0xcbf29ce484222325u64;
    for b in s.bytes() {
        h ^= b as u64;
        h = h.wrapping_mul(0x100000001b3);
    }
    h
}

fn seed_bytes(seed: u64, prop: &str, sub: &str, shard: u32) -> [u8; 32] {
    let mut out = [0u8; 32];
    let mut x = seed ^ fnv(prop).rotate_left(17) ^ fnv(sub).rotate_left(41) ^ (shard as u64) << 7;
    for chunk in out.chunks_mut(8) {
        // splitmix64
        x = x.wrapping_add(0x9E3779B97F4A7C15);
        let mut z = x;
        z = (z ^ (z >> 30)).wrapping_mul(0xBF58476D1CE4E5B9);
        z = (z ^ (z >> 27)).wrapping_mul(0x94D049BB133111EB);
        z ^= z >> 31;
        chunk.copy_from_slice(&z.to_le_bytes());
    }
    out
}

/// element strategy: mostly uniform, with the extremes of every range over-represented
fn elem() -> impl Strategy<Value = u32> {
    proptest::prop_oneof![
        45 => proptest::num::u32::ANY,
        1 => Just(0u32),
        1 => Just(u32::MAX),
        1 => Just(1u32 << 31),
    ]
}

pub fn run_subcheck(
    prop: &str,
    sc: &SubCheck,
    seed: u64,
    shard: u32,
    cases: u32,
    findings: &Findings,
) -> SubReport {
    let t0 = Instant::now();
    let rep = RefCell::new(SubReport {
        name: sc.name.to_string(),
        scalar: sc.scalar.to_string(),
        ..Default::default()
    });
    let failed = Cell::new(false);
    let first_failure: RefCell<Option<(String, String)>> = RefCell::new(None);

    let config = Config {
        cases,
        failure_persistence: None,
        rng_algorithm: RngAlgorithm::ChaCha,
        rng_seed: RngSeed::Fixed(0),
        max_shrink_iters: 20_000,
        max_global_rejects: u32::MAX,
        max_local_rejects: u32::MAX,
        verbose: 0,
        ..Config::default()
    };
    let rng = proptest::test_runner::TestRng::from_seed(
        RngAlgorithm::ChaCha,
        &seed_bytes(seed, prop, sc.name, shard),
    );
    let mut runner = TestRunner::new_with_rng(config, rng);
    let strat = proptest::collection::vec(elem(), sc.len..=sc.len);

    let result = runner.run(&strat, |raw| {
        let r = exec_case(sc, &raw, false);
        let counting = !failed.get();
        match r.outcome {
            Outcome::Pass { class, nontrivial } => {
                if counting {
                    let mut rep = rep.borrow_mut();
                    rep.evaluations += 1;
                    rep.configs += r.configs;
                    rep.max_consumed = rep.max_consumed.max(r.consumed);
                    *rep.classes.entry(class.to_string()).or_insert(0) += 1;
                    if nontrivial {
                        rep.nontrivial.insert(r.hash);
                    }
                    let s = rep.sample_raws.entry(class.to_string()).or_default();
                    if s.len() < 2 {
                        s.push(raw.clone());
                    }
                }
                Ok(())
            }
            Outcome::Discard(why) => {
                if counting {
                    let mut rep = rep.borrow_mut();
                    rep.evaluations += 1;
                    *rep.discards.entry(why.to_string()).or_insert(0) += 1;
                }
                Ok(())
            }
            Outcome::Fail { sig, msg } => {
                if findings.is_known(prop, sc.name, sig).is_some() {
                    // a listed finding: excluded by construction, counted, search continues
                    if counting {
                        let mut rep = rep.borrow_mut();
                        rep.evaluations += 1;
                        *rep.known_hits.entry(sig.to_string()).or_insert(0) += 1;
                    }
                    return Ok(());
                }
                if counting {
                    rep.borrow_mut().evaluations += 1;
                    failed.set(true);
                    *first_failure.borrow_mut() = Some((sig.to_string(), msg.clone()));
                }
                Err(TestCaseError::fail(format!("[{}] {}", sig, msg)))
            }
        }
    });

    let mut rep = rep.into_inner();
    match result {
        Ok(()) => {}
        Err(TestError::Fail(_, raw)) => {
            // re-run the shrunk vector to get its own message and decoded notes
            let r = exec_case(sc, &raw, true);
            let (sig, msg) = match r.outcome {
                Outcome::Fail { sig, msg } => (sig.to_string(), msg),
                _ => first_failure
                    .into_inner()
                    .unwrap_or(("unknown".into(), "failure did not reproduce on shrunk input".into())),
            };
            rep.failure = Some(Failure { subcheck: sc.name.to_string(), raw, sig, msg, notes: r.notes });
        }
        Err(TestError::Abort(reason)) => {
            rep.failure = Some(Failure {
                subcheck: sc.name.to_string(),
                raw: vec![],
                sig: "abort".into(),
                msg: format!("proptest aborted: {}", reason),
                notes: vec![],
            });
        }
    }
    rep.wall_s = t0.elapsed().as_secs_f64();
    rep
}

impl SubReport {
    pub fn merge(&mut self, other: SubReport) {
        self.evaluations += other.evaluations;
        self.configs += other.configs;
        self.max_consumed = self.max_consumed.max(other.max_consumed);
        for (k, v) in other.discards {
            *self.discards.entry(k).or_insert(0) += v;
        }
        for (k, v) in other.classes {
            *self.classes.entry(k).or_insert(0) += v;
        }
        for (k, v) in other.known_hits {
            *self.known_hits.entry(k).or_insert(0) += v;
        }
        self.nontrivial.extend(other.nontrivial);
        for (k, v) in other.sample_raws {
            let e = self.sample_raws.entry(k).or_default();
            for r in v {
                if e.len() < 2 {
                    e.push(r);
                }
            }
        }
        if self.failure.is_none() {
            self.failure = other.failure;
        }
        self.wall_s = self.wall_s.max(other.wall_s);
    }
    pub fn discard_total(&self) -> u64 {
        self.discards.values().sum()
    }
}

// ------------------------------------------------------------------------------------------------
// replay files

pub fn write_replay(dir: &str, prop: &str, f: &Failure) -> String {
    let _ = std::fs::create_dir_all(format!("{}/{}", dir, prop));
    let mut h = fnv(&f.subcheck);
    for r in &f.raw {
        h ^= *r as u64;
        h = h.wrapping_mul(0x100000001b3);
    }
    let path = format!("{}/{}/{}-{:016x}.json", dir, prop, f.subcheck, h);
    let notes: Vec<Value> = f.notes.iter().map(|(k, v)| json!({ k.clone(): v })).collect();
    let v = json!({
        "property": prop,
        "subcheck": f.subcheck,
        "signature": f.sig,
        "message": f.msg,
        "decoded": notes,
        "raw": f.raw,
    });
    let _ = std::fs::write(&path, serde_json::to_string_pretty(&v).unwrap());
    path
}

pub fn read_replay(path: &str) -> Result<(String, String, Vec<u32>), String> {
    let txt = std::fs::read_to_string(path).map_err(|e| format!("{}: {}", path, e))?;
    let v: Value = serde_json::from_str(&txt).map_err(|e| format!("{}: {}", path, e))?;
    let prop = v.get("property").and_then(|s| s.as_str()).unwrap_or("").to_string();
    let sub = v.get("subcheck").and_then(|s| s.as_str()).ok_or("no subcheck")?.to_string();
    let raw = v
        .get("raw")
        .and_then(|a| a.as_array())
        .ok_or("no raw")?
        .iter()
        .map(|x| x.as_u64().unwrap_or(0) as u32)
        .collect();
    Ok((prop, sub, raw))
}

pub fn notes_json(notes: &[(String, String)]) -> Value {
    let mut m = serde_json::Map::new();
    for (k, v) in notes {
        let mut key = k.clone();
        let mut i = 1;
        while m.contains_key(&key) {
            i += 1;
            key = format!("{}#{}", k, i);
        }
        m.insert(key, Value::String(v.clone()));
    }
    Value::Object(m)
}
