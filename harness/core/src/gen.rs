//! Generators: everything is *constructed* from `Draw` values (no rejection sampling).

use crate::engine::Draw;
use crate::q::{register_angle, Fp, Q};
use crate::refs::*;
use cgmath::{BaseFloat, Matrix2, Matrix3, Matrix4, Point1, Point2, Point3, Quaternion};
use cgmath::{Vector1, Vector2, Vector3, Vector4};

/// An exact scalar tier.
pub trait Sc: BaseFloat + Send + Sync + 'static {
    const NAME: &'static str;
    /// has a meaningful order and exact square roots of squares
    const ORDERED: bool;
    fn gen(d: &mut Draw) -> Self;
    fn gen_nz(d: &mut Draw) -> Self;
    fn i(n: i64) -> Self;
    fn r(n: i64, den: i64) -> Self {
        Self::i(n) / Self::i(den)
    }
}

impl Sc for Q {
    const NAME: &'static str = "Q";
    const ORDERED: bool = true;
    fn gen(d: &mut Draw) -> Q {
        // mostly generic non-zero values; 0 / +-1 now and then
        match d.int(0, 31) {
            0 => Q::int(d.int(-1, 1)),
            1..=23 => Q::int(d.nz_int(-12, 12)),
            _ => {
                let den = d.int(2, 6);
                Q::ratio(d.nz_int(-20, 20), den)
            }
        }
    }
    fn gen_nz(d: &mut Draw) -> Q {
        if d.chance(3, 4) {
            Q::int(d.nz_int(-12, 12))
        } else {
            let den = d.int(2, 6);
            Q::ratio(d.nz_int(-20, 20), den)
        }
    }
    fn i(n: i64) -> Q {
        Q::int(n)
    }
}

impl Sc for Fp {
    const NAME: &'static str = "Fp";
    const ORDERED: bool = false;
    fn gen(d: &mut Draw) -> Fp {
        // small values now and then so that 0/1 coincidences are exercised as well
        if d.chance(1, 32) {
            Fp::int(d.int(-1, 1))
        } else {
            let v = Fp::new(d.bits64() >> 3);
            if v == Fp::ZERO {
                Fp::ONE
            } else {
                v
            }
        }
    }
    fn gen_nz(d: &mut Draw) -> Fp {
        let v = Fp::new(d.bits64() >> 3);
        if v == Fp::ZERO {
            Fp::ONE
        } else {
            v
        }
    }
    fn i(n: i64) -> Fp {
        Fp::int(n)
    }
}

// ---- compound values over an exact tier --------------------------------------------------------

/// Components of one compound value.  One time in eight the value is *structured* instead of generic: every
/// component is 0 (half of them), +-1, or a generic value - axis-aligned vectors, basis quaternions, matrices with zero
/// rows, columns or blocks and with repeated entries.  Exactly degenerate but valid inputs are where fast paths and
/// guards live; independent draws essentially never produce two exact zeros in the same value.
pub fn vec_n<S: Sc>(d: &mut Draw, n: usize) -> Vec<S> {
    if d.int(0, 7) == 0 {
        (0..n)
            .map(|_| match d.int(0, 7) {
                0..=3 => S::zero(),
                4 => S::one(),
                5 => -S::one(),
                _ => S::gen(d),
            })
            .collect()
    } else {
        (0..n).map(|_| S::gen(d)).collect()
    }
}
pub fn gv1<S: Sc>(d: &mut Draw) -> Vector1<S> {
    Vector1::new(S::gen(d))
}
pub fn gv2<S: Sc>(d: &mut Draw) -> Vector2<S> {
    let c = vec_n::<S>(d, 2);
    Vector2::new(c[0], c[1])
}
pub fn gv3<S: Sc>(d: &mut Draw) -> Vector3<S> {
    let c = vec_n::<S>(d, 3);
    Vector3::new(c[0], c[1], c[2])
}
pub fn gv4<S: Sc>(d: &mut Draw) -> Vector4<S> {
    let c = vec_n::<S>(d, 4);
    Vector4::new(c[0], c[1], c[2], c[3])
}
pub fn gp1<S: Sc>(d: &mut Draw) -> Point1<S> {
    Point1::new(S::gen(d))
}
pub fn gp2<S: Sc>(d: &mut Draw) -> Point2<S> {
    let c = vec_n::<S>(d, 2);
    Point2::new(c[0], c[1])
}
pub fn gp3<S: Sc>(d: &mut Draw) -> Point3<S> {
    let c = vec_n::<S>(d, 3);
    Point3::new(c[0], c[1], c[2])
}
pub fn grm<S: Sc>(d: &mut Draw, n: usize) -> RM<S> {
    let mut m = RM::zero(n);
    let e = vec_n::<S>(d, n * n);
    for c in 0..n {
        for r in 0..n {
            m.e[c][r] = e[c * n + r];
        }
    }
    m
}
pub fn gm2<S: Sc>(d: &mut Draw) -> Matrix2<S> {
    mk_m2(&grm(d, 2))
}
pub fn gm3<S: Sc>(d: &mut Draw) -> Matrix3<S> {
    mk_m3(&grm(d, 3))
}
pub fn gm4<S: Sc>(d: &mut Draw) -> Matrix4<S> {
    mk_m4(&grm(d, 4))
}
pub fn gquat<S: Sc>(d: &mut Draw) -> Quaternion<S> {
    let c = vec_n::<S>(d, 4);
    Quaternion::new(c[0], c[1], c[2], c[3])
}

/// all entries non-zero and pairwise different
pub fn generic_entries<S: PartialEq + Copy + num_traits::Zero>(xs: &[S]) -> bool {
    for (i, a) in xs.iter().enumerate() {
        if *a == S::zero() {
            return false;
        }
        for b in &xs[..i] {
            if a == b {
                return false;
            }
        }
    }
    true
}
pub fn all_nonzero<S: PartialEq + Copy + num_traits::Zero>(xs: &[S]) -> bool {
    xs.iter().all(|a| *a != S::zero())
}

// ---- exact geometry (any field in which the norms are invertible) ------------------------------

/// exactly unit quaternion u = p^2/|p|^2 from an arbitrary non-null quaternion p ([w,x,y,z])
pub fn unit_from<S: BaseFloat>(p: &RQ<S>) -> Option<RQ<S>> {
    let n = qnorm2(p);
    if n == S::zero() {
        return None;
    }
    let sq = qmul(p, p);
    Some([sq[0] / n, sq[1] / n, sq[2] / n, sq[3] / n])
}

/// small integer quaternion (not null); `spread` bounds the entries
pub fn int_quat<S: Sc>(d: &mut Draw, spread: i64) -> RQ<S> {
    let mut p = [0i64; 4];
    let structured = d.int(0, 7) == 0;
    for x in p.iter_mut() {
        *x = if structured && d.bool() { 0 } else { d.int(-spread, spread) };
    }
    if p == [0, 0, 0, 0] {
        p[0] = 1;
    }
    [S::i(p[0]), S::i(p[1]), S::i(p[2]), S::i(p[3])]
}

/// exactly unit quaternion over the tier S
pub fn unit_quat<S: Sc>(d: &mut Draw) -> RQ<S> {
    if S::ORDERED {
        let p = int_quat::<S>(d, 6);
        unit_from(&p).unwrap()
    } else {
        // full-size field elements
        loop_free_unit::<S>(d)
    }
}
fn loop_free_unit<S: Sc>(d: &mut Draw) -> RQ<S> {
    let c = vec_n::<S>(d, 4);
    let p = [c[0], c[1], c[2], c[3]];
    match unit_from(&p) {
        Some(u) => u,
        None => [S::one(), S::zero(), S::zero(), S::zero()],
    }
}

/// rational point of the unit circle (cos, sin) from a rational parameter t: ((1-t^2)/(1+t^2), 2t/(1+t^2))
pub fn circle_point<S: Sc>(d: &mut Draw) -> (S, S) {
    let t = if S::ORDERED { S::r(d.int(-9, 9), d.int(1, 7)) } else { S::gen(d) };
    circle_from_t(t)
}
pub fn circle_from_t<S: BaseFloat>(t: S) -> (S, S) {
    let one = S::one();
    let den = one + t * t;
    if den == S::zero() {
        return (one, S::zero());
    }
    ((one - t * t) / den, (t + t) / den)
}

/// rational unit 3-vector: reflection of e_z in the direction p
pub fn unit_vec3<S: Sc>(d: &mut Draw) -> [S; 3] {
    let (a, b, c) = if S::ORDERED {
        let structured = d.int(0, 7) == 0;
        let mut a = if structured && d.bool() { 0 } else { d.int(-7, 7) };
        let b = if structured && d.bool() { 0 } else { d.int(-7, 7) };
        let c = if structured && d.bool() { 0 } else { d.int(-7, 7) };
        if a == 0 && b == 0 && c == 0 {
            a = 1;
        }
        (S::i(a), S::i(b), S::i(c))
    } else {
        let v = vec_n::<S>(d, 3);
        (v[0], v[1], v[2])
    };
    let n = a * a + b * b + c * c;
    if n == S::zero() {
        return [S::zero(), S::zero(), S::one()];
    }
    let two = S::i(2);
    [two * a * c / n, two * b * c / n, (two * c * c - n) / n]
}

/// A named angle for the Q tier: `theta` is only a name, (s, c) an exact point of the unit
/// circle, (sh, ch) the exact half-angle pair.  Both `theta` and `theta/2` are registered.
#[derive(Copy, Clone, Debug)]
pub struct Named {
    pub theta: Q,
    pub s: Q,
    pub c: Q,
    pub sh: Q,
    pub ch: Q,
}
/// `id` must be unique per case (0..=9); names are (2k+1)/7 so that halves and sums never collide
pub fn named_angle(d: &mut Draw, id: i64) -> Named {
    let (ch, sh) = {
        let t = Q::ratio(d.int(-9, 9), d.int(1, 7));
        circle_from_t(t)
    };
    named_from_half(id, d.int(0, 3), sh, ch)
}
/// positive half-angle in (0, pi/2): sin, cos, tan of theta/2 all > 0
pub fn named_angle_pos(d: &mut Draw, id: i64) -> Named {
    let (ch, sh) = {
        let den = d.int(2, 9);
        let t = Q::ratio(d.int(1, den - 1), den); // 0 < t < 1
        circle_from_t(t)
    };
    named_from_half(id, d.int(0, 3), sh, ch)
}
pub fn named_from_half(id: i64, sub: i64, sh: Q, ch: Q) -> Named {
    let k = id * 4 + sub;
    let theta = Q::ratio(2 * k + 1, 7);
    let c = ch * ch - sh * sh;
    let s = Q::int(2) * sh * ch;
    register_angle(theta, s, c);
    register_angle(theta / Q::int(2), sh, ch);
    Named { theta, s, c, sh, ch }
}
/// register theta1 + theta2 (and its half) by the addition formulas
pub fn named_sum(a: &Named, b: &Named) -> Named {
    let theta = a.theta + b.theta;
    let s = a.s * b.c + a.c * b.s;
    let c = a.c * b.c - a.s * b.s;
    let sh = a.sh * b.ch + a.ch * b.sh;
    let ch = a.ch * b.ch - a.sh * b.sh;
    register_angle(theta, s, c);
    register_angle(theta / Q::int(2), sh, ch);
    Named { theta, s, c, sh, ch }
}

// ---- f64 helpers -------------------------------------------------------------------------------

pub fn f_unit3(d: &mut Draw) -> [f64; 3] {
    if d.int(0, 7) == 0 {
        // structured: on a coordinate axis or in a coordinate plane, zeros of either sign
        let mut v = [0.0f64; 3];
        for x in v.iter_mut() {
            *x = match d.int(0, 7) {
                0..=2 => 0.0,
                3 => -0.0,
                4 => 1.0,
                5 => -1.0,
                _ => d.f64_in(-1.0, 1.0),
            };
        }
        return fnormalize3(&v);
    }
    let z = d.f64_in(-1.0, 1.0);
    let phi = d.f64_in(0.0, 2.0 * std::f64::consts::PI);
    let r = (1.0 - z * z).max(0.0).sqrt();
    let v = [r * phi.cos(), r * phi.sin(), z];
    fnormalize3(&v)
}
pub fn fnormalize3(v: &[f64; 3]) -> [f64; 3] {
    let n = (v[0] * v[0] + v[1] * v[1] + v[2] * v[2]).sqrt();
    if n == 0.0 {
        [1.0, 0.0, 0.0]
    } else {
        [v[0] / n, v[1] / n, v[2] / n]
    }
}
/// generic f64 unit quaternion [w,x,y,z]
pub fn f_unit_quat(d: &mut Draw) -> [f64; 4] {
    if d.int(0, 7) == 0 {
        // structured: basis quaternions, pure rotations about a coordinate axis, vanishing components of either sign
        let mut p = [0.0f64; 4];
        for x in p.iter_mut() {
            *x = match d.int(0, 7) {
                0..=2 => 0.0,
                3 => -0.0,
                4 => 1.0,
                5 => -1.0,
                _ => d.f64_in(-1.0, 1.0),
            };
        }
        return fnormalize4(&p);
    }
    let p = [d.gauss(), d.gauss(), d.gauss(), d.gauss()];
    fnormalize4(&p)
}
pub fn fnormalize4(p: &[f64; 4]) -> [f64; 4] {
    let n = (p[0] * p[0] + p[1] * p[1] + p[2] * p[2] + p[3] * p[3]).sqrt();
    if !(n > 1e-300) {
        [1.0, 0.0, 0.0, 0.0]
    } else {
        [p[0] / n, p[1] / n, p[2] / n, p[3] / n]
    }
}
pub fn f_vec3(d: &mut Draw, lo: f64, hi: f64) -> [f64; 3] {
    if d.int(0, 7) == 0 {
        let mut v = [0.0f64; 3];
        for x in v.iter_mut() {
            *x = match d.int(0, 5) {
                0 | 1 => 0.0,
                2 => -0.0,
                3 => 1.0,
                _ => d.f64_in(lo, hi),
            };
        }
        return v;
    }
    [d.f64_in(lo, hi), d.f64_in(lo, hi), d.f64_in(lo, hi)]
}
