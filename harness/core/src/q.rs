//! Exact scalar tiers plugged into cgmath's generics:
//!  * `Q`  — rationals i128/i128, every operation checked; overflow / irrational sqrt /
//!           unregistered angle => *taint* (case is discarded, never a verdict)
//!  * `Fp` — the prime field p = 2^61-1 (for polynomial identities; order is meaningless)
//!
//! Both implement `num_traits::Float` + the `approx` traits, so `S: BaseFloat` code in cgmath is
//! instantiated with them unchanged.

use crate::engine::taint;
use num_traits::{Float, Num, NumCast, One, ToPrimitive, Zero};
use std::cell::RefCell;
use std::cmp::Ordering;
use std::fmt;
use std::num::FpCategory;
use std::ops::*;

// ------------------------------------------------------------------------------------------------
// Q

#[derive(Copy, Clone, PartialEq, Eq, Hash)]
pub struct Q {
    n: i128,
    d: i128, // > 0, gcd(n, d) == 1
}

impl fmt::Debug for Q {
    fn fmt(&self, f: &mut fmt::Formatter) -> fmt::Result {
        if self.d == 1 {
            write!(f, "{}", self.n)
        } else {
            write!(f, "{}/{}", self.n, self.d)
        }
    }
}

#[inline]
fn gcd_u64(mut a: u64, mut b: u64) -> u64 {
    while b != 0 {
        let t = a % b;
        a = b;
        b = t;
    }
    a
}
fn gcd_u128(mut a: u128, mut b: u128) -> u128 {
    if a <= u64::MAX as u128 && b <= u64::MAX as u128 {
        return gcd_u64(a as u64, b as u64) as u128;
    }
    if a == 0 {
        return b;
    }
    if b == 0 {
        return a;
    }
    let shift = (a | b).trailing_zeros();
    a >>= a.trailing_zeros();
    loop {
        b >>= b.trailing_zeros();
        if a > b {
            std::mem::swap(&mut a, &mut b);
        }
        b -= a;
        if b == 0 {
            break;
        }
        if a <= u64::MAX as u128 && b <= u64::MAX as u128 {
            return (gcd_u64(a as u64, b as u64) as u128) << shift;
        }
    }
    a << shift
}

const LIM: i128 = 1i128 << 120;

impl Q {
    pub const ZERO: Q = Q { n: 0, d: 1 };
    pub const ONE: Q = Q { n: 1, d: 1 };
    #[inline]
    pub fn int(n: i64) -> Q {
        Q { n: n as i128, d: 1 }
    }
    pub fn new(n: i128, d: i128) -> Q {
        if d == 0 {
            taint("Q: zero denominator");
            return Q::ZERO;
        }
        Q::norm(n, d)
    }
    #[inline]
    pub fn ratio(n: i64, d: i64) -> Q {
        Q::new(n as i128, d as i128)
    }
    pub fn num(&self) -> i128 {
        self.n
    }
    pub fn den(&self) -> i128 {
        self.d
    }
    #[inline]
    fn norm(mut n: i128, mut d: i128) -> Q {
        if d < 0 {
            n = -n;
            d = -d;
        }
        if n == 0 {
            return Q::ZERO;
        }
        let g = gcd_u128(n.unsigned_abs(), d as u128) as i128;
        if g > 1 {
            n /= g;
            d /= g;
        }
        if n > LIM || n < -LIM || d > LIM {
            taint("Q: overflow");
            return Q::ZERO;
        }
        Q { n, d }
    }
    #[inline]
    fn add_(self, o: Q) -> Q {
        if self.d == 1 && o.d == 1 {
            return match self.n.checked_add(o.n) {
                Some(n) if n.abs() <= LIM => Q { n, d: 1 },
                _ => {
                    taint("Q: overflow");
                    Q::ZERO
                }
            };
        }
        let a = self.n.checked_mul(o.d);
        let b = o.n.checked_mul(self.d);
        let d = self.d.checked_mul(o.d);
        match (a, b, d) {
            (Some(a), Some(b), Some(d)) => match a.checked_add(b) {
                Some(n) => Q::norm(n, d),
                None => {
                    taint("Q: overflow");
                    Q::ZERO
                }
            },
            _ => {
                taint("Q: overflow");
                Q::ZERO
            }
        }
    }
    #[inline]
    fn neg_(self) -> Q {
        Q { n: -self.n, d: self.d }
    }
    #[inline]
    fn sub_(self, o: Q) -> Q {
        self.add_(o.neg_())
    }
    #[inline]
    fn mul_(self, o: Q) -> Q {
        match (self.n.checked_mul(o.n), self.d.checked_mul(o.d)) {
            (Some(n), Some(d)) => Q::norm(n, d),
            _ => {
                taint("Q: overflow");
                Q::ZERO
            }
        }
    }
    #[inline]
    fn div_(self, o: Q) -> Q {
        if o.n == 0 {
            taint("Q: division by zero");
            return Q::ZERO;
        }
        match (self.n.checked_mul(o.d), self.d.checked_mul(o.n)) {
            (Some(n), Some(d)) => Q::norm(n, d),
            _ => {
                taint("Q: overflow");
                Q::ZERO
            }
        }
    }
    fn trunc_(self) -> Q {
        Q { n: self.n / self.d, d: 1 }
    }
    fn floor_(self) -> Q {
        Q { n: self.n.div_euclid(self.d), d: 1 }
    }
    /// remainder with the sign of the dividend (like `%` on floats and integers)
    fn rem_(self, o: Q) -> Q {
        if o.n == 0 {
            taint("Q: remainder by zero");
            return Q::ZERO;
        }
        let q = self.div_(o).trunc_();
        self.sub_(q.mul_(o))
    }
    fn cmp_(&self, o: &Q) -> Ordering {
        if self.d == o.d {
            return self.n.cmp(&o.n);
        }
        match (self.n.checked_mul(o.d), o.n.checked_mul(self.d)) {
            (Some(a), Some(b)) => a.cmp(&b),
            _ => {
                taint("Q: overflow in comparison");
                Ordering::Equal
            }
        }
    }
    fn isqrt(v: u128) -> Option<u128> {
        if v == 0 {
            return Some(0);
        }
        let mut x = (v as f64).sqrt() as u128;
        // fix up the floating point estimate
        while x.checked_mul(x).map_or(true, |s| s > v) {
            x -= 1;
        }
        while (x + 1).checked_mul(x + 1).map_or(false, |s| s <= v) {
            x += 1;
        }
        if x * x == v {
            Some(x)
        } else {
            None
        }
    }
    fn sqrt_(self) -> Q {
        if self.n < 0 {
            taint("Q: sqrt of negative");
            return Q::ZERO;
        }
        match (Q::isqrt(self.n as u128), Q::isqrt(self.d as u128)) {
            (Some(a), Some(b)) => Q { n: a as i128, d: b as i128 },
            _ => {
                taint("Q: irrational sqrt");
                Q::ZERO
            }
        }
    }
    pub fn is_square(self) -> bool {
        self.n >= 0 && Q::isqrt(self.n as u128).is_some() && Q::isqrt(self.d as u128).is_some()
    }
    pub fn from_f64_(f: f64) -> Q {
        if !f.is_finite() {
            taint("Q: non-finite constant");
            return Q::ZERO;
        }
        if f == 0.0 {
            return Q::ZERO;
        }
        let bits = f.to_bits();
        let sign: i128 = if bits >> 63 == 1 { -1 } else { 1 };
        let exp = ((bits >> 52) & 0x7ff) as i32;
        let frac = (bits & ((1u64 << 52) - 1)) as i128;
        let (mant, e) = if exp == 0 { (frac, -1074) } else { (frac | (1i128 << 52), exp - 1075) };
        // value = mant * 2^e
        let tz = mant.trailing_zeros() as i32;
        let mant = mant >> tz;
        let e = e + tz;
        if e >= 0 {
            if e > 60 {
                taint("Q: constant too large");
                return Q::ZERO;
            }
            Q { n: sign * (mant << e), d: 1 }
        } else {
            if -e > 110 {
                taint("Q: constant too fine");
                return Q::ZERO;
            }
            Q::norm(sign * mant, 1i128 << (-e))
        }
    }
    pub fn to_f64_(self) -> f64 {
        self.n as f64 / self.d as f64
    }
    fn sin_cos_(self) -> (Q, Q) {
        lookup_angle(self)
    }
    #[inline]
    pub fn is_zero_(&self) -> bool {
        self.n == 0
    }
    pub fn abs_(self) -> Q {
        Q { n: self.n.abs(), d: self.d }
    }
}

// named-angle registry: theta (a rational used purely as a name) -> (sin, cos)
thread_local! {
    static ANGLES: RefCell<Vec<(Q, Q, Q)>> = RefCell::new(Vec::new());
}
pub fn reset_registry() {
    ANGLES.with(|a| a.borrow_mut().clear());
}
/// register `theta` with the given exact (sin, cos); sin^2 + cos^2 must be 1
pub fn register_angle(theta: Q, s: Q, c: Q) {
    debug_assert!(s * s + c * c == Q::ONE);
    ANGLES.with(|a| a.borrow_mut().push((theta, s, c)));
}
fn lookup_angle(theta: Q) -> (Q, Q) {
    if theta.n == 0 {
        return (Q::ZERO, Q::ONE);
    }
    ANGLES.with(|a| {
        let a = a.borrow();
        for (t, s, c) in a.iter() {
            if *t == theta {
                return (*s, *c);
            }
        }
        let neg = theta.neg_();
        for (t, s, c) in a.iter() {
            if *t == neg {
                return (s.neg_(), *c);
            }
        }
        taint("Q: unregistered angle");
        (Q::ZERO, Q::ONE)
    })
}

// ------------------------------------------------------------------------------------------------
// Fp, p = 2^61 - 1

pub const P: u64 = (1u64 << 61) - 1;

#[derive(Copy, Clone, PartialEq, Eq, Hash)]
pub struct Fp(pub u64);

impl fmt::Debug for Fp {
    fn fmt(&self, f: &mut fmt::Formatter) -> fmt::Result {
        write!(f, "{}p", self.0)
    }
}

impl Fp {
    pub const ZERO: Fp = Fp(0);
    pub const ONE: Fp = Fp(1);
    #[inline]
    pub fn new(v: u64) -> Fp {
        Fp(v % P)
    }
    #[inline]
    pub fn int(n: i64) -> Fp {
        if n >= 0 {
            Fp((n as u64) % P)
        } else {
            Fp(P - ((n.unsigned_abs()) % P)).red()
        }
    }
    #[inline]
    fn red(self) -> Fp {
        if self.0 >= P {
            Fp(self.0 - P)
        } else {
            self
        }
    }
    #[inline]
    fn add_(self, o: Fp) -> Fp {
        Fp(self.0 + o.0).red()
    }
    #[inline]
    fn neg_(self) -> Fp {
        if self.0 == 0 {
            self
        } else {
            Fp(P - self.0)
        }
    }
    #[inline]
    fn sub_(self, o: Fp) -> Fp {
        self.add_(o.neg_())
    }
    #[inline]
    fn mul_(self, o: Fp) -> Fp {
        let m = self.0 as u128 * o.0 as u128;
        // reduce modulo the Mersenne prime
        let lo = (m & P as u128) as u64;
        let hi = (m >> 61) as u64;
        let mut s = lo + hi;
        if s >= P {
            s -= P;
        }
        if s >= P {
            s -= P;
        }
        Fp(s)
    }
    fn pow_(self, mut e: u64) -> Fp {
        let mut b = self;
        let mut r = Fp::ONE;
        while e > 0 {
            if e & 1 == 1 {
                r = r.mul_(b);
            }
            b = b.mul_(b);
            e >>= 1;
        }
        r
    }
    fn inv_(self) -> Fp {
        self.pow_(P - 2)
    }
    #[inline]
    fn div_(self, o: Fp) -> Fp {
        if o.0 == 0 {
            taint("Fp: division by zero");
            return Fp::ZERO;
        }
        self.mul_(o.inv_())
    }
    fn rem_(self, _o: Fp) -> Fp {
        taint("Fp: remainder is meaningless in a field");
        Fp::ZERO
    }
    fn cmp_(&self, o: &Fp) -> Ordering {
        // no meaningful order: equality is exact, anything else taints
        if self.0 == o.0 {
            Ordering::Equal
        } else {
            taint("Fp: order comparison");
            self.0.cmp(&o.0)
        }
    }
    fn sqrt_(self) -> Fp {
        taint("Fp: sqrt");
        Fp::ZERO
    }
    fn from_f64_(f: f64) -> Fp {
        // dyadic rationals map exactly (2 is invertible)
        if !f.is_finite() {
            taint("Fp: non-finite constant");
            return Fp::ZERO;
        }
        if f == 0.0 {
            return Fp::ZERO;
        }
        let q = Q::from_f64_(f);
        Fp::from_q(q)
    }
    pub fn from_q(q: Q) -> Fp {
        let n = q.num();
        let d = q.den();
        let nn = Fp(((n.unsigned_abs()) % P as u128) as u64);
        let nn = if n < 0 { nn.neg_() } else { nn };
        let dd = Fp((d as u128 % P as u128) as u64);
        nn.div_(dd)
    }
    fn to_f64_(self) -> f64 {
        self.0 as f64
    }
    fn sin_cos_(self) -> (Fp, Fp) {
        taint("Fp: trigonometry");
        (Fp::ZERO, Fp::ONE)
    }
    fn trunc_(self) -> Fp {
        taint("Fp: trunc");
        self
    }
    fn floor_(self) -> Fp {
        taint("Fp: floor");
        self
    }
    fn abs_(self) -> Fp {
        taint("Fp: abs");
        self
    }
    #[inline]
    pub fn is_zero_(&self) -> bool {
        self.0 == 0
    }
}

// ------------------------------------------------------------------------------------------------
// trait boilerplate shared by both

macro_rules! impl_exact {
    ($T:ident) => {
        impl Add for $T {
            type Output = $T;
            #[inline]
            fn add(self, o: $T) -> $T {
                self.add_(o)
            }
        }
        impl Sub for $T {
            type Output = $T;
            #[inline]
            fn sub(self, o: $T) -> $T {
                self.sub_(o)
            }
        }
        impl Mul for $T {
            type Output = $T;
            #[inline]
            fn mul(self, o: $T) -> $T {
                self.mul_(o)
            }
        }
        impl Div for $T {
            type Output = $T;
            #[inline]
            fn div(self, o: $T) -> $T {
                self.div_(o)
            }
        }
        impl Rem for $T {
            type Output = $T;
            #[inline]
            fn rem(self, o: $T) -> $T {
                self.rem_(o)
            }
        }
        impl Neg for $T {
            type Output = $T;
            #[inline]
            fn neg(self) -> $T {
                self.neg_()
            }
        }
        impl AddAssign for $T {
            #[inline]
            fn add_assign(&mut self, o: $T) {
                *self = self.add_(o)
            }
        }
        impl SubAssign for $T {
            #[inline]
            fn sub_assign(&mut self, o: $T) {
                *self = self.sub_(o)
            }
        }
        impl MulAssign for $T {
            #[inline]
            fn mul_assign(&mut self, o: $T) {
                *self = self.mul_(o)
            }
        }
        impl DivAssign for $T {
            #[inline]
            fn div_assign(&mut self, o: $T) {
                *self = self.div_(o)
            }
        }
        impl RemAssign for $T {
            #[inline]
            fn rem_assign(&mut self, o: $T) {
                *self = self.rem_(o)
            }
        }
        impl PartialOrd for $T {
            #[inline]
            fn partial_cmp(&self, o: &$T) -> Option<Ordering> {
                Some(self.cmp_(o))
            }
        }
        impl Zero for $T {
            #[inline]
            fn zero() -> $T {
                $T::ZERO
            }
            #[inline]
            fn is_zero(&self) -> bool {
                self.is_zero_()
            }
        }
        impl One for $T {
            #[inline]
            fn one() -> $T {
                $T::ONE
            }
        }
        impl Num for $T {
            type FromStrRadixErr = ();
            fn from_str_radix(_: &str, _: u32) -> Result<$T, ()> {
                Err(())
            }
        }
        impl ToPrimitive for $T {
            fn to_i64(&self) -> Option<i64> {
                let f = self.to_f64_();
                if f.fract() == 0.0 && f.abs() < 9.0e18 {
                    Some(f as i64)
                } else {
                    None
                }
            }
            fn to_u64(&self) -> Option<u64> {
                let f = self.to_f64_();
                if f.fract() == 0.0 && f >= 0.0 && f < 1.8e19 {
                    Some(f as u64)
                } else {
                    None
                }
            }
            fn to_f64(&self) -> Option<f64> {
                Some(self.to_f64_())
            }
        }
        impl NumCast for $T {
            fn from<N: ToPrimitive>(n: N) -> Option<$T> {
                // integers convert exactly; floats through their exact dyadic value
                let f = n.to_f64()?;
                if !f.is_finite() {
                    // an exact scalar has no NaN or infinity: the conversion fails, as NaN -> integer does
                    return None;
                }
                if let Some(i) = n.to_i64() {
                    if i as f64 == f {
                        return Some($T::int(i));
                    }
                }
                Some($T::from_f64_(f))
            }
        }
        impl Float for $T {
            fn nan() -> $T {
                taint("exact: nan");
                $T::ZERO
            }
            fn infinity() -> $T {
                taint("exact: infinity");
                $T::ZERO
            }
            fn neg_infinity() -> $T {
                taint("exact: infinity");
                $T::ZERO
            }
            fn neg_zero() -> $T {
                $T::ZERO
            }
            fn min_value() -> $T {
                taint("exact: min_value");
                $T::ZERO
            }
            fn min_positive_value() -> $T {
                taint("exact: min_positive_value");
                $T::ZERO
            }
            fn epsilon() -> $T {
                $T::ZERO
            }
            fn max_value() -> $T {
                taint("exact: max_value");
                $T::ZERO
            }
            fn is_nan(self) -> bool {
                false
            }
            fn is_infinite(self) -> bool {
                false
            }
            fn is_finite(self) -> bool {
                true
            }
            fn is_normal(self) -> bool {
                !self.is_zero_()
            }
            fn classify(self) -> FpCategory {
                if self.is_zero_() {
                    FpCategory::Zero
                } else {
                    FpCategory::Normal
                }
            }
            fn floor(self) -> $T {
                self.floor_()
            }
            fn ceil(self) -> $T {
                self.neg_().floor_().neg_()
            }
            fn round(self) -> $T {
                taint("exact: round");
                self
            }
            fn trunc(self) -> $T {
                self.trunc_()
            }
            fn fract(self) -> $T {
                self.sub_(self.trunc_())
            }
            fn abs(self) -> $T {
                self.abs_()
            }
            fn signum(self) -> $T {
                match self.cmp_(&$T::ZERO) {
                    Ordering::Less => $T::ONE.neg_(),
                    _ => $T::ONE,
                }
            }
            fn is_sign_positive(self) -> bool {
                self.cmp_(&$T::ZERO) != Ordering::Less
            }
            fn is_sign_negative(self) -> bool {
                self.cmp_(&$T::ZERO) == Ordering::Less
            }
            fn mul_add(self, a: $T, b: $T) -> $T {
                self.mul_(a).add_(b)
            }
            fn recip(self) -> $T {
                $T::ONE.div_(self)
            }
            fn powi(self, n: i32) -> $T {
                let mut r = $T::ONE;
                for _ in 0..n.unsigned_abs() {
                    r = r.mul_(self);
                }
                if n < 0 {
                    $T::ONE.div_(r)
                } else {
                    r
                }
            }
            fn powf(self, _: $T) -> $T {
                taint("exact: powf");
                $T::ZERO
            }
            fn sqrt(self) -> $T {
                self.sqrt_()
            }
            fn exp(self) -> $T {
                taint("exact: exp");
                $T::ZERO
            }
            fn exp2(self) -> $T {
                taint("exact: exp2");
                $T::ZERO
            }
            fn ln(self) -> $T {
                taint("exact: ln");
                $T::ZERO
            }
            fn log(self, _: $T) -> $T {
                taint("exact: log");
                $T::ZERO
            }
            fn log2(self) -> $T {
                taint("exact: log2");
                $T::ZERO
            }
            fn log10(self) -> $T {
                taint("exact: log10");
                $T::ZERO
            }
            fn max(self, o: $T) -> $T {
                if self.cmp_(&o) == Ordering::Less {
                    o
                } else {
                    self
                }
            }
            fn min(self, o: $T) -> $T {
                if o.cmp_(&self) == Ordering::Less {
                    o
                } else {
                    self
                }
            }
            fn abs_sub(self, o: $T) -> $T {
                let d = self.sub_(o);
                if d.cmp_(&$T::ZERO) == Ordering::Less {
                    $T::ZERO
                } else {
                    d
                }
            }
            fn cbrt(self) -> $T {
                taint("exact: cbrt");
                $T::ZERO
            }
            fn hypot(self, o: $T) -> $T {
                self.mul_(self).add_(o.mul_(o)).sqrt_()
            }
            fn sin(self) -> $T {
                self.sin_cos_().0
            }
            fn cos(self) -> $T {
                self.sin_cos_().1
            }
            fn tan(self) -> $T {
                let (s, c) = self.sin_cos_();
                s.div_(c)
            }
            fn asin(self) -> $T {
                taint("exact: asin");
                $T::ZERO
            }
            fn acos(self) -> $T {
                taint("exact: acos");
                $T::ZERO
            }
            fn atan(self) -> $T {
                taint("exact: atan");
                $T::ZERO
            }
            fn atan2(self, _: $T) -> $T {
                taint("exact: atan2");
                $T::ZERO
            }
            fn sin_cos(self) -> ($T, $T) {
                self.sin_cos_()
            }
            fn exp_m1(self) -> $T {
                taint("exact: exp_m1");
                $T::ZERO
            }
            fn ln_1p(self) -> $T {
                taint("exact: ln_1p");
                $T::ZERO
            }
            fn sinh(self) -> $T {
                taint("exact: sinh");
                $T::ZERO
            }
            fn cosh(self) -> $T {
                taint("exact: cosh");
                $T::ZERO
            }
            fn tanh(self) -> $T {
                taint("exact: tanh");
                $T::ZERO
            }
            fn asinh(self) -> $T {
                taint("exact: asinh");
                $T::ZERO
            }
            fn acosh(self) -> $T {
                taint("exact: acosh");
                $T::ZERO
            }
            fn atanh(self) -> $T {
                taint("exact: atanh");
                $T::ZERO
            }
            fn integer_decode(self) -> (u64, i16, i8) {
                taint("exact: integer_decode");
                (0, 0, 1)
            }
        }
        // approximate equality degenerates to exact equality unless a tolerance is passed
        impl approx::AbsDiffEq for $T {
            type Epsilon = $T;
            fn default_epsilon() -> $T {
                $T::ZERO
            }
            fn abs_diff_eq(&self, o: &$T, eps: $T) -> bool {
                if *self == *o {
                    return true;
                }
                if eps.is_zero_() {
                    return false;
                }
                self.sub_(*o).abs_().cmp_(&eps) != Ordering::Greater
            }
        }
        impl approx::RelativeEq for $T {
            fn default_max_relative() -> $T {
                $T::ZERO
            }
            fn relative_eq(&self, o: &$T, eps: $T, rel: $T) -> bool {
                if *self == *o {
                    return true;
                }
                if eps.is_zero_() && rel.is_zero_() {
                    return false;
                }
                let diff = self.sub_(*o).abs_();
                if diff.cmp_(&eps) != Ordering::Greater {
                    return true;
                }
                let a = self.abs_();
                let b = o.abs_();
                let largest = if b.cmp_(&a) == Ordering::Greater { b } else { a };
                diff.cmp_(&largest.mul_(rel)) != Ordering::Greater
            }
        }
        impl approx::UlpsEq for $T {
            fn default_max_ulps() -> u32 {
                4
            }
            fn ulps_eq(&self, o: &$T, eps: $T, _ulps: u32) -> bool {
                approx::AbsDiffEq::abs_diff_eq(self, o, eps)
            }
        }
    };
}

impl_exact!(Q);
impl_exact!(Fp);
