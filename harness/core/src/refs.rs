//! Reference implementations on plain arrays, written from the textbook definitions.
//! They share no code with cgmath; they only use `+ - * /` of the scalar.

use cgmath::{BaseFloat, Matrix2, Matrix3, Matrix4, Quaternion, Vector2, Vector3, Vector4};
use std::fmt;

/// n x n matrix, `e[c][r]` = element in column c, row r
#[derive(Copy, Clone, PartialEq)]
pub struct RM<S> {
    pub n: usize,
    pub e: [[S; 4]; 4],
}

impl<S: fmt::Debug> fmt::Debug for RM<S> {
    fn fmt(&self, f: &mut fmt::Formatter) -> fmt::Result {
        write!(f, "cols[")?;
        for c in 0..self.n {
            write!(f, "{:?}", &self.e[c][..self.n])?;
        }
        write!(f, "]")
    }
}

impl<S: BaseFloat> RM<S> {
    pub fn zero(n: usize) -> RM<S> {
        RM { n, e: [[S::zero(); 4]; 4] }
    }
    pub fn ident(n: usize) -> RM<S> {
        let mut m = RM::zero(n);
        for i in 0..n {
            m.e[i][i] = S::one();
        }
        m
    }
    pub fn from_fn(n: usize, mut f: impl FnMut(usize, usize) -> S) -> RM<S> {
        let mut m = RM::zero(n);
        for c in 0..n {
            for r in 0..n {
                m.e[c][r] = f(c, r);
            }
        }
        m
    }
    pub fn at(&self, c: usize, r: usize) -> S {
        self.e[c][r]
    }
    pub fn mul(&self, o: &RM<S>) -> RM<S> {
        let n = self.n;
        RM::from_fn(n, |c, r| {
            let mut s = S::zero();
            for k in 0..n {
                s = s + self.e[k][r] * o.e[c][k];
            }
            s
        })
    }
    pub fn mulv(&self, v: &[S]) -> Vec<S> {
        let n = self.n;
        (0..n)
            .map(|r| {
                let mut s = S::zero();
                for c in 0..n {
                    s = s + self.e[c][r] * v[c];
                }
                s
            })
            .collect()
    }
    pub fn transpose(&self) -> RM<S> {
        RM::from_fn(self.n, |c, r| self.e[r][c])
    }
    pub fn add(&self, o: &RM<S>) -> RM<S> {
        RM::from_fn(self.n, |c, r| self.e[c][r] + o.e[c][r])
    }
    pub fn sub(&self, o: &RM<S>) -> RM<S> {
        RM::from_fn(self.n, |c, r| self.e[c][r] - o.e[c][r])
    }
    pub fn scale(&self, s: S) -> RM<S> {
        RM::from_fn(self.n, |c, r| self.e[c][r] * s)
    }
    pub fn map(&self, mut f: impl FnMut(S) -> S) -> RM<S> {
        RM::from_fn(self.n, |c, r| f(self.e[c][r]))
    }
    /// Leibniz expansion over all permutations
    pub fn det(&self) -> S {
        let n = self.n;
        let mut idx: Vec<usize> = (0..n).collect();
        let mut total = S::zero();
        permute(&mut idx, 0, &mut |p: &[usize], sign: bool| {
            let mut t = S::one();
            for c in 0..n {
                t = t * self.e[c][p[c]];
            }
            if sign {
                total = total + t;
            } else {
                total = total - t;
            }
        });
        total
    }
    /// embed into a larger identity matrix
    pub fn embed(&self, n: usize) -> RM<S> {
        let mut m = RM::ident(n);
        for c in 0..self.n {
            for r in 0..self.n {
                m.e[c][r] = self.e[c][r];
            }
        }
        m
    }
    pub fn block(&self, n: usize) -> RM<S> {
        RM::from_fn(n, |c, r| self.e[c][r])
    }
    pub fn is_symmetric_exact(&self) -> bool {
        *self == self.transpose()
    }
    pub fn all_nonzero(&self) -> bool {
        (0..self.n).all(|c| (0..self.n).all(|r| self.e[c][r] != S::zero()))
    }
    pub fn max_abs_diff(&self, o: &RM<S>) -> S {
        let mut m = S::zero();
        for c in 0..self.n {
            for r in 0..self.n {
                let d = (self.e[c][r] - o.e[c][r]).abs();
                // a NaN anywhere makes the whole difference a NaN (which no tolerance admits) instead of being skipped
                #[allow(clippy::eq_op)]
                if d != d {
                    return d;
                }
                if d > m {
                    m = d;
                }
            }
        }
        m
    }
}

fn permute(idx: &mut Vec<usize>, k: usize, f: &mut impl FnMut(&[usize], bool)) {
    // generate all permutations with their parity (true = even)
    fn go(idx: &mut Vec<usize>, k: usize, even: bool, f: &mut impl FnMut(&[usize], bool)) {
        if k == idx.len() {
            f(idx, even);
            return;
        }
        for i in k..idx.len() {
            idx.swap(k, i);
            go(idx, k + 1, if i == k { even } else { !even }, f);
            idx.swap(k, i);
        }
    }
    go(idx, k, true, f)
}

pub trait ToRM<S> {
    fn rm(&self) -> RM<S>;
}
impl<S: BaseFloat> ToRM<S> for Matrix2<S> {
    fn rm(&self) -> RM<S> {
        let cols = [self.x, self.y];
        RM::from_fn(2, |c, r| [cols[c].x, cols[c].y][r])
    }
}
impl<S: BaseFloat> ToRM<S> for Matrix3<S> {
    fn rm(&self) -> RM<S> {
        let cols = [self.x, self.y, self.z];
        RM::from_fn(3, |c, r| [cols[c].x, cols[c].y, cols[c].z][r])
    }
}
impl<S: BaseFloat> ToRM<S> for Matrix4<S> {
    fn rm(&self) -> RM<S> {
        let cols = [self.x, self.y, self.z, self.w];
        RM::from_fn(4, |c, r| [cols[c].x, cols[c].y, cols[c].z, cols[c].w][r])
    }
}

pub fn v2<S: Copy>(v: Vector2<S>) -> [S; 2] {
    [v.x, v.y]
}
pub fn v3<S: Copy>(v: Vector3<S>) -> [S; 3] {
    [v.x, v.y, v.z]
}
pub fn v4<S: Copy>(v: Vector4<S>) -> [S; 4] {
    [v.x, v.y, v.z, v.w]
}
pub fn mk_v2<S: Copy>(a: &[S]) -> Vector2<S> {
    Vector2 { x: a[0], y: a[1] }
}
pub fn mk_v3<S: Copy>(a: &[S]) -> Vector3<S> {
    Vector3 { x: a[0], y: a[1], z: a[2] }
}
pub fn mk_v4<S: Copy>(a: &[S]) -> Vector4<S> {
    Vector4 { x: a[0], y: a[1], z: a[2], w: a[3] }
}
pub fn mk_m2<S: Copy>(m: &RM<S>) -> Matrix2<S> {
    Matrix2 { x: mk_v2(&m.e[0]), y: mk_v2(&m.e[1]) }
}
pub fn mk_m3<S: Copy>(m: &RM<S>) -> Matrix3<S> {
    Matrix3 { x: mk_v3(&m.e[0]), y: mk_v3(&m.e[1]), z: mk_v3(&m.e[2]) }
}
pub fn mk_m4<S: Copy>(m: &RM<S>) -> Matrix4<S> {
    Matrix4 { x: mk_v4(&m.e[0]), y: mk_v4(&m.e[1]), z: mk_v4(&m.e[2]), w: mk_v4(&m.e[3]) }
}

// ---- vectors -----------------------------------------------------------------------------------

pub fn dotn<S: BaseFloat>(a: &[S], b: &[S]) -> S {
    let mut s = S::zero();
    for i in 0..a.len() {
        s = s + a[i] * b[i];
    }
    s
}
pub fn cross3<S: BaseFloat>(a: &[S; 3], b: &[S; 3]) -> [S; 3] {
    [a[1] * b[2] - a[2] * b[1], a[2] * b[0] - a[0] * b[2], a[0] * b[1] - a[1] * b[0]]
}
pub fn add3<S: BaseFloat>(a: &[S; 3], b: &[S; 3]) -> [S; 3] {
    [a[0] + b[0], a[1] + b[1], a[2] + b[2]]
}
pub fn sub3<S: BaseFloat>(a: &[S; 3], b: &[S; 3]) -> [S; 3] {
    [a[0] - b[0], a[1] - b[1], a[2] - b[2]]
}
pub fn scale3<S: BaseFloat>(a: &[S; 3], s: S) -> [S; 3] {
    [a[0] * s, a[1] * s, a[2] * s]
}

// ---- quaternions: [w, x, y, z] -----------------------------------------------------------------

pub type RQ<S> = [S; 4];

pub fn rq<S: Copy>(q: &Quaternion<S>) -> RQ<S> {
    [q.s, q.v.x, q.v.y, q.v.z]
}
pub fn mk_q<S: Copy>(q: &RQ<S>) -> Quaternion<S> {
    Quaternion { s: q[0], v: Vector3 { x: q[1], y: q[2], z: q[3] } }
}
/// Hamilton product through the left-multiplication matrix L(p) acting on q
pub fn qmul<S: BaseFloat>(p: &RQ<S>, q: &RQ<S>) -> RQ<S> {
    let (a, b, c, d) = (p[0], p[1], p[2], p[3]);
    let l = [
        [a, -b, -c, -d], //
        [b, a, -d, c],
        [c, d, a, -b],
        [d, -c, b, a],
    ];
    let mut out = [S::zero(); 4];
    for r in 0..4 {
        for k in 0..4 {
            out[r] = out[r] + l[r][k] * q[k];
        }
    }
    out
}
pub fn qconj<S: BaseFloat>(p: &RQ<S>) -> RQ<S> {
    [p[0], -p[1], -p[2], -p[3]]
}
pub fn qnorm2<S: BaseFloat>(p: &RQ<S>) -> S {
    p[0] * p[0] + p[1] * p[1] + p[2] * p[2] + p[3] * p[3]
}
/// rotation matrix of a unit quaternion (textbook form, e[c][r])
pub fn qmat<S: BaseFloat>(q: &RQ<S>) -> RM<S> {
    let (w, x, y, z) = (q[0], q[1], q[2], q[3]);
    let two = S::one() + S::one();
    // rows of the matrix
    let rows = [
        [S::one() - two * (y * y + z * z), two * (x * y - w * z), two * (x * z + w * y)],
        [two * (x * y + w * z), S::one() - two * (x * x + z * z), two * (y * z - w * x)],
        [two * (x * z - w * y), two * (y * z + w * x), S::one() - two * (x * x + y * y)],
    ];
    RM::from_fn(3, |c, r| rows[r][c])
}
/// v rotated by unit q, via q (0,v) q*
pub fn qrot<S: BaseFloat>(q: &RQ<S>, v: &[S; 3]) -> [S; 3] {
    let p = [S::zero(), v[0], v[1], v[2]];
    let r = qmul(&qmul(q, &p), &qconj(q));
    [r[1], r[2], r[3]]
}
/// Rodrigues: v cos t + (a x v) sin t + a (a.v)(1 - cos t)
pub fn rodrigues<S: BaseFloat>(a: &[S; 3], s: S, c: S, v: &[S; 3]) -> [S; 3] {
    let axv = cross3(a, v);
    let adv = dotn(a, v);
    let k = adv * (S::one() - c);
    [
        v[0] * c + axv[0] * s + a[0] * k,
        v[1] * c + axv[1] * s + a[1] * k,
        v[2] * c + axv[2] * s + a[2] * k,
    ]
}
/// matrix of the rotation about unit axis a with the given (sin, cos)
pub fn axis_angle_mat<S: BaseFloat>(a: &[S; 3], s: S, c: S) -> RM<S> {
    let ex = rodrigues(a, s, c, &[S::one(), S::zero(), S::zero()]);
    let ey = rodrigues(a, s, c, &[S::zero(), S::one(), S::zero()]);
    let ez = rodrigues(a, s, c, &[S::zero(), S::zero(), S::one()]);
    let cols = [ex, ey, ez];
    RM::from_fn(3, |c, r| cols[c][r])
}
pub fn rot_x<S: BaseFloat>(s: S, c: S) -> RM<S> {
    axis_angle_mat(&[S::one(), S::zero(), S::zero()], s, c)
}
pub fn rot_y<S: BaseFloat>(s: S, c: S) -> RM<S> {
    axis_angle_mat(&[S::zero(), S::one(), S::zero()], s, c)
}
pub fn rot_z<S: BaseFloat>(s: S, c: S) -> RM<S> {
    axis_angle_mat(&[S::zero(), S::zero(), S::one()], s, c)
}
