//! small traits shared by several property crates
use crate::q::Q;
use cgmath::{Basis2, Basis3, BaseFloat, Deg, Matrix2, Matrix3, Matrix4, Point1, Point2, Point3, Quaternion, Rad};
use cgmath::{Vector1, Vector2, Vector3, Vector4};
use std::fmt::Debug;

pub trait Comp<S>: Sized + Copy + Debug + PartialEq {
    const N: usize;
    const NAME: &'static str;
    fn from_s(a: &[S]) -> Self;
    fn comps(&self) -> Vec<S>;
}
macro_rules! comp {
    ($T:ident, $n:expr, [$($f:ident),+]) => {
        impl<S: Copy + Debug + PartialEq> Comp<S> for $T<S> {
            const N: usize = $n;
            const NAME: &'static str = stringify!($T);
            fn from_s(a: &[S]) -> Self { let mut i = 0; $T { $($f: { i += 1; a[i - 1] }),+ } }
            fn comps(&self) -> Vec<S> { vec![$(self.$f),+] }
        }
    };
}
comp!(Vector1, 1, [x]);
comp!(Vector2, 2, [x, y]);
comp!(Vector3, 3, [x, y, z]);
comp!(Vector4, 4, [x, y, z, w]);
comp!(Point1, 1, [x]);
comp!(Point2, 2, [x, y]);
comp!(Point3, 3, [x, y, z]);
impl<S: Copy + Debug + PartialEq> Comp<S> for Quaternion<S> {
    const N: usize = 4;
    const NAME: &'static str = "Quaternion";
    fn from_s(a: &[S]) -> Self {
        Quaternion { s: a[0], v: Vector3 { x: a[1], y: a[2], z: a[3] } }
    }
    fn comps(&self) -> Vec<S> {
        vec![self.s, self.v.x, self.v.y, self.v.z]
    }
}

// ---- bit-exact signatures ---------------------------------------------------------------------------

pub trait Sig {
    fn sig(&self, out: &mut Vec<u64>);
}
pub fn sig<T: Sig>(t: &T) -> Vec<u64> {
    let mut v = Vec::new();
    t.sig(&mut v);
    v
}
macro_rules! sig_int {
    ($($T:ty),*) => {$( impl Sig for $T { fn sig(&self, out: &mut Vec<u64>) { out.push(*self as i128 as u64) } } )*};
}
sig_int!(u8, u16, u32, u64, usize, i8, i16, i32, i64, isize);
impl Sig for f32 {
    fn sig(&self, out: &mut Vec<u64>) {
        out.push(if self.is_nan() { u64::MAX } else { self.to_bits() as u64 })
    }
}
impl Sig for f64 {
    fn sig(&self, out: &mut Vec<u64>) {
        out.push(if self.is_nan() { u64::MAX } else { self.to_bits() })
    }
}
impl Sig for Q {
    fn sig(&self, out: &mut Vec<u64>) {
        out.push(self.num() as u64);
        out.push((self.num() >> 64) as u64);
        out.push(self.den() as u64);
        out.push((self.den() >> 64) as u64);
    }
}
macro_rules! sig_fields {
    ($T:ident, [$($f:ident),+]) => {
        impl<S: Sig> Sig for $T<S> { fn sig(&self, out: &mut Vec<u64>) { $(self.$f.sig(out);)+ } }
    };
}
sig_fields!(Vector1, [x]);
sig_fields!(Vector2, [x, y]);
sig_fields!(Vector3, [x, y, z]);
sig_fields!(Vector4, [x, y, z, w]);
sig_fields!(Point1, [x]);
sig_fields!(Point2, [x, y]);
sig_fields!(Point3, [x, y, z]);
sig_fields!(Matrix2, [x, y]);
sig_fields!(Matrix3, [x, y, z]);
sig_fields!(Matrix4, [x, y, z, w]);
sig_fields!(Quaternion, [v, s]);
impl<S: Sig> Sig for Rad<S> {
    fn sig(&self, out: &mut Vec<u64>) {
        self.0.sig(out)
    }
}
impl<S: Sig> Sig for Deg<S> {
    fn sig(&self, out: &mut Vec<u64>) {
        self.0.sig(out)
    }
}
impl<S: Sig + BaseFloat> Sig for Basis2<S> {
    fn sig(&self, out: &mut Vec<u64>) {
        let m: &Matrix2<S> = self.as_ref();
        m.sig(out)
    }
}
impl<S: Sig> Sig for Basis3<S> {
    fn sig(&self, out: &mut Vec<u64>) {
        let m: &Matrix3<S> = self.as_ref();
        m.sig(out)
    }
}

