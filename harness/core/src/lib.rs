pub mod engine;
pub mod gen;
pub mod q;
pub mod refs;
pub mod traits;
