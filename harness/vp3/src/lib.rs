pub mod c16;

pub fn all() -> Vec<vcore::engine::Property> {
    vec![c16::property()]
}
