//! C16 — layout, indexing, conversions and swizzles preserve every component in order.
//!
//! The configuration space (views x slots x element types x swizzle words) is enumerated completely
//! in every case; the random part is only the tag values poured into the slots.

use vcore::traits::Comp;
use vcore::engine::*;
use vcore::{ensure, ensure_r};
use cgmath::prelude::*;
use cgmath::{Euler, Matrix2, Matrix3, Matrix4, Point1, Point2, Point3, Quaternion, Rad, Vector1, Vector2, Vector3, Vector4};
use std::fmt::Debug;

// ---- element types ---------------------------------------------------------------------------------

pub trait Elem: Clone + PartialEq + Debug + 'static {
    /// distinct values for distinct i (i < 32) and a given base
    fn tag(base: u32, i: u32) -> Self;
}
macro_rules! elem_int {
    ($($T:ty),*) => {$(
        impl Elem for $T {
            fn tag(base: u32, i: u32) -> $T { ((base % 64) + i + 1) as $T }
        }
    )*};
}
elem_int!(u8, i16, i32, i64, u64, usize);
impl Elem for f32 {
    fn tag(base: u32, i: u32) -> f32 {
        ((base % 1000) as f32) * 0.25 + i as f32 + 0.5
    }
}
impl Elem for f64 {
    fn tag(base: u32, i: u32) -> f64 {
        ((base % 100_000) as f64) * 0.125 + i as f64 + 0.5
    }
}
impl Elem for char {
    fn tag(base: u32, i: u32) -> char {
        char::from_u32(0x41 + (base % 500) + i).unwrap_or('?')
    }
}
#[derive(Copy, Clone, PartialEq, Debug)]
pub struct Tag(pub u16);
impl Elem for Tag {
    fn tag(base: u32, i: u32) -> Tag {
        Tag(((base % 60_000) + i) as u16)
    }
}
const WORDS: [&str; 48] = [
    "a", "b", "c", "d", "e", "f", "g", "h", "i", "j", "k", "l", "m", "n", "o", "p", "q", "r", "s", "t", "u", "v", "w", "x", "y", "z", "A", "B", "C", "D", "E", "F", "G", "H", "I", "J", "K", "L",
    "M", "N", "O", "P", "Q", "R", "S", "T", "U", "V",
];
impl Elem for &'static str {
    fn tag(base: u32, i: u32) -> &'static str {
        WORDS[((base % 16) + i) as usize]
    }
}
impl Elem for String {
    fn tag(base: u32, i: u32) -> String {
        format!("s{}-{}", base % 977, i)
    }
}

/// tags for one case: distinct values in a random order
fn tags<E: Elem>(d: &mut Draw, n: usize) -> Vec<E> {
    let base = d.bits32();
    let mut perm: Vec<u32> = (0..32).collect();
    for i in 0..n.min(31) {
        let j = i + d.below(32 - i);
        perm.swap(i, j);
    }
    (0..n).map(|i| E::tag(base, perm[i])).collect()
}

fn panics<R>(f: impl FnOnce() -> R) -> bool {
    catches(f).is_err()
}

// ---- vectors and points: every view, any element type ---------------------------------------------------

macro_rules! vec_like {
    ($fname:ident, $V:ident, $n:expr, [$($f:ident : $i:tt),+], $Tup:ty) => {
        fn $fname<E: Elem>(d: &mut Draw) -> Result<(), Outcome> {
            const N: usize = $n;
            let t: Vec<E> = tags(d, N);
            let who = stringify!($V);
            d.note(who, &t);
            let fields = |v: &$V<E>| -> Vec<E> { vec![$(v.$f.clone()),+] };
            // constructors
            let v = $V::new($(t[$i].clone()),+);
            ensure_r!(fields(&v) == t, "new", "{}::new: fields {:?}, arguments {:?}", who, fields(&v), t);
            let arr: [E; N] = [$(t[$i].clone()),+];
            let tup: $Tup = ($(t[$i].clone()),+,);
            ensure_r!(fields(&$V::from(arr.clone())) == t, "from-array", "{}::from([..]) reorders: {:?}", who, fields(&$V::from(arr.clone())));
            ensure_r!(fields(&$V::from(tup.clone())) == t, "from-tuple", "{}::from((..)) reorders", who);
            let a2: [E; N] = v.clone().into();
            ensure_r!(a2.to_vec() == t, "into-array", "{} -> array reorders: {:?}", who, a2);
            let t2: $Tup = v.clone().into();
            ensure_r!(vec![$(t2.$i.clone()),+] == t, "into-tuple", "{} -> tuple reorders", who);
            // reference views
            let ar: &[E; N] = v.as_ref();
            ensure_r!(ar.to_vec() == t, "as_ref-array", "{}::as_ref::<[E;n]> reorders: {:?}", who, ar);
            let tr: &$Tup = v.as_ref();
            ensure_r!(vec![$(tr.$i.clone()),+] == t, "as_ref-tuple", "{}::as_ref::<tuple> reorders", who);
            let fr: &$V<E> = From::from(&arr);
            ensure_r!(fields(fr) == t, "from-array-ref", "<&{}>::from(&[..]) reorders", who);
            let ft: &$V<E> = From::from(&tup);
            ensure_r!(fields(ft) == t, "from-tuple-ref", "<&{}>::from(&(..)) reorders", who);
            // indexing
            for i in 0..N {
                ensure_r!(v[i] == t[i], "index", "{}[{}] = {:?}, expected {:?}", who, i, v[i], t[i]);
                d.configs += 1;
            }
            ensure_r!(&v[..] == &t[..], "index-full-range", "{}[..]", who);
            for a in 0..=N {
                ensure_r!(&v[a..] == &t[a..], "index-range-from", "{}[{}..]", who, a);
                ensure_r!(&v[..a] == &t[..a], "index-range-to", "{}[..{}]", who, a);
                for b in a..=N {
                    ensure_r!(&v[a..b] == &t[a..b], "index-range", "{}[{}..{}]", who, a, b);
                    d.configs += 1;
                }
            }
            // out-of-range indices must panic
            for bad in [N, N + 1, usize::MAX] {
                ensure_r!(panics(|| v[bad].clone()), "index-out-of-range-accepted", "{}[{}] did not panic", who, bad);
                let mut m = v.clone();
                let val = t[0].clone();
                ensure_r!(panics(move || { m[bad] = val; }), "index-mut-out-of-range-accepted", "{}[{}] = .. did not panic", who, bad);
            }
            ensure_r!(panics(|| v[0..N + 1].len()), "range-out-of-range-accepted", "{}[0..{}] did not panic", who, N + 1);
            ensure_r!(panics(|| v[N + 1..].len()), "range-out-of-range-accepted", "{}[{}..] did not panic", who, N + 1);
            ensure_r!(panics(|| v[..N + 1].len()), "range-out-of-range-accepted", "{}[..{}] did not panic", who, N + 1);
            if N >= 1 {
                #[allow(clippy::reversed_empty_ranges)]
                let inverted = panics(|| v[1..0].len());
                ensure_r!(inverted, "inverted-range-accepted", "{}[1..0] did not panic", who);
            }
            // writes through every mutable view are seen by every other view
            let fresh: Vec<E> = tags(d, N);
            for view in 0..6 {
                for slot in 0..N {
                    let mut m = v.clone();
                    let mut model = t.clone();
                    model[slot] = fresh[slot].clone();
                    match view {
                        0 => { let a: &mut [E; N] = m.as_mut(); a[slot] = fresh[slot].clone(); }
                        1 => { m[slot] = fresh[slot].clone(); }
                        2 => { let s = &mut m[slot..]; s[0] = fresh[slot].clone(); }
                        3 => {
                            let tm: &mut $Tup = m.as_mut();
                            let mut k = 0;
                            $( if k == slot { tm.$i = fresh[slot].clone(); } k += 1; )+
                            let _ = k;
                        }
                        4 => {
                            let mut k = 0;
                            $( if k == slot { m.$f = fresh[slot].clone(); } k += 1; )+
                            let _ = k;
                        }
                        _ => {
                            // through a borrowed array reinterpreted as the compound type
                            let mut a: [E; N] = m.clone().into();
                            {
                                let r: &mut $V<E> = From::from(&mut a);
                                r[slot] = fresh[slot].clone();
                            }
                            m = $V::from(a);
                        }
                    }
                    let ar: &[E; N] = m.as_ref();
                    let tr: &$Tup = m.as_ref();
                    ensure_r!(fields(&m) == model, "write-not-visible-fields", "{}: write through view {} at slot {} not visible through fields", who, view, slot);
                    ensure_r!(ar.to_vec() == model, "write-not-visible-array", "{}: write through view {} at slot {} not visible through the array view", who, view, slot);
                    ensure_r!(vec![$(tr.$i.clone()),+] == model, "write-not-visible-tuple", "{}: write through view {} at slot {} not visible through the tuple view", who, view, slot);
                    ensure_r!((0..N).all(|i| m[i] == model[i]), "write-not-visible-index", "{}: write through view {} at slot {} not visible through indexing", who, view, slot);
                    d.configs += 1;
                }
            }
            // ... and through every mutable range view that contains the slot: a..b, ..b, a.., .. (the full prefix ..N and
            // the empty ranges included: a valid range must not panic on the write path either)
            for slot in 0..N {
                for a in 0..=slot {
                    for b in slot + 1..=N {
                        for kind in 0..4 {
                            if (kind == 1 && a != 0) || (kind == 2 && b != N) || (kind == 3 && (a != 0 || b != N)) {
                                continue;
                            }
                            let mut model = t.clone();
                            model[slot] = fresh[slot].clone();
                            let val = fresh[slot].clone();
                            let start = v.clone();
                            let res = catches(move || {
                                let mut m = start;
                                let len = {
                                    let s: &mut [E] = match kind {
                                        0 => &mut m[a..b],
                                        1 => &mut m[..b],
                                        2 => &mut m[a..],
                                        _ => &mut m[..],
                                    };
                                    s[slot - a] = val;
                                    s.len()
                                };
                                (m, len)
                            });
                            let what = match kind { 0 => format!("[{}..{}]", a, b), 1 => format!("[..{}]", b), 2 => format!("[{}..]", a), _ => "[..]".to_string() };
                            ensure_r!(res.is_ok(), "range-mut-in-range-panics", "&mut {}{} panics although the range is inside the {} components", who, what, N);
                            let (m, len) = res.ok().unwrap();
                            ensure_r!(len == b - a, "range-mut-length", "&mut {}{} has {} elements", who, what, len);
                            ensure_r!(fields(&m) == model, "write-not-visible-fields", "{}: write through &mut {} at slot {} not visible through fields: {:?}", who, what, slot, fields(&m));
                            d.configs += 1;
                        }
                    }
                }
            }
            for a in 0..=N {
                let (s1, s2) = (v.clone(), v.clone());
                ensure_r!(catches(move || { let mut m = s1; (&mut m[a..a]).len() + (&mut m[..a]).len() }).ok() == Some(a), "range-mut-in-range-panics", "&mut {}[{}..{}] / [..{}]: wrong length or panic", who, a, a, a);
                ensure_r!(catches(move || { let mut m = s2; (&mut m[a..]).len() }).ok() == Some(N - a), "range-mut-in-range-panics", "&mut {}[{}..]: wrong length or panic", who, a);
            }
            {
                let mut tm = tup.clone();
                let r: &mut $V<E> = From::from(&mut tm);
                r[N - 1] = fresh[0].clone();
                ensure_r!(vec![$(tm.$i.clone()),+][N - 1] == fresh[0], "from-tuple-mut", "<&mut {}>::from(&mut tuple) writes to the wrong slot", who);
            }
            // map / zip: position preserving
            let mapped = v.clone().map(|e| (e, 1u8));
            ensure_r!(vec![$(mapped.$f.0.clone()),+] == t, "map", "{}::map reorders", who);
            let mut order = Vec::new();
            let _ = v.clone().map(|e| order.push(e));
            ensure_r!(order == t, "map-order", "{}::map visits components out of order", who);
            let other = $V::new($(fresh[$i].clone()),+);
            let zipped = v.clone().zip(other, |a, b| (a, b));
            ensure_r!(vec![$(zipped.$f.0.clone()),+] == t && vec![$(zipped.$f.1.clone()),+] == fresh, "zip", "{}::zip pairs the wrong components", who);
            Ok(())
        }
    };
}
vec_like!(views_vector1, Vector1, 1, [x: 0], (E,));
vec_like!(views_vector2, Vector2, 2, [x: 0, y: 1], (E, E));
vec_like!(views_vector3, Vector3, 3, [x: 0, y: 1, z: 2], (E, E, E));
vec_like!(views_vector4, Vector4, 4, [x: 0, y: 1, z: 2, w: 3], (E, E, E, E));
vec_like!(views_point1, Point1, 1, [x: 0], (E,));
vec_like!(views_point2, Point2, 2, [x: 0, y: 1], (E, E));
vec_like!(views_point3, Point3, 3, [x: 0, y: 1, z: 2], (E, E, E));

fn views_any<E: Elem>(d: &mut Draw) -> Outcome {
    vcore::tryo!(views_vector1::<E>(d));
    vcore::tryo!(views_vector2::<E>(d));
    vcore::tryo!(views_vector3::<E>(d));
    vcore::tryo!(views_vector4::<E>(d));
    vcore::tryo!(views_point1::<E>(d));
    vcore::tryo!(views_point2::<E>(d));
    vcore::tryo!(views_point3::<E>(d));
    // the short constructors
    let t: Vec<E> = tags(d, 4);
    let c = |i: usize| t[i].clone();
    ensure!(cgmath::vec1(c(0)) == Vector1::new(c(0)), "short-constructor", "vec1");
    ensure!(cgmath::vec2(c(0), c(1)) == Vector2::new(c(0), c(1)), "short-constructor", "vec2");
    ensure!(cgmath::vec3(c(0), c(1), c(2)) == Vector3::new(c(0), c(1), c(2)), "short-constructor", "vec3");
    ensure!(cgmath::vec4(c(0), c(1), c(2), c(3)) == Vector4::new(c(0), c(1), c(2), c(3)), "short-constructor", "vec4");
    ensure!(cgmath::point1(c(0)) == Point1::new(c(0)), "short-constructor", "point1");
    ensure!(cgmath::point2(c(0), c(1)) == Point2::new(c(0), c(1)), "short-constructor", "point2");
    ensure!(cgmath::point3(c(0), c(1), c(2)) == Point3::new(c(0), c(1), c(2)), "short-constructor", "point3");
    // Quaternion::new takes the scalar first; from_sv(s, v)
    let t: Vec<E> = tags(d, 4);
    let q = Quaternion::new(t[0].clone(), t[1].clone(), t[2].clone(), t[3].clone());
    ensure!(q.s == t[0] && q.v.x == t[1] && q.v.y == t[2] && q.v.z == t[3], "quaternion-new", "Quaternion::new(w,x,y,z): {:?}", q);
    let q2 = Quaternion::from_sv(t[0].clone(), Vector3::new(t[1].clone(), t[2].clone(), t[3].clone()));
    ensure!(q2 == q, "quaternion-from_sv", "Quaternion::from_sv(s, v): {:?}", q2);
    pass("all-views", true)
}

// ---- Copy element types: Array trait of vectors, pointers, swap, matrices -------------------------------

macro_rules! array_trait {
    ($fname:ident, $V:ident, $n:expr) => {
        fn $fname<E: Elem + Copy>(d: &mut Draw) -> Result<(), Outcome> {
            const N: usize = $n;
            let t: Vec<E> = tags(d, N);
            let who = stringify!($V);
            let arr: [E; N] = std::array::from_fn(|i| t[i]);
            let v = $V::from(arr);
            ensure_r!(<$V<E> as Array>::len() == N, "len", "{}::len()", who);
            ensure_r!(Comp::comps(&<$V<E> as Array>::from_value(t[0])) == vec![t[0]; N], "from_value", "{}::from_value", who);
            let p = Array::as_ptr(&v);
            for i in 0..N {
                let got = unsafe { *p.add(i) };
                ensure_r!(got == t[i], "as_ptr", "{}::as_ptr()[{}] = {:?}, expected {:?}", who, i, got, t[i]);
            }
            let fresh: Vec<E> = tags(d, N);
            for i in 0..N {
                let mut m = v;
                let p = Array::as_mut_ptr(&mut m);
                unsafe { *p.add(i) = fresh[i] };
                let mut model = t.clone();
                model[i] = fresh[i];
                ensure_r!(Comp::comps(&m) == model, "as_mut_ptr", "{}::as_mut_ptr() write at {} landed elsewhere: {:?}", who, i, m);
            }
            for i in 0..N {
                for j in 0..N {
                    let mut m = v;
                    Array::swap_elements(&mut m, i, j);
                    let mut model = t.clone();
                    model.swap(i, j);
                    ensure_r!(Comp::comps(&m) == model, "swap_elements", "{}::swap_elements({}, {}) = {:?}", who, i, j, m);
                    d.configs += 1;
                }
                let mut m = v;
                ensure_r!(panics(move || Array::swap_elements(&mut m, i, N)), "swap_elements-out-of-range-accepted", "{}::swap_elements({}, {}) did not panic", who, i, N);
                let mut m = v;
                ensure_r!(panics(move || Array::swap_elements(&mut m, N, i)), "swap_elements-out-of-range-accepted", "{}::swap_elements({}, {}) did not panic", who, N, i);
            }
            for bad in [N, N + 1, usize::MAX] {
                let mut m = v;
                ensure_r!(panics(move || Array::swap_elements(&mut m, bad, bad)), "swap_elements-out-of-range-accepted", "{}::swap_elements({}, {}) did not panic", who, bad, bad);
            }
            Ok(())
        }
    };
}
array_trait!(array_vector1, Vector1, 1);
array_trait!(array_vector2, Vector2, 2);
array_trait!(array_vector3, Vector3, 3);
array_trait!(array_vector4, Vector4, 4);

macro_rules! matrix_views {
    ($fname:ident, $M:ident, $V:ident, $n:expr, [$($f:ident : $i:tt),+]) => {
        fn $fname<E: Elem + Copy>(d: &mut Draw) -> Result<(), Outcome> {
            const N: usize = $n;
            const NN: usize = $n * $n;
            let t: Vec<E> = tags(d, NN);
            let who = stringify!($M);
            d.note(who, &t);
            // column-major: flat index c*n + r
            let nested: [[E; N]; N] = std::array::from_fn(|c| std::array::from_fn(|r| t[c * N + r]));
            let m = $M::from(nested);
            let cols = [$(m.$f),+];
            for c in 0..N {
                ensure_r!(Comp::comps(&cols[c]) == t[c * N..(c + 1) * N].to_vec(), "from-nested-array", "{}::from([[..]]) column {}: {:?}", who, c, cols[c]);
                ensure_r!(Comp::comps(&m[c]) == t[c * N..(c + 1) * N].to_vec(), "index-column", "{}[{}]", who, c);
                for r in 0..N {
                    ensure_r!(m[c][r] == t[c * N + r], "index-element", "{}[{}][{}]", who, c, r);
                    d.configs += 1;
                }
            }
            let back: [[E; N]; N] = m.into();
            ensure_r!(back == nested, "into-nested-array", "{} -> [[..]] reorders", who);
            let nr: &[[E; N]; N] = m.as_ref();
            ensure_r!(*nr == nested, "as_ref-nested", "{}::as_ref::<[[E;n];n]>", who);
            let fr: &[E; NN] = m.as_ref();
            ensure_r!(fr.to_vec() == t, "as_ref-flat", "{}::as_ref::<[E;n*n]> is not column-major: {:?}", who, fr);
            let flat: [E; NN] = std::array::from_fn(|i| t[i]);
            let from_flat: &$M<E> = From::from(&flat);
            ensure_r!(*from_flat == m, "from-flat-ref", "<&{}>::from(&[E;n*n])", who);
            let from_nested: &$M<E> = From::from(&nested);
            ensure_r!(*from_nested == m, "from-nested-ref", "<&{}>::from(&[[E;n];n])", who);
            ensure_r!(panics(|| m[N]), "index-out-of-range-accepted", "{}[{}] did not panic", who, N);
            ensure_r!(panics(|| m[0][N]), "index-out-of-range-accepted", "{}[0][{}] did not panic", who, N);
            // the write path has bounds of its own
            for bad in [N, N + 1, NN, usize::MAX] {
                let mut w = m;
                let val = t[0];
                ensure_r!(panics(move || { w[0][bad] = val; }), "index-mut-out-of-range-accepted", "{}[0][{}] = .. did not panic", who, bad);
                let mut w = m;
                let col = m[0];
                ensure_r!(panics(move || { w[bad] = col; }), "index-mut-out-of-range-accepted", "{}[{}] = column did not panic", who, bad);
                let mut w = m;
                ensure_r!(panics(move || { w[bad][0] = val; }), "index-mut-out-of-range-accepted", "{}[{}][0] = .. did not panic", who, bad);
            }
            // writes through the flat / nested / index views
            let fresh: Vec<E> = tags(d, NN);
            for view in 0..5 {
                for slot in 0..NN {
                    let (c, r) = (slot / N, slot % N);
                    let mut w = m;
                    match view {
                        0 => { let a: &mut [E; NN] = w.as_mut(); a[slot] = fresh[slot]; }
                        1 => { let a: &mut [[E; N]; N] = w.as_mut(); a[c][r] = fresh[slot]; }
                        2 => { w[c][r] = fresh[slot]; }
                        3 => {
                            let mut a = flat;
                            { let x: &mut $M<E> = From::from(&mut a); x[c][r] = fresh[slot]; }
                            let y: &$M<E> = From::from(&a);
                            w = *y;
                        }
                        _ => {
                            let mut a = nested;
                            { let x: &mut $M<E> = From::from(&mut a); x[c][r] = fresh[slot]; }
                            w = $M::from(a);
                        }
                    }
                    let mut model = t.clone();
                    model[slot] = fresh[slot];
                    let fr: &[E; NN] = w.as_ref();
                    ensure_r!(fr.to_vec() == model, "write-not-visible-flat", "{}: write through view {} at (c{},r{}) not visible in the flat view", who, view, c, r);
                    let cols = [$(w.$f),+];
                    ensure_r!((0..NN).all(|s| Comp::comps(&cols[s / N])[s % N] == model[s]), "write-not-visible-fields", "{}: write through view {} at (c{},r{}) not visible through the column fields", who, view, c, r);
                    ensure_r!((0..NN).all(|s| w[s / N][s % N] == model[s]), "write-not-visible-index", "{}: write through view {} at (c{},r{}) not visible through indexing", who, view, c, r);
                    d.configs += 1;
                }
            }
            Ok(())
        }
    };
}
matrix_views!(views_matrix2, Matrix2, Vector2, 2, [x: 0, y: 1]);
matrix_views!(views_matrix3, Matrix3, Vector3, 3, [x: 0, y: 1, z: 2]);
matrix_views!(views_matrix4, Matrix4, Vector4, 4, [x: 0, y: 1, z: 2, w: 3]);

fn views_copy<E: Elem + Copy>(d: &mut Draw) -> Outcome {
    vcore::tryo!(array_vector1::<E>(d));
    vcore::tryo!(array_vector2::<E>(d));
    vcore::tryo!(array_vector3::<E>(d));
    vcore::tryo!(array_vector4::<E>(d));
    vcore::tryo!(views_matrix2::<E>(d));
    vcore::tryo!(views_matrix3::<E>(d));
    vcore::tryo!(views_matrix4::<E>(d));
    // Point swizzles only need Copy
    let t: Vec<E> = tags(d, 3);
    let n = match swz::swizzle_point1(&Point1::new(t[0]), &t) {
        Ok(n) => n,
        Err(w) => return Outcome::Fail { sig: "swizzle-point1", msg: w },
    };
    let n2 = match swz::swizzle_point2(&Point2::new(t[0], t[1]), &t) {
        Ok(n) => n,
        Err(w) => return Outcome::Fail { sig: "swizzle-point2", msg: w },
    };
    let n3 = match swz::swizzle_point3(&Point3::new(t[0], t[1], t[2]), &t) {
        Ok(n) => n,
        Err(w) => return Outcome::Fail { sig: "swizzle-point3", msg: w },
    };
    ensure!((n, n2, n3) == (3, 14, 39), "swizzle-count", "point swizzle counts {:?}", (n, n2, n3));
    d.configs += (n + n2 + n3) as u64;
    pass("all-views", true)
}

// ---- numeric element types: swizzles, extend/truncate, quaternion views, conv ----------------------------

pub mod swz {
    use super::Comp;
    fn chk<S: PartialEq + std::fmt::Debug + Copy>(n: &mut usize, word: &str, got: Vec<S>, want: &[S]) -> Result<(), String> {
        *n += 1;
        if got.as_slice() == want {
            Ok(())
        } else {
            Err(format!("swizzle {}() returned {:?}, expected {:?}", word, got, want))
        }
    }
    include!(concat!(env!("OUT_DIR"), "/swizzles.rs"));
}

fn numeric<E: Elem + cgmath::BaseNum>(d: &mut Draw) -> Outcome {
    let t: Vec<E> = tags(d, 5);
    d.note("components", &t);
    let v1 = Vector1::new(t[0]);
    let v2 = Vector2::new(t[0], t[1]);
    let v3 = Vector3::new(t[0], t[1], t[2]);
    let v4 = Vector4::new(t[0], t[1], t[2], t[3]);
    let mut total = 0usize;
    macro_rules! swz {
        ($f:ident, $v:expr, $want:expr, $sig:expr) => {
            match swz::$f(&$v, &t) {
                Ok(n) => {
                    ensure!(n == $want, "swizzle-count", "{} swizzles checked for {}, expected {}", n, $sig, $want);
                    total += n;
                }
                Err(w) => return Outcome::Fail { sig: $sig, msg: w },
            }
        };
    }
    swz!(swizzle_vector1, v1, 4, "swizzle-vector1");
    swz!(swizzle_vector2, v2, 30, "swizzle-vector2");
    swz!(swizzle_vector3, v3, 120, "swizzle-vector3");
    swz!(swizzle_vector4, v4, 340, "swizzle-vector4");
    swz!(swizzle_point1, Point1::new(t[0]), 3, "swizzle-point1");
    swz!(swizzle_point2, Point2::new(t[0], t[1]), 14, "swizzle-point2");
    swz!(swizzle_point3, Point3::new(t[0], t[1], t[2]), 39, "swizzle-point3");
    ensure!(total == 550, "swizzle-count", "{} swizzles in total, expected 550", total);
    d.configs += total as u64;
    // extend / truncate / truncate_n
    ensure!(Comp::comps(&v2.extend(t[4])) == vec![t[0], t[1], t[4]], "extend", "Vector2::extend: {:?}", v2.extend(t[4]));
    ensure!(Comp::comps(&v3.extend(t[4])) == vec![t[0], t[1], t[2], t[4]], "extend", "Vector3::extend: {:?}", v3.extend(t[4]));
    ensure!(Comp::comps(&v3.truncate()) == vec![t[0], t[1]], "truncate", "Vector3::truncate: {:?}", v3.truncate());
    ensure!(Comp::comps(&v4.truncate()) == vec![t[0], t[1], t[2]], "truncate", "Vector4::truncate: {:?}", v4.truncate());
    for n in 0..4usize {
        let want: Vec<E> = (0..4).filter(|i| *i != n).map(|i| t[i]).collect();
        ensure!(Comp::comps(&v4.truncate_n(n as isize)) == want, "truncate_n", "Vector4::truncate_n({}) = {:?}", n, v4.truncate_n(n as isize));
    }
    ensure!(panics(|| v4.truncate_n(4)), "truncate_n-out-of-range-accepted", "truncate_n(4) did not panic");
    ensure!(panics(|| v4.truncate_n(-1)), "truncate_n-out-of-range-accepted", "truncate_n(-1) did not panic");
    // Array for points
    let p3 = Point3::new(t[0], t[1], t[2]);
    ensure!(<Point3<E> as Array>::len() == 3 && <Point2<E> as Array>::len() == 2 && <Point1<E> as Array>::len() == 1, "len", "Point::len()");
    ensure!(Comp::comps(&<Point3<E> as Array>::from_value(t[1])) == vec![t[1]; 3], "from_value", "Point3::from_value");
    let pp = Array::as_ptr(&p3);
    ensure!((0..3).all(|i| unsafe { *pp.add(i) } == t[i]), "as_ptr", "Point3::as_ptr()");
    for i in 0..3 {
        for j in 0..3 {
            let mut m = p3;
            Array::swap_elements(&mut m, i, j);
            let mut model = vec![t[0], t[1], t[2]];
            model.swap(i, j);
            ensure!(Comp::comps(&m) == model, "swap_elements", "Point3::swap_elements({}, {})", i, j);
        }
    }
    for bad in [3usize, 4, usize::MAX] {
        let mut m = p3;
        ensure!(panics(move || Array::swap_elements(&mut m, bad, bad)), "swap_elements-out-of-range-accepted", "Point3::swap_elements({}, {}) did not panic", bad, bad);
        let mut m = p3;
        ensure!(panics(move || Array::swap_elements(&mut m, 0, bad)), "swap_elements-out-of-range-accepted", "Point3::swap_elements(0, {}) did not panic", bad);
    }
    // sum / product on small values that cannot overflow any element type
    let small: Vec<E> = {
        let mut s = vec![E::one(), E::one() + E::one(), E::one() + E::one() + E::one(), E::one() + E::one() + E::one() + E::one() + E::one()];
        let k = d.below(4);
        s.rotate_left(k);
        s
    };
    let (s4, p4) = (small[0] + small[1] + small[2] + small[3], small[0] * small[1] * small[2] * small[3]);
    let sv = Vector4::new(small[0], small[1], small[2], small[3]);
    ensure!(Array::sum(sv) == s4 && Array::product(sv) == p4, "sum-product", "Vector4 sum/product: {:?} {:?}", Array::sum(sv), Array::product(sv));
    let sp = Point3::new(small[0], small[1], small[2]);
    ensure!(Array::sum(sp) == small[0] + small[1] + small[2] && Array::product(sp) == small[0] * small[1] * small[2], "sum-product", "Point3 sum/product");
    let sv3 = Vector3::new(small[0], small[1], small[2]);
    ensure!(Array::sum(sv3) == small[0] + small[1] + small[2] && Array::product(sv3) == small[0] * small[1] * small[2], "sum-product", "Vector3 sum/product");
    let sv2 = Vector2::new(small[0], small[1]);
    ensure!(Array::sum(sv2) == small[0] + small[1] && Array::product(sv2) == small[0] * small[1], "sum-product", "Vector2 sum/product");
    ensure!(Array::sum(Vector1::new(small[2])) == small[2] && Array::product(Vector1::new(small[2])) == small[2], "sum-product", "Vector1 sum/product");

    // quaternion: order x, y, z, then the scalar part
    let q = Quaternion::new(t[3], t[0], t[1], t[2]);
    let want = vec![t[0], t[1], t[2], t[3]];
    let a: [E; 4] = q.into();
    ensure!(a.to_vec() == want, "quaternion-into-array", "Quaternion -> [x,y,z,s]: {:?}", a);
    let tp: (E, E, E, E) = q.into();
    ensure!(vec![tp.0, tp.1, tp.2, tp.3] == want, "quaternion-into-tuple", "Quaternion -> (x,y,z,s): {:?}", tp);
    ensure!(Quaternion::from([t[0], t[1], t[2], t[3]]) == q, "quaternion-from-array", "Quaternion::from([x,y,z,s])");
    ensure!(Quaternion::from((t[0], t[1], t[2], t[3])) == q, "quaternion-from-tuple", "Quaternion::from((x,y,z,s))");
    let ar: &[E; 4] = q.as_ref();
    ensure!(ar.to_vec() == want, "quaternion-as_ref-array", "Quaternion::as_ref::<[E;4]>: {:?}", ar);
    let tr: &(E, E, E, E) = q.as_ref();
    ensure!(vec![tr.0, tr.1, tr.2, tr.3] == want, "quaternion-as_ref-tuple", "Quaternion::as_ref::<tuple>");
    let arr = [t[0], t[1], t[2], t[3]];
    let qr: &Quaternion<E> = From::from(&arr);
    ensure!(*qr == q, "quaternion-from-array-ref", "<&Quaternion>::from(&[..])");
    let tup = (t[0], t[1], t[2], t[3]);
    let qt: &Quaternion<E> = From::from(&tup);
    ensure!(*qt == q, "quaternion-from-tuple-ref", "<&Quaternion>::from(&(..))");
    for i in 0..4 {
        ensure!(q[i] == want[i], "quaternion-index", "Quaternion[{}] = {:?}", i, q[i]);
    }
    ensure!(&q[..] == &want[..] && &q[1..3] == &want[1..3] && &q[..2] == &want[..2] && &q[2..] == &want[2..], "quaternion-index-range", "Quaternion range indexing");
    // every in-range range form, the empty ones at either end included ([4..], [..0], [a..a]), read and write path: what
    // the [E; 4] view gives, and never a panic
    for a in 0..=4usize {
        let (w1, wa) = (want.clone(), q);
        ensure!(catches(move || wa[a..].to_vec() == w1[a..].to_vec() && wa[..a].to_vec() == w1[..a].to_vec()).ok() == Some(true), "quaternion-range-in-range", "Quaternion[{}..] / [..{}] panics or differs from the array view", a, a);
        let (w1, mut wa) = (want.clone(), q);
        ensure!(catches(move || (&mut wa[a..]).to_vec() == w1[a..].to_vec() && (&mut wa[..a]).to_vec() == w1[..a].to_vec()).ok() == Some(true), "quaternion-range-mut-in-range", "&mut Quaternion[{}..] / [..{}] panics or differs from the array view", a, a);
        for b in a..=4usize {
            let (w1, mut wa) = (want.clone(), q);
            ensure!(catches(move || wa[a..b].to_vec() == w1[a..b].to_vec() && (&mut wa[a..b]).to_vec() == w1[a..b].to_vec()).ok() == Some(true), "quaternion-range-in-range", "Quaternion[{}..{}] panics or differs from the array view", a, b);
        }
    }
    ensure!(panics(|| q[4]), "index-out-of-range-accepted", "Quaternion[4] did not panic");
    ensure!(panics(|| q[..5].len()), "range-out-of-range-accepted", "Quaternion[..5] did not panic");
    // the write path has bounds of its own
    for bad in [4usize, 5, 17, usize::MAX] {
        let mut w = q;
        let val = t[4];
        ensure!(panics(move || { w[bad] = val; }), "index-mut-out-of-range-accepted", "Quaternion[{}] = .. did not panic", bad);
        let mut w = q;
        ensure!(panics(move || { let _ = &mut w[bad]; }), "index-mut-out-of-range-accepted", "&mut Quaternion[{}] did not panic", bad);
    }
    {
        let mut w = q;
        ensure!(panics(move || { let _ = &mut w[..5]; }) , "range-mut-out-of-range-accepted", "&mut Quaternion[..5] did not panic");
        let mut w = q;
        ensure!(panics(move || { let _ = &mut w[5..]; }) , "range-mut-out-of-range-accepted", "&mut Quaternion[5..] did not panic");
    }
    for view in 0..4 {
        for slot in 0..4 {
            let mut w = q;
            match view {
                0 => { let a: &mut [E; 4] = w.as_mut(); a[slot] = t[4]; }
                1 => { w[slot] = t[4]; }
                2 => {
                    let tm: &mut (E, E, E, E) = w.as_mut();
                    match slot { 0 => tm.0 = t[4], 1 => tm.1 = t[4], 2 => tm.2 = t[4], _ => tm.3 = t[4] }
                }
                _ => {
                    let mut a = arr;
                    { let x: &mut Quaternion<E> = From::from(&mut a); x[slot] = t[4]; }
                    w = Quaternion::from(a);
                }
            }
            let mut model = want.clone();
            model[slot] = t[4];
            ensure!(vec![w.v.x, w.v.y, w.v.z, w.s] == model, "quaternion-write-not-visible", "Quaternion: write through view {} at slot {} landed elsewhere: {:?}", view, slot, w);
            d.configs += 1;
        }
    }
    // and through every mutable range view containing the slot (the full prefix and full range included)
    for slot in 0..4usize {
        for a in 0..=slot {
            for b in slot + 1..=4usize {
                for kind in 0..4 {
                    if (kind == 1 && a != 0) || (kind == 2 && b != 4) || (kind == 3 && (a != 0 || b != 4)) {
                        continue;
                    }
                    let val = t[4];
                    let res = catches(move || {
                        let mut w = q;
                        let len = {
                            let s: &mut [E] = match kind { 0 => &mut w[a..b], 1 => &mut w[..b], 2 => &mut w[a..], _ => &mut w[..] };
                            s[slot - a] = val;
                            s.len()
                        };
                        (w, len)
                    });
                    ensure!(res.is_ok(), "range-mut-in-range-panics", "a mutable range view (kind {}) of Quaternion over {}..{} panics", kind, a, b);
                    let (w, len) = res.ok().unwrap();
                    let mut model = want.clone();
                    model[slot] = t[4];
                    ensure!(len == b - a && vec![w.v.x, w.v.y, w.v.z, w.s] == model, "quaternion-write-not-visible", "Quaternion: write through the mutable range view (kind {}) over {}..{} at slot {} landed elsewhere: {:?}", kind, a, b, slot, w);
                    d.configs += 1;
                }
            }
        }
    }
    // conv helpers
    ensure!(cgmath::conv::array2(v2) == [t[0], t[1]], "conv", "conv::array2");
    ensure!(cgmath::conv::array3(v3) == [t[0], t[1], t[2]], "conv", "conv::array3");
    ensure!(cgmath::conv::array4(v4) == [t[0], t[1], t[2], t[3]], "conv", "conv::array4");
    ensure!(cgmath::conv::array3(p3) == [t[0], t[1], t[2]], "conv", "conv::array3(point)");
    let m2 = Matrix2::from([[t[0], t[1]], [t[2], t[3]]]);
    ensure!(cgmath::conv::array2x2(m2) == [[t[0], t[1]], [t[2], t[3]]], "conv", "conv::array2x2");
    let n3 = [[t[0], t[1], t[2]], [t[3], t[4], t[0]], [t[2], t[1], t[4]]];
    ensure!(cgmath::conv::array3x3(Matrix3::from(n3)) == n3, "conv", "conv::array3x3");
    let n4 = [[t[0], t[1], t[2], t[3]], [t[4], t[0], t[1], t[2]], [t[3], t[4], t[0], t[1]], [t[2], t[3], t[4], t[0]]];
    ensure!(cgmath::conv::array4x4(Matrix4::from(n4)) == n4, "conv", "conv::array4x4");
    pass("all-550-swizzles", true)
}

/// Matrix trait pointer views (BaseFloat element types)
fn matrix_ptr<E: Elem + cgmath::BaseFloat>(d: &mut Draw) -> Outcome {
    let t: Vec<E> = tags(d, 17);
    macro_rules! one {
        ($M:ident, $n:expr) => {{
            const N: usize = $n;
            let nested: [[E; N]; N] = std::array::from_fn(|c| std::array::from_fn(|r| t[c * N + r]));
            let m = $M::from(nested);
            let p = Matrix::as_ptr(&m);
            for i in 0..N * N {
                let got = unsafe { *p.add(i) };
                ensure!(got == t[i], "matrix-as_ptr", "{}::as_ptr()[{}] = {:?}, expected {:?}", stringify!($M), i, got, t[i]);
            }
            for i in 0..N * N {
                let mut w = m;
                let p = Matrix::as_mut_ptr(&mut w);
                unsafe { *p.add(i) = t[16] };
                ensure!(w[i / N][i % N] == t[16], "matrix-as_mut_ptr", "{}::as_mut_ptr() write at {} landed elsewhere", stringify!($M), i);
                let changed = (0..N * N).filter(|s| w[s / N][s % N] != m[s / N][s % N]).count();
                ensure!(changed == 1, "matrix-as_mut_ptr", "{}::as_mut_ptr() write at {} changed {} entries", stringify!($M), i, changed);
                d.configs += 1;
            }
            // Matrix::swap_elements / swap_rows / swap_columns exchange exactly the named (column, row) slots
            for a in 0..N * N {
                for b in 0..N * N {
                    let mut w = m;
                    Matrix::swap_elements(&mut w, (a / N, a % N), (b / N, b % N));
                    let mut model: Vec<E> = (0..N * N).map(|i| t[i]).collect();
                    model.swap(a, b);
                    ensure!((0..N * N).all(|i| w[i / N][i % N] == model[i]), "matrix-swap_elements", "{}::swap_elements(({},{}),({},{})) exchanged other slots", stringify!($M), a / N, a % N, b / N, b % N);
                    d.configs += 1;
                }
            }
            for a in 0..N {
                for b in 0..N {
                    let mut w = m;
                    w.swap_rows(a, b);
                    ensure!((0..N * N).all(|i| w[i / N][i % N] == t[(i / N) * N + if i % N == a { b } else if i % N == b { a } else { i % N }]), "matrix-swap_rows", "{}::swap_rows({},{})", stringify!($M), a, b);
                    let mut w = m;
                    w.swap_columns(a, b);
                    ensure!((0..N * N).all(|i| w[i / N][i % N] == t[(if i / N == a { b } else if i / N == b { a } else { i / N }) * N + i % N]), "matrix-swap_columns", "{}::swap_columns({},{})", stringify!($M), a, b);
                    d.configs += 2;
                }
            }
            // an index out of range in any of the positions panics (rows as well as columns, in either operand), and
            // never quietly addresses some other slot
            for _ in 0..6 {
                let mut ix = [d.below(N + 2), d.below(N + 2), d.below(N + 2), d.below(N + 2)];
                if ix.iter().all(|i| *i < N) {
                    ix[d.below(4)] = N + d.below(2);
                }
                let mut w = m;
                ensure!(panics(move || Matrix::swap_elements(&mut w, (ix[0], ix[1]), (ix[2], ix[3]))), "matrix-swap_elements-out-of-range-accepted",
                    "{}::swap_elements(({},{}),({},{})) did not panic", stringify!($M), ix[0], ix[1], ix[2], ix[3]);
                let (a, b) = if ix[0] >= N || ix[2] >= N { (ix[0], ix[2]) } else { (ix[1], ix[3]) };
                let mut w = m;
                ensure!(panics(move || w.swap_rows(a, b)), "matrix-swap_rows-out-of-range-accepted", "{}::swap_rows({},{}) did not panic", stringify!($M), a, b);
                let mut w = m;
                ensure!(panics(move || w.swap_columns(a, b)), "matrix-swap_columns-out-of-range-accepted", "{}::swap_columns({},{}) did not panic", stringify!($M), a, b);
                let mut w = m;
                ensure!(panics(move || w.replace_col(N + (a % 2), w[0])), "matrix-replace_col-out-of-range-accepted", "{}::replace_col({}, ..) did not panic", stringify!($M), N + (a % 2));
                ensure!(panics(move || m[N][0]) && panics(move || m[0][N]) && panics(move || m.row(N)), "matrix-index-out-of-range-accepted", "{}: m[{}][0], m[0][{}] or row({}) did not panic", stringify!($M), N, N, N);
                d.configs += 5;
            }
        }};
    }
    one!(Matrix2, 2);
    one!(Matrix3, 3);
    one!(Matrix4, 4);
    pass("all-slots", true)
}

/// mint conversions in both directions
fn mint_conv<E: Elem + Copy>(d: &mut Draw) -> Outcome {
    let t: Vec<E> = tags(d, 16);
    d.note("components", &t);
    let v2 = Vector2::new(t[0], t[1]);
    let m: mint::Vector2<E> = v2.into();
    ensure!(m.x == t[0] && m.y == t[1], "mint-vector2", "Vector2 -> mint: {:?}", m);
    ensure!(Vector2::from(m) == v2, "mint-vector2-back", "mint -> Vector2");
    let v3 = Vector3::new(t[0], t[1], t[2]);
    let m: mint::Vector3<E> = v3.into();
    ensure!(m.x == t[0] && m.y == t[1] && m.z == t[2], "mint-vector3", "Vector3 -> mint: {:?}", m);
    ensure!(Vector3::from(m) == v3, "mint-vector3-back", "mint -> Vector3");
    let v4 = Vector4::new(t[0], t[1], t[2], t[3]);
    let m: mint::Vector4<E> = v4.into();
    ensure!(m.x == t[0] && m.y == t[1] && m.z == t[2] && m.w == t[3], "mint-vector4", "Vector4 -> mint: {:?}", m);
    ensure!(Vector4::from(m) == v4, "mint-vector4-back", "mint -> Vector4");
    let p2 = Point2::new(t[0], t[1]);
    let m: mint::Point2<E> = p2.into();
    ensure!(m.x == t[0] && m.y == t[1], "mint-point2", "Point2 -> mint: {:?}", m);
    ensure!(Point2::from(m) == p2, "mint-point2-back", "mint -> Point2");
    let p3 = Point3::new(t[0], t[1], t[2]);
    let m: mint::Point3<E> = p3.into();
    ensure!(m.x == t[0] && m.y == t[1] && m.z == t[2], "mint-point3", "Point3 -> mint: {:?}", m);
    ensure!(Point3::from(m) == p3, "mint-point3-back", "mint -> Point3");
    let q = Quaternion::new(t[3], t[0], t[1], t[2]);
    let m: mint::Quaternion<E> = q.into();
    ensure!(m.s == t[3] && m.v.x == t[0] && m.v.y == t[1] && m.v.z == t[2], "mint-quaternion", "Quaternion -> mint: {:?}", m);
    ensure!(Quaternion::from(m) == q, "mint-quaternion-back", "mint -> Quaternion");
    let m2 = Matrix2::from([[t[0], t[1]], [t[2], t[3]]]);
    let mm: mint::ColumnMatrix2<E> = m2.into();
    ensure!(mm.x.x == t[0] && mm.x.y == t[1] && mm.y.x == t[2] && mm.y.y == t[3], "mint-matrix2", "Matrix2 -> mint: {:?}", mm);
    ensure!(Matrix2::from(mm) == m2, "mint-matrix2-back", "mint -> Matrix2");
    let n3: [[E; 3]; 3] = std::array::from_fn(|c| std::array::from_fn(|r| t[c * 3 + r]));
    let m3 = Matrix3::from(n3);
    let mm: mint::ColumnMatrix3<E> = m3.into();
    let cols = [mm.x, mm.y, mm.z];
    ensure!((0..3).all(|c| cols[c].x == t[c * 3] && cols[c].y == t[c * 3 + 1] && cols[c].z == t[c * 3 + 2]), "mint-matrix3", "Matrix3 -> mint: {:?}", mm);
    ensure!(Matrix3::from(mm) == m3, "mint-matrix3-back", "mint -> Matrix3");
    let n4: [[E; 4]; 4] = std::array::from_fn(|c| std::array::from_fn(|r| t[c * 4 + r]));
    let m4 = Matrix4::from(n4);
    let mm: mint::ColumnMatrix4<E> = m4.into();
    let cols = [mm.x, mm.y, mm.z, mm.w];
    ensure!((0..4).all(|c| cols[c].x == t[c * 4] && cols[c].y == t[c * 4 + 1] && cols[c].z == t[c * 4 + 2] && cols[c].w == t[c * 4 + 3]), "mint-matrix4", "Matrix4 -> mint: {:?}", mm);
    ensure!(Matrix4::from(mm) == m4, "mint-matrix4-back", "mint -> Matrix4");
    pass("all-mint-types", true)
}


/// from_value returns exactly the named component everywhere: bit for bit, for -0.0, subnormals, infinities and NaNs too
macro_rules! from_value_bits {
    ($fname:ident, $F:ty, $bits:ident) => {
        fn $fname(d: &mut Draw) -> Outcome {
            let x: $F = match d.int(0, 6) {
                0 => -0.0,
                1 => 0.0,
                2 => <$F>::from_bits(1),
                3 => <$F>::INFINITY * if d.bool() { 1.0 } else { -1.0 },
                4 => <$F>::NAN,
                _ => <$F>::from_bits(d.$bits()),
            };
            d.note("value", &x.to_bits());
            let same = |c: &[$F]| c.iter().all(|y| y.to_bits() == x.to_bits());
            let v1 = <Vector1<$F> as Array>::from_value(x);
            let v2 = <Vector2<$F> as Array>::from_value(x);
            let v3 = <Vector3<$F> as Array>::from_value(x);
            let v4 = <Vector4<$F> as Array>::from_value(x);
            ensure!(same(&[v1.x]) && same(&[v2.x, v2.y]) && same(&[v3.x, v3.y, v3.z]) && same(&[v4.x, v4.y, v4.z, v4.w]), "from_value-vector-bits", "VectorN::from_value({:?}) does not return that value in every component", x);
            let p1 = <Point1<$F> as Array>::from_value(x);
            let p2 = <Point2<$F> as Array>::from_value(x);
            let p3 = <Point3<$F> as Array>::from_value(x);
            ensure!(same(&[p1.x]) && same(&[p2.x, p2.y]) && same(&[p3.x, p3.y, p3.z]), "from_value-point-bits", "PointN::from_value({:?}) does not return that value in every component: {:?} {:?} {:?}", x, p1, p2, p3);
            // matrices: the value on the diagonal, +0.0 elsewhere
            let m2 = <Matrix2<$F> as SquareMatrix>::from_value(x);
            let m3 = <Matrix3<$F> as SquareMatrix>::from_value(x);
            let m4 = <Matrix4<$F> as SquareMatrix>::from_value(x);
            ensure!(same(&[m2.x.x, m2.y.y]) && same(&[m3.x.x, m3.y.y, m3.z.z]) && same(&[m4.x.x, m4.y.y, m4.z.z, m4.w.w]), "from_value-matrix-bits", "MatrixN::from_value({:?}) does not put that value on the diagonal", x);
            ensure!([m2.x.y, m2.y.x, m3.x.y, m3.z.x, m4.w.x, m4.x.w].iter().all(|y| y.to_bits() == (0.0 as $F).to_bits()), "from_value-matrix-off-diagonal", "MatrixN::from_value({:?}): off-diagonal entries are not +0.0", x);
            pass(if x == 0.0 { "zero" } else if x.is_nan() || x.is_infinite() { "non-finite" } else { "finite" }, true)
        }
    };
}
from_value_bits!(from_value_bits_f32, f32, bits32);
from_value_bits!(from_value_bits_f64, f64, bits64);

/// float types as bit patterns
trait FB: cgmath::BaseFloat + std::fmt::Debug + 'static {
    fn bits(self) -> u64;
    fn of_bits(b: u64) -> Self;
    fn of(x: f64) -> Self;
}
impl FB for f32 {
    fn bits(self) -> u64 { self.to_bits() as u64 }
    fn of_bits(b: u64) -> f32 { f32::from_bits(b as u32) }
    fn of(x: f64) -> f32 { x as f32 }
}
impl FB for f64 {
    fn bits(self) -> u64 { self.to_bits() }
    fn of_bits(b: u64) -> f64 { f64::from_bits(b) }
    fn of(x: f64) -> f64 { x }
}
fn fbits<F: FB>(c: &[F]) -> Vec<u64> {
    c.iter().map(|x| x.bits()).collect()
}

macro_rules! sv_vecs {
    ($d:ident, $base:ident, $F:ident; $V:ident, $n:expr, [$f0:ident $(, $f:ident)*], $Tup:ty, |$t:ident| $tup:expr, |$u:ident| $untup:expr) => {{
        let arr: [$F; $n] = std::array::from_fn(|i| $base[i]);
        let want = fbits(&arr);
        let who = stringify!($V);
        let fields = |v: &$V<$F>| fbits(&[v.$f0 $(, v.$f)*]);
        let r = catches(|| {
            let v = $V::from(arr);
            let back: [$F; $n] = v.into();
            let rv: &$V<$F> = From::from(&arr);
            let mut arr2 = arr;
            let mv: &mut $V<$F> = From::from(&mut arr2);
            let mvf = fields(mv);
            let ar: &[$F; $n] = v.as_ref();
            let mut w = v;
            let am: &mut [$F; $n] = w.as_mut();
            let amb = fbits(&am[..]);
            let $t = arr;
            let tup: $Tup = $tup;
            let vt = $V::from(tup);
            let tb: $Tup = v.into();
            let rt: &$V<$F> = From::from(&tup);
            let tr: &$Tup = v.as_ref();
            let $u = tb;
            let tbv: Vec<$F> = $untup;
            let $u = *tr;
            let trv: Vec<$F> = $untup;
            let idx: Vec<$F> = (0..$n).map(|i| v[i]).collect();
            let sl: Vec<$F> = v[..].to_vec();
            vec![fields(&v), fbits(&back), fields(rv), mvf, fbits(&ar[..]), amb, fields(&vt), fbits(&tbv), fields(rt), fbits(&trv), fbits(&idx), fbits(&sl)]
        });
        let names = ["from-array", "into-array", "from-array-ref", "from-array-mut", "as_ref-array", "as_mut-array", "from-tuple", "into-tuple", "from-tuple-ref", "as_ref-tuple", "index", "index-full-range"];
        match r {
            Err(m) => return Outcome::Fail { sig: "special-value-view-panics", msg: format!("{}: a view or conversion of the components {:?} panicked: {}", who, arr, m) },
            Ok(all) => {
                for (k, got) in all.iter().enumerate() {
                    ensure!(*got == want, "special-value-view", "{}: {} of the components {:?} gives bit patterns {:x?}, expected {:x?}", who, names[k], arr, got, want);
                }
            }
        }
        $d.configs += 12;
    }};
}

/// the views and conversions carry *every* float value, compared as bit patterns: a NaN (which is not equal to itself),
/// zeros of either sign, infinities, the smallest subnormal - in each slot in turn - through arrays, tuples and references
/// to either, by value and by reference, read and write, without a panic
fn special_views<F: FB>(d: &mut Draw) -> Outcome {
    let wide = std::mem::size_of::<F>() == 8;
    let special: F = match d.int(0, 5) {
        0 => F::nan(),
        1 => -F::nan(),
        2 => F::of(-0.0),
        3 => F::infinity() * if d.bool() { F::one() } else { -F::one() },
        4 => F::of_bits(1),
        _ => F::of_bits(if wide { d.bits64() } else { d.bits32() as u64 }),
    };
    let slot = d.below(4);
    let mut base = [F::of(1.5), F::of(-2.25), F::of(3.125), F::of(-4.0625)];
    base[slot] = special;
    d.note("values (bit patterns), special slot", &(fbits(&base), slot));
    sv_vecs!(d, base, F; Vector1, 1, [x], (F,), |t| (t[0],), |u| vec![u.0]);
    sv_vecs!(d, base, F; Vector2, 2, [x, y], (F, F), |t| (t[0], t[1]), |u| vec![u.0, u.1]);
    sv_vecs!(d, base, F; Vector3, 3, [x, y, z], (F, F, F), |t| (t[0], t[1], t[2]), |u| vec![u.0, u.1, u.2]);
    sv_vecs!(d, base, F; Vector4, 4, [x, y, z, w], (F, F, F, F), |t| (t[0], t[1], t[2], t[3]), |u| vec![u.0, u.1, u.2, u.3]);
    sv_vecs!(d, base, F; Point1, 1, [x], (F,), |t| (t[0],), |u| vec![u.0]);
    sv_vecs!(d, base, F; Point2, 2, [x, y], (F, F), |t| (t[0], t[1]), |u| vec![u.0, u.1]);
    sv_vecs!(d, base, F; Point3, 3, [x, y, z], (F, F, F), |t| (t[0], t[1], t[2]), |u| vec![u.0, u.1, u.2]);
    // quaternion: x, y, z, then the scalar part
    {
        let arr = base;
        let want = fbits(&arr);
        let fields = |q: &Quaternion<F>| fbits(&[q.v.x, q.v.y, q.v.z, q.s]);
        let r = catches(|| {
            let q = Quaternion::from(arr);
            let back: [F; 4] = q.into();
            let rq: &Quaternion<F> = From::from(&arr);
            let mut arr2 = arr;
            let mq: &mut Quaternion<F> = From::from(&mut arr2);
            let mqf = fields(mq);
            let ar: &[F; 4] = q.as_ref();
            let mut w = q;
            let am: &mut [F; 4] = w.as_mut();
            let amb = fbits(&am[..]);
            let tup = (arr[0], arr[1], arr[2], arr[3]);
            let qt = Quaternion::from(tup);
            let tb: (F, F, F, F) = q.into();
            let rt: &Quaternion<F> = From::from(&tup);
            let tr: &(F, F, F, F) = q.as_ref();
            let idx: Vec<F> = (0..4).map(|i| q[i]).collect();
            let newq = Quaternion::new(arr[3], arr[0], arr[1], arr[2]);
            vec![fields(&q), fbits(&back), fields(rq), mqf, fbits(&ar[..]), amb, fields(&qt), fbits(&[tb.0, tb.1, tb.2, tb.3]), fields(rt), fbits(&[tr.0, tr.1, tr.2, tr.3]), fbits(&idx), fbits(&q[..]), fields(&newq)]
        });
        let names = ["from-array", "into-array", "from-array-ref", "from-array-mut", "as_ref-array", "as_mut-array", "from-tuple", "into-tuple", "from-tuple-ref", "as_ref-tuple", "index", "index-full-range", "new(s, x, y, z)"];
        match r {
            Err(m) => return Outcome::Fail { sig: "special-value-view-panics", msg: format!("Quaternion: a view or conversion of the components {:?} panicked: {}", arr, m) },
            Ok(all) => {
                for (k, got) in all.iter().enumerate() {
                    ensure!(*got == want, "special-value-view", "Quaternion: {} of the components {:?} gives bit patterns {:x?}, expected {:x?}", names[k], arr, got, want);
                }
            }
        }
        d.configs += 13;
    }
    // matrices: nested and flat arrays, columns
    {
        let flat4: [F; 16] = std::array::from_fn(|i| if i % 4 == slot && i / 4 == (slot + 1) % 4 { special } else { F::of((i as f64) * 0.5 - 3.25) });
        let want = fbits(&flat4);
        let r = catches(|| {
            let nested: [[F; 4]; 4] = std::array::from_fn(|c| std::array::from_fn(|r| flat4[c * 4 + r]));
            let m = Matrix4::from(nested);
            let back: [[F; 4]; 4] = m.into();
            let rm: &Matrix4<F> = From::from(&nested);
            let rf: &Matrix4<F> = From::from(&flat4);
            let af: &[F; 16] = m.as_ref();
            let cols = |x: &Matrix4<F>| fbits(&[x.x.x, x.x.y, x.x.z, x.x.w, x.y.x, x.y.y, x.y.z, x.y.w, x.z.x, x.z.y, x.z.z, x.z.w, x.w.x, x.w.y, x.w.z, x.w.w]);
            let idx: Vec<F> = (0..16).map(|i| m[i / 4][i % 4]).collect();
            // a 3x3 and a 2x2 block that contain the special entry wherever possible
            let (c0, r0) = (((slot + 1) % 4).min(1), slot.min(1));
            let m3n: [[F; 3]; 3] = std::array::from_fn(|c| std::array::from_fn(|r| flat4[(c + c0) * 4 + r + r0]));
            let m3 = Matrix3::from(m3n);
            let b3: [[F; 3]; 3] = m3.into();
            let (c0, r0) = (((slot + 1) % 4).min(2), slot.min(2));
            let m2n: [[F; 2]; 2] = std::array::from_fn(|c| std::array::from_fn(|r| flat4[(c + c0) * 4 + r + r0]));
            let m2 = Matrix2::from(m2n);
            let b2: [[F; 2]; 2] = m2.into();
            (vec![cols(&m), fbits(&back.concat()), cols(rm), cols(rf), fbits(&af[..]), fbits(&idx)], fbits(&b3.concat()) == fbits(&m3n.concat()), fbits(&b2.concat()) == fbits(&m2n.concat()))
        });
        match r {
            Err(m) => return Outcome::Fail { sig: "special-value-view-panics", msg: format!("a matrix view or conversion of the entries {:?} panicked: {}", flat4, m) },
            Ok((all, ok3, ok2)) => {
                let names = ["from-nested-array", "into-nested-array", "from-nested-array-ref", "from-flat-array-ref", "as_ref-flat-array", "index"];
                for (k, got) in all.iter().enumerate() {
                    ensure!(*got == want, "special-value-view", "Matrix4: {} of the entries {:?} gives bit patterns {:x?}", names[k], flat4, got);
                }
                ensure!(ok3 && ok2, "special-value-view", "Matrix3 / Matrix2: the nested-array round trip changes a bit pattern");
            }
        }
        d.configs += 8;
    }
    // swap_elements exchanges whatever the two slots hold - also two values that compare equal (zeros of opposite sign)
    // or that compare unequal to themselves (NaN of either sign)
    {
        let (x, y): (F, F) = match d.int(0, 2) {
            0 => (F::of(0.0), F::of(-0.0)),
            1 => (F::nan(), -F::nan()),
            _ => (special, -special),
        };
        macro_rules! swap_m {
            ($M:ident, $n:expr) => {{
                let (a, b) = (d.below($n * $n), d.below($n * $n));
                let mut flat: Vec<F> = (0..$n * $n).map(|i| F::of(i as f64 + 0.5)).collect();
                flat[a] = x;
                if b != a {
                    flat[b] = y;
                }
                let nested: [[F; $n]; $n] = std::array::from_fn(|c| std::array::from_fn(|r| flat[c * $n + r]));
                let mut m = $M::from(nested);
                let mut want = flat.clone();
                want.swap(a, b);
                let r = catches(move || { m.swap_elements((a / $n, a % $n), (b / $n, b % $n)); let back: [[F; $n]; $n] = m.into(); back.concat() });
                match r {
                    Err(e) => return Outcome::Fail { sig: "swap_elements-special-panics", msg: format!("{}::swap_elements panics on {:?}: {}", stringify!($M), flat, e) },
                    Ok(got) => ensure!(fbits(&got) == fbits(&want), "swap_elements-special", "{}::swap_elements(({},{}),({},{})) on entries with bit patterns {:x?} gives {:x?}", stringify!($M), a / $n, a % $n, b / $n, b % $n, fbits(&flat), fbits(&got)),
                }
                d.configs += 1;
            }};
        }
        swap_m!(Matrix2, 2);
        swap_m!(Matrix3, 3);
        swap_m!(Matrix4, 4);
        // vectors (Array::swap_elements)
        let (a, b) = (d.below(4), d.below(4));
        let mut comps = [F::of(0.5), F::of(1.5), F::of(2.5), F::of(3.5)];
        comps[a] = x;
        if b != a {
            comps[b] = y;
        }
        let mut v = Vector4::from(comps);
        let mut want = comps;
        want.swap(a, b);
        v.swap_elements(a, b);
        ensure!(fbits(&[v.x, v.y, v.z, v.w]) == fbits(&want), "swap_elements-special", "Vector4::swap_elements({},{}) on components with bit patterns {:x?}", a, b, fbits(&comps));
    }
    pass(if special.is_nan() { "nan" } else if special == F::zero() { "zero" } else if special.is_infinite() { "infinity" } else { "other" }, true)
}

fn mint_euler(d: &mut Draw) -> Outcome {
    let (a, b, c) = (d.f64_in(-3.0, 3.0), d.f64_in(-1.5, 1.5), d.f64_in(-3.0, 3.0));
    let e = Euler { x: Rad(a), y: Rad(b), z: Rad(c) };
    let m: mint::EulerAngles<Rad<f64>, mint::IntraXYZ> = e.into();
    ensure!(m.a == Rad(a) && m.b == Rad(b) && m.c == Rad(c), "mint-euler", "Euler -> mint::EulerAngles<_, IntraXYZ>: {:?}", m);
    let back: Euler<Rad<f64>> = m.into();
    ensure!(back == e, "mint-euler-back", "mint::EulerAngles -> Euler: {:?}", back);
    pass("intra-xyz", true)
}

pub fn property() -> Property {
    let mut s = Vec::new();
    macro_rules! add {
        ($name:expr, $scalar:expr, $f:expr, $q:expr, $t:expr, $len:expr, $rule:expr) => {
            s.push(SubCheck { name: $name, scalar: $scalar, quick: $q, thorough: $t, len: $len, f: $f, required: &[], rule: $rule, exhaustive: true });
        };
    }
    const R: &str = "every case sweeps the whole configuration space with pairwise distinct, freshly drawn tags; distinct = distinct tag assignment";
    macro_rules! any {
        ($T:ty, $tag:expr) => {
            add!(concat!("views-", $tag), $tag, views_any::<$T>, 60, 3000, 96, R);
        };
    }
    any!(u8, "u8");
    any!(i16, "i16");
    any!(i32, "i32");
    any!(i64, "i64");
    any!(u64, "u64");
    any!(usize, "usize");
    any!(f32, "f32");
    any!(f64, "f64");
    any!(char, "char");
    any!(Tag, "Tag");
    any!(&'static str, "str");
    any!(String, "String");
    macro_rules! cp {
        ($T:ty, $tag:expr) => {
            add!(concat!("array_matrix-", $tag), $tag, views_copy::<$T>, 40, 2000, 200, R);
        };
    }
    cp!(u8, "u8");
    cp!(i32, "i32");
    cp!(u64, "u64");
    cp!(f32, "f32");
    cp!(f64, "f64");
    cp!(char, "char");
    cp!(Tag, "Tag");
    cp!(&'static str, "str");
    macro_rules! num {
        ($T:ty, $tag:expr) => {
            add!(concat!("swizzles_numeric-", $tag), $tag, numeric::<$T>, 40, 2000, 48, R);
        };
    }
    num!(u8, "u8");
    num!(i16, "i16");
    num!(i32, "i32");
    num!(i64, "i64");
    num!(u64, "u64");
    num!(usize, "usize");
    num!(f32, "f32");
    num!(f64, "f64");
    add!("matrix_ptr-f32", "f32", matrix_ptr::<f32>, 40, 2000, 160, R);
    add!("matrix_ptr-f64", "f64", matrix_ptr::<f64>, 40, 2000, 160, R);
    add!("mint-i32", "i32", mint_conv::<i32>, 100, 5000, 48, R);
    add!("mint-f64", "f64", mint_conv::<f64>, 100, 5000, 48, R);
    add!("mint-char", "char", mint_conv::<char>, 100, 5000, 48, R);
    add!("mint-euler", "f64", mint_euler, 100, 5000, 16, "every generated triple");
    add!("from_value_bits-f32", "f32", from_value_bits_f32, 200, 10_000, 8, "every value (raw bit patterns, signed zeros, the smallest subnormal, infinities, NaN)");
    add!("from_value_bits-f64", "f64", from_value_bits_f64, 200, 10_000, 8, "every value (raw bit patterns, signed zeros, the smallest subnormal, infinities, NaN)");
    add!("special_value_views-f32", "f32", special_views::<f32>, 200, 10_000, 24, "every value (NaN of either sign, -0.0, infinities, the smallest subnormal, raw bit patterns) in every slot");
    add!("special_value_views-f64", "f64", special_views::<f64>, 200, 10_000, 24, "every value (NaN of either sign, -0.0, infinities, the smallest subnormal, raw bit patterns) in every slot");
    Property {
        id: "C16",
        title: "Layout, indexing, conversions and swizzles preserve every component in order",
        subchecks: s,
        assumptions: &[
            "the routing functions are generic in the element type, so they cannot depend on values: one all-distinct assignment per configuration decides the routing; tags are re-drawn every case to rule out accidental agreement",
            "all 550 swizzle words are enumerated by the harness' own build script (nested loops over the component letters), which asserts the counts 340/120/30/4 and 39/14/3",
            "non-numeric element types (char, a Copy struct, &'static str, String) are used wherever the impl has no numeric bound; impls bounded by BaseNum/BaseFloat are exercised with the primitive numeric types",
            "out-of-range and inverted indices must panic (catch_unwind); pointer views are dereferenced within bounds only; the ASan fuzz build is the memory-safety oracle for them (thorough tier)",
        ],
        fuzz: true,
    }
}
