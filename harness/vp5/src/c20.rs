//! C20 — serde round trip and field structure (feature `serde`).

use super::c18::{Flt, Parts};
use vcore::engine::*;
use vcore::ensure;
use cgmath::{Basis2, Basis3, Decomposed, Deg, Euler, Matrix2, Matrix3, Matrix4, Ortho, Perspective, PerspectiveFov, PlanarFov, Point1, Point2, Point3, Quaternion, Rad};
use cgmath::{Vector1, Vector2, Vector3, Vector4};
use serde::de::DeserializeOwned;
use serde::Serialize;
use serde_json::{json, Value};
use std::fmt::Debug;

/// the documented serialized structure of a value with the given components
pub trait Shape<F>: Parts<F> {
    fn shape(c: &[Value]) -> Value;
}
macro_rules! shape_fields {
    ($T:ident, [$($f:ident),+]) => {
        impl<F: Flt> Shape<F> for $T<F> {
            fn shape(c: &[Value]) -> Value {
                let mut m = serde_json::Map::new();
                let mut i = 0;
                $( m.insert(stringify!($f).to_string(), c[i].clone()); i += 1; )+
                let _ = i;
                Value::Object(m)
            }
        }
    };
}
shape_fields!(Vector1, [x]);
shape_fields!(Vector2, [x, y]);
shape_fields!(Vector3, [x, y, z]);
shape_fields!(Vector4, [x, y, z, w]);
shape_fields!(Point1, [x]);
shape_fields!(Point2, [x, y]);
shape_fields!(Point3, [x, y, z]);
fn col(c: &[Value]) -> Value {
    match c.len() {
        2 => json!({"x": c[0], "y": c[1]}),
        3 => json!({"x": c[0], "y": c[1], "z": c[2]}),
        _ => json!({"x": c[0], "y": c[1], "z": c[2], "w": c[3]}),
    }
}
fn mat(c: &[Value], n: usize) -> Value {
    match n {
        2 => json!({"x": col(&c[0..2]), "y": col(&c[2..4])}),
        3 => json!({"x": col(&c[0..3]), "y": col(&c[3..6]), "z": col(&c[6..9])}),
        _ => json!({"x": col(&c[0..4]), "y": col(&c[4..8]), "z": col(&c[8..12]), "w": col(&c[12..16])}),
    }
}
impl<F: Flt> Shape<F> for Matrix2<F> {
    fn shape(c: &[Value]) -> Value {
        mat(c, 2)
    }
}
impl<F: Flt> Shape<F> for Matrix3<F> {
    fn shape(c: &[Value]) -> Value {
        mat(c, 3)
    }
}
impl<F: Flt> Shape<F> for Matrix4<F> {
    fn shape(c: &[Value]) -> Value {
        mat(c, 4)
    }
}
impl<F: Flt> Shape<F> for Quaternion<F> {
    // Parts order for Quaternion is new(w, x, y, z)
    fn shape(c: &[Value]) -> Value {
        json!({"v": {"x": c[1], "y": c[2], "z": c[3]}, "s": c[0]})
    }
}
impl<F: Flt> Shape<F> for Rad<F> {
    fn shape(c: &[Value]) -> Value {
        c[0].clone()
    }
}
impl<F: Flt> Shape<F> for Deg<F> {
    fn shape(c: &[Value]) -> Value {
        c[0].clone()
    }
}
impl<F: Flt> Shape<F> for Euler<Rad<F>> {
    fn shape(c: &[Value]) -> Value {
        json!({"x": c[0], "y": c[1], "z": c[2]})
    }
}
impl<F: Flt> Shape<F> for Euler<Deg<F>> {
    fn shape(c: &[Value]) -> Value {
        json!({"x": c[0], "y": c[1], "z": c[2]})
    }
}
impl<F: Flt> Shape<F> for Basis2<F> {
    fn shape(c: &[Value]) -> Value {
        json!({"mat": mat(c, 2)})
    }
}
impl<F: Flt> Shape<F> for Basis3<F> {
    fn shape(c: &[Value]) -> Value {
        json!({"mat": mat(c, 3)})
    }
}
impl<F: Flt> Shape<F> for Decomposed<Vector3<F>, Quaternion<F>> {
    fn shape(c: &[Value]) -> Value {
        json!({"scale": c[0], "rot": <Quaternion<F> as Shape<F>>::shape(&c[1..5]), "disp": col(&c[5..8])})
    }
}
impl<F: Flt> Shape<F> for Decomposed<Vector3<F>, Basis3<F>> {
    fn shape(c: &[Value]) -> Value {
        json!({"scale": c[0], "rot": {"mat": mat(&c[1..10], 3)}, "disp": col(&c[10..13])})
    }
}
impl<F: Flt> Shape<F> for Decomposed<Vector2<F>, Basis2<F>> {
    fn shape(c: &[Value]) -> Value {
        json!({"scale": c[0], "rot": {"mat": mat(&c[1..5], 2)}, "disp": col(&c[5..7])})
    }
}
// projection descriptions
macro_rules! proj {
    ($T:ident, $n:expr, [$($f:ident),+], $angle_first:expr) => {
        impl<F: Flt> Parts<F> for $T<F> {
            const N: usize = $n;
            const NAME: &'static str = stringify!($T);
            fn build(c: &[F]) -> Self { let mut i = 0; $T { $($f: { i += 1; proj_field(c[i - 1], $angle_first && i == 1) }),+ } }
        }
        impl<F: Flt> Shape<F> for $T<F> {
            fn shape(c: &[Value]) -> Value {
                let mut m = serde_json::Map::new();
                let mut i = 0;
                $( m.insert(stringify!($f).to_string(), c[i].clone()); i += 1; )+
                let _ = i;
                Value::Object(m)
            }
        }
    };
}
/// helper so that the first field of the *Fov structs becomes a Rad
pub trait ProjField<F> {
    fn mk(v: F) -> Self;
}
impl<F: Flt> ProjField<F> for F {
    fn mk(v: F) -> F {
        v
    }
}
impl<F: Flt> ProjField<F> for Rad<F> {
    fn mk(v: F) -> Rad<F> {
        Rad(v)
    }
}
fn proj_field<F: Flt, X: ProjField<F>>(v: F, _angle: bool) -> X {
    X::mk(v)
}
proj!(Perspective, 6, [left, right, bottom, top, near, far], false);
proj!(Ortho, 6, [left, right, bottom, top, near, far], false);
proj!(PerspectiveFov, 4, [fovy, aspect, near, far], true);
proj!(PlanarFov, 5, [fovy, aspect, height, near, far], true);

/// finite component values with the awkward ones over-represented
fn comp<F: Flt>(d: &mut Draw) -> F {
    let big = F::max_value();
    let tiny = F::min_positive_value();
    match d.int(0, 7) {
        0 => d.pick(&[F::of(-0.0), F::of(0.0), tiny, -tiny, big, -big, tiny * F::of(0.5), F::of(1.0), F::of(0.1), F::of(1.0 / 3.0)]),
        1 => tiny * F::of(d.unit()),
        2 | 3 => {
            let v = F::finite_from(d);
            v
        }
        _ => {
            // raw bit patterns, made finite
            let v = if std::mem::size_of::<F>() == 4 { F::of(f32::from_bits(d.bits32()) as f64) } else { F::of(f64::from_bits(d.bits64())) };
            if v.is_finite() {
                v
            } else {
                F::of(1.5)
            }
        }
    }
}


/// A second serde format for the round trip: the data model of `serde_json::Value`, but one that reports itself as *not*
/// human readable (as CBOR, MessagePack or bincode do). serde_json alone only ever exercises the human-readable side
/// of an implementation.
mod binfmt {
    use serde::de::{Deserialize, Deserializer, Visitor};
    use serde::ser::{Serialize, Serializer};
    use serde_json::value::Serializer as Inner;
    use serde_json::{Error, Value};

    pub struct BinSer;
    macro_rules! scalars {
        ($($m:ident: $t:ty,)*) => { $(fn $m(self, v: $t) -> Result<Value, Error> { Inner.$m(v) })* };
    }
    impl Serializer for BinSer {
        type Ok = Value;
        type Error = Error;
        type SerializeSeq = <Inner as Serializer>::SerializeSeq;
        type SerializeTuple = <Inner as Serializer>::SerializeTuple;
        type SerializeTupleStruct = <Inner as Serializer>::SerializeTupleStruct;
        type SerializeTupleVariant = <Inner as Serializer>::SerializeTupleVariant;
        type SerializeMap = <Inner as Serializer>::SerializeMap;
        type SerializeStruct = <Inner as Serializer>::SerializeStruct;
        type SerializeStructVariant = <Inner as Serializer>::SerializeStructVariant;
        scalars! {
            serialize_bool: bool, serialize_i8: i8, serialize_i16: i16, serialize_i32: i32, serialize_i64: i64,
            serialize_u8: u8, serialize_u16: u16, serialize_u32: u32, serialize_u64: u64, serialize_f32: f32, serialize_f64: f64,
            serialize_char: char, serialize_str: &str, serialize_bytes: &[u8],
        }
        fn serialize_none(self) -> Result<Value, Error> { Inner.serialize_none() }
        fn serialize_some<T: ?Sized + Serialize>(self, v: &T) -> Result<Value, Error> { Inner.serialize_some(v) }
        fn serialize_unit(self) -> Result<Value, Error> { Inner.serialize_unit() }
        fn serialize_unit_struct(self, n: &'static str) -> Result<Value, Error> { Inner.serialize_unit_struct(n) }
        fn serialize_unit_variant(self, n: &'static str, i: u32, v: &'static str) -> Result<Value, Error> { Inner.serialize_unit_variant(n, i, v) }
        fn serialize_newtype_struct<T: ?Sized + Serialize>(self, n: &'static str, v: &T) -> Result<Value, Error> { Inner.serialize_newtype_struct(n, v) }
        fn serialize_newtype_variant<T: ?Sized + Serialize>(self, n: &'static str, i: u32, var: &'static str, v: &T) -> Result<Value, Error> { Inner.serialize_newtype_variant(n, i, var, v) }
        fn serialize_seq(self, len: Option<usize>) -> Result<Self::SerializeSeq, Error> { Inner.serialize_seq(len) }
        fn serialize_tuple(self, len: usize) -> Result<Self::SerializeTuple, Error> { Inner.serialize_tuple(len) }
        fn serialize_tuple_struct(self, n: &'static str, len: usize) -> Result<Self::SerializeTupleStruct, Error> { Inner.serialize_tuple_struct(n, len) }
        fn serialize_tuple_variant(self, n: &'static str, i: u32, v: &'static str, len: usize) -> Result<Self::SerializeTupleVariant, Error> { Inner.serialize_tuple_variant(n, i, v, len) }
        fn serialize_map(self, len: Option<usize>) -> Result<Self::SerializeMap, Error> { Inner.serialize_map(len) }
        fn serialize_struct(self, n: &'static str, len: usize) -> Result<Self::SerializeStruct, Error> { Inner.serialize_struct(n, len) }
        fn serialize_struct_variant(self, n: &'static str, i: u32, v: &'static str, len: usize) -> Result<Self::SerializeStructVariant, Error> { Inner.serialize_struct_variant(n, i, v, len) }
        fn is_human_readable(&self) -> bool { false }
    }

    pub struct BinDe(pub Value);
    impl<'de> Deserializer<'de> for BinDe {
        type Error = Error;
        fn deserialize_any<V: Visitor<'de>>(self, visitor: V) -> Result<V::Value, Error> { self.0.deserialize_any(visitor) }
        serde::forward_to_deserialize_any! {
            bool i8 i16 i32 i64 u8 u16 u32 u64 f32 f64 char str string bytes byte_buf option
            unit unit_struct seq tuple tuple_struct map struct enum identifier ignored_any
        }
        fn deserialize_newtype_struct<V: Visitor<'de>>(self, _name: &'static str, visitor: V) -> Result<V::Value, Error> { visitor.visit_newtype_struct(self) }
        fn is_human_readable(&self) -> bool { false }
    }
    pub fn to_bin<T: Serialize>(value: &T) -> Result<Value, Error> { value.serialize(BinSer) }
    pub fn from_bin<T: for<'de> Deserialize<'de>>(value: Value) -> Result<T, Error> { T::deserialize(BinDe(value)) }
}

fn bits<F: Flt>(v: F) -> u64 {
    v.f().to_bits()
}

fn roundtrip<F: Flt, T>(d: &mut Draw) -> Outcome
where
    T: Shape<F> + Serialize + DeserializeOwned + PartialEq + Debug,
{
    let n = T::N;
    let c: Vec<F> = (0..n).map(|_| comp::<F>(d)).collect();
    d.note(T::NAME, &c);
    let x = T::build(&c);
    // carrier 1: serde_json::Value (no text)
    let v = match serde_json::to_value(&x) {
        Ok(v) => v,
        Err(e) => return Outcome::Fail { sig: "serialize-error", msg: format!("{}: to_value failed: {}", T::NAME, e) },
    };
    let cv: Vec<Value> = c.iter().map(|f| serde_json::to_value(f).unwrap()).collect();
    let want = T::shape(&cv);
    ensure!(v == want, "structure", "{} serializes as {}, expected {}", T::NAME, v, want);
    // ... and bit for bit (Value equality does not tell -0.0 from 0.0)
    ensure!(value_bits(&v) == value_bits(&want), "structure-bits", "{} serializes as {}, expected {} (compared as bit patterns)", T::NAME, v, want);
    let back: T = match serde_json::from_value(v.clone()) {
        Ok(b) => b,
        Err(e) => return Outcome::Fail { sig: "deserialize-error", msg: format!("{}: from_value({}) failed: {}", T::NAME, v, e) },
    };
    // compare through a second serialization: bit-exact per component (covers -0.0, which == cannot see)
    let v2 = serde_json::to_value(&back).unwrap();
    ensure!(v2 == v && value_bits(&v2) == value_bits(&v), "value-roundtrip", "{}: value round trip changed the components: {} -> {}", T::NAME, v, v2);
    // the reconstructed value equals the value built directly from the per-component scalar round trips
    let per: Vec<F> = c.iter().map(|f| serde_json::from_value::<F>(serde_json::to_value(f).unwrap()).unwrap()).collect();
    ensure!(per.iter().zip(c.iter()).all(|(a, b)| bits(*a) == bits(*b)), "harness-scalar-roundtrip", "scalar Value round trip is not exact");
    ensure!(back == T::build(&per) || c.iter().any(|f| f.f() != f.f()), "value-roundtrip-eq", "{}: value round trip gives {:?}, expected {:?}", T::NAME, back, x);
    // carrier 3: a format that is not human readable - same structure, same field names, and the value comes back
    match binfmt::to_bin(&x) {
        Err(e) => return Outcome::Fail { sig: "serialize-error-binary", msg: format!("{}: serializing into a non-human-readable format failed: {}", T::NAME, e) },
        Ok(vb) => {
            ensure!(vb == want && value_bits(&vb) == value_bits(&want), "structure-binary", "{} serializes into a non-human-readable format as {}, expected {}", T::NAME, vb, want);
            match binfmt::from_bin::<T>(vb.clone()) {
                Err(e) => return Outcome::Fail { sig: "deserialize-error-binary", msg: format!("{}: reading {} back from a non-human-readable format failed: {}", T::NAME, vb, e) },
                Ok(bb) => {
                    let again = serde_json::to_value(&bb).unwrap();
                    ensure!(value_bits(&again) == value_bits(&want), "binary-roundtrip", "{}: round trip through a non-human-readable format gives {}, expected {}", T::NAME, again, want);
                }
            }
        }
    }
    // carrier 2: text
    let text = serde_json::to_string(&x).unwrap();
    let text_tree: Value = serde_json::from_str(&text).unwrap();
    let want_text_tree: Value = serde_json::from_str(&serde_json::to_string(&want).unwrap()).unwrap();
    // (numbers narrowed to the scalar type first: the text of an f32 is its shortest decimal, not that of the widened f64)
    let narrow = |t: &Value| -> Vec<u64> { value_bits(t).into_iter().map(|b| bits(F::of(f64::from_bits(b)))).collect() };
    ensure!(narrow(&text_tree) == narrow(&want_text_tree), "text-bits", "{} serializes to the text {}, expected {} (numbers compared as bit patterns)", T::NAME, text, want);
    let back2: T = match serde_json::from_str(&text) {
        Ok(b) => b,
        Err(e) => return Outcome::Fail { sig: "deserialize-error", msg: format!("{}: from_str({}) failed: {}", T::NAME, text, e) },
    };
    let per_text: Vec<F> = c.iter().map(|f| serde_json::from_str::<F>(&serde_json::to_string(f).unwrap()).unwrap()).collect();
    let expect = T::build(&per_text);
    let (tb, te) = (serde_json::to_value(&back2).unwrap(), serde_json::to_value(&expect).unwrap());
    ensure!(value_bits(&tb) == value_bits(&te), "text-roundtrip", "{}: text round trip {} gives {}, per-component scalar round trips give {}", T::NAME, text, tb, te);
    let exact = per_text.iter().zip(c.iter()).all(|(a, b)| bits(*a) == bits(*b));
    pass(if exact { "bit-exact" } else { "scalar-text-roundtrip-inexact" }, c.iter().any(|f| f.f() != 0.0))
}

/// all numbers of a JSON tree as bit patterns, in document order
fn value_bits(v: &Value) -> Vec<u64> {
    let mut out = Vec::new();
    fn go(v: &Value, out: &mut Vec<u64>) {
        match v {
            Value::Number(n) => out.push(n.as_f64().map(|f| f.to_bits()).unwrap_or(0)),
            Value::Array(a) => a.iter().for_each(|x| go(x, out)),
            Value::Object(m) => m.iter().for_each(|(_, x)| go(x, out)),
            _ => {}
        }
    }
    go(v, &mut out);
    out
}

fn integers(d: &mut Draw) -> Outcome {
    let v = Vector4::new(d.bits64() as i64, d.bits64() as i64, i64::MIN, i64::MAX);
    let t = serde_json::to_string(&v).unwrap();
    let b: Vector4<i64> = serde_json::from_str(&t).unwrap();
    ensure!(b == v, "integer-roundtrip", "Vector4<i64> {} -> {:?}", t, b);
    ensure!(serde_json::to_value(&v).unwrap() == json!({"x": v.x, "y": v.y, "z": v.z, "w": v.w}), "structure", "Vector4<i64> structure");
    let p = Point3::new(d.bits64(), u64::MAX, d.bits32() as u64);
    let b: Point3<u64> = serde_json::from_value(serde_json::to_value(&p).unwrap()).unwrap();
    ensure!(b == p, "integer-roundtrip", "Point3<u64> round trip");
    let v2 = Vector2::new(d.bits32() as u8, d.bits32() as u8);
    let b: Vector2<u8> = serde_json::from_str(&serde_json::to_string(&v2).unwrap()).unwrap();
    ensure!(b == v2, "integer-roundtrip", "Vector2<u8> round trip");
    let v1 = Vector1::new(d.bits32() as i32);
    let b: Vector1<i32> = serde_json::from_str(&serde_json::to_string(&v1).unwrap()).unwrap();
    ensure!(b == v1, "integer-roundtrip", "Vector1<i32> round trip");
    pass("integers", true)
}

/// deserialize *into an existing value* (serde's second entry point, which containers use to recycle their slots)
fn in_place<T: DeserializeOwned + Clone>(text: &str, start: &T) -> Result<T, serde_json::Error> {
    let mut place = start.clone();
    let mut de = serde_json::Deserializer::from_str(text);
    serde::Deserialize::deserialize_in_place(&mut de, &mut place)?;
    de.end()?;
    Ok(place)
}
fn in_place_vec<T: DeserializeOwned + Clone>(text: &str, start: &T) -> Result<Vec<T>, serde_json::Error> {
    let mut place = vec![start.clone(), start.clone()];
    let mut de = serde_json::Deserializer::from_str(text);
    serde::Deserialize::deserialize_in_place(&mut de, &mut place)?;
    de.end()?;
    Ok(place)
}

/// Decomposed: any field order accepted; a missing or unknown field is an error
fn decomposed_fields<F: Flt, T>(d: &mut Draw) -> Outcome
where
    T: Shape<F> + Serialize + DeserializeOwned + PartialEq + Debug + Clone,
{
    let n = T::N;
    let c: Vec<F> = (0..n).map(|_| comp::<F>(d)).collect();
    d.note(T::NAME, &c);
    let x = T::build(&c);
    let v = serde_json::to_value(&x).unwrap();
    let obj = v.as_object().expect("Decomposed serializes as a map");
    let keys: Vec<&String> = obj.keys().collect();
    ensure!(keys.len() == 3 && obj.contains_key("scale") && obj.contains_key("rot") && obj.contains_key("disp"), "structure", "Decomposed fields: {:?}", keys);
    let field = |k: &str| format!("\"{}\":{}", k, serde_json::to_string(&obj[k]).unwrap());
    let names = ["scale", "rot", "disp"];
    let perms = [[0, 1, 2], [0, 2, 1], [1, 0, 2], [1, 2, 0], [2, 0, 1], [2, 1, 0]];
    let reference: T = serde_json::from_str(&format!("{{{},{},{}}}", field("scale"), field("rot"), field("disp"))).expect("canonical order parses");
    let ref_bits = value_bits(&serde_json::to_value(&reference).unwrap());
    for p in perms.iter() {
        let text = format!("{{{},{},{}}}", field(names[p[0]]), field(names[p[1]]), field(names[p[2]]));
        match serde_json::from_str::<T>(&text) {
            Ok(b) => {
                ensure!(value_bits(&serde_json::to_value(&b).unwrap()) == ref_bits, "permutation-changes-value", "{}: field order {:?} deserialises to a different value", T::NAME, p);
            }
            Err(e) => return Outcome::Fail { sig: "permutation-rejected", msg: format!("{}: field order {:?} rejected: {} ({})", T::NAME, p, e, text) },
        }
        d.configs += 1;
    }
    // every single omission
    for omit in 0..3 {
        let kept: Vec<String> = (0..3).filter(|i| *i != omit).map(|i| field(names[i])).collect();
        for flip in 0..2 {
            let text = if flip == 0 { format!("{{{},{}}}", kept[0], kept[1]) } else { format!("{{{},{}}}", kept[1], kept[0]) };
            let r = catches(|| serde_json::from_str::<T>(&text));
            match r {
                Err(m) => return Outcome::Fail { sig: "omission-panics", msg: format!("{}: missing `{}` panics: {}", T::NAME, names[omit], m) },
                Ok(Ok(b)) => return Outcome::Fail { sig: "omission-accepted", msg: format!("{}: missing `{}` accepted as {:?}", T::NAME, names[omit], b) },
                Ok(Err(_)) => {}
            }
            d.configs += 1;
        }
    }
    // an omission is an omission however many keys the map has: one field left out and another one written twice (or
    // three times), in every position
    for omit in 0..3 {
        let kept: Vec<usize> = (0..3).filter(|i| *i != omit).collect();
        for (dup, order) in [(kept[0], [0usize, 1, 2]), (kept[1], [0, 1, 2]), (kept[0], [2, 0, 1]), (kept[1], [1, 2, 0])] {
            let mut parts = vec![field(names[kept[0]]), field(names[kept[1]]), field(names[dup])];
            if d.chance(1, 4) {
                parts.push(field(names[dup]));
            }
            let text = format!("{{{}}}", (0..parts.len()).map(|i| parts[if i < 3 { order[i] } else { i }].clone()).collect::<Vec<_>>().join(","));
            let r = catches(|| serde_json::from_str::<T>(&text));
            match r {
                Err(m) => return Outcome::Fail { sig: "omission-panics", msg: format!("{}: missing `{}` with a repeated key panics: {}", T::NAME, names[omit], m) },
                Ok(Ok(b)) => return Outcome::Fail { sig: "omission-with-duplicate-accepted", msg: format!("{}: {} (no `{}`) accepted as {:?}", T::NAME, text, names[omit], b) },
                Ok(Err(_)) => {}
            }
            d.configs += 1;
        }
    }
    // an unknown field at each position
    let unk = d.pick(&["\"extra\":1", "\"displacement\":{\"x\":0,\"y\":0,\"z\":0}", "\"Scale\":1.0", "\"\":null", "\"rotation\":0"]);
    for at in 0..4 {
        let mut parts: Vec<String> = names.iter().map(|k| field(k)).collect();
        parts.insert(at, unk.to_string());
        let text = format!("{{{}}}", parts.join(","));
        let r = catches(|| serde_json::from_str::<T>(&text));
        match r {
            Err(m) => return Outcome::Fail { sig: "unknown-field-panics", msg: format!("{}: unknown field panics: {}", T::NAME, m) },
            Ok(Ok(b)) => return Outcome::Fail { sig: "unknown-field-accepted", msg: format!("{}: unknown field {} accepted as {:?}", T::NAME, unk, b) },
            Ok(Err(_)) => {}
        }
        d.configs += 1;
    }
    // the same through deserialize_in_place, into a value that already holds other components (directly and as a
    // recycled slot of a Vec): every order gives the same value, an omission or an unknown field is an error and never
    // "whatever was there before"
    {
        let other = T::build(&(0..n).map(|_| comp::<F>(d)).collect::<Vec<F>>());
        for p in perms.iter() {
            let text = format!("{{{},{},{}}}", field(names[p[0]]), field(names[p[1]]), field(names[p[2]]));
            match catches(|| in_place::<T>(&text, &other)) {
                Ok(Ok(b)) => ensure!(value_bits(&serde_json::to_value(&b).unwrap()) == ref_bits, "in-place-changes-value", "{}: deserialize_in_place with field order {:?} gives a different value", T::NAME, p),
                Ok(Err(e)) => return Outcome::Fail { sig: "in-place-rejected", msg: format!("{}: deserialize_in_place rejects field order {:?}: {}", T::NAME, p, e) },
                Err(m) => return Outcome::Fail { sig: "in-place-panics", msg: format!("{}: deserialize_in_place panics: {}", T::NAME, m) },
            }
            match catches(|| in_place_vec::<T>(&format!("[{}]", text), &other)) {
                Ok(Ok(b)) => ensure!(b.len() == 1 && value_bits(&serde_json::to_value(&b[0]).unwrap()) == ref_bits, "in-place-changes-value", "{}: Vec::deserialize_in_place with field order {:?} gives {:?}", T::NAME, p, b),
                Ok(Err(e)) => return Outcome::Fail { sig: "in-place-rejected", msg: format!("{}: Vec::deserialize_in_place rejects field order {:?}: {}", T::NAME, p, e) },
                Err(m) => return Outcome::Fail { sig: "in-place-panics", msg: format!("{}: Vec::deserialize_in_place panics: {}", T::NAME, m) },
            }
        }
        for omit in 0..3 {
            let kept: Vec<String> = (0..3).filter(|i| *i != omit).map(|i| field(names[i])).collect();
            for text in [format!("{{{},{}}}", kept[0], kept[1]), format!("{{{},{}}}", kept[1], kept[0]), format!("{{{}}}", kept[0]), "{}".to_string()] {
                match catches(|| in_place::<T>(&text, &other)) {
                    Ok(Ok(b)) => return Outcome::Fail { sig: "in-place-omission-accepted", msg: format!("{}: deserialize_in_place of {} (no `{}`) into an existing value is accepted as {:?}", T::NAME, text, names[omit], b) },
                    Ok(Err(_)) => {}
                    Err(m) => return Outcome::Fail { sig: "in-place-panics", msg: format!("{}: deserialize_in_place panics: {}", T::NAME, m) },
                }
                match catches(|| in_place_vec::<T>(&format!("[{}]", text), &other)) {
                    Ok(Ok(b)) => return Outcome::Fail { sig: "in-place-omission-accepted", msg: format!("{}: Vec::deserialize_in_place of [{}] (no `{}`) into recycled slots is accepted as {:?}", T::NAME, text, names[omit], b) },
                    Ok(Err(_)) => {}
                    Err(m) => return Outcome::Fail { sig: "in-place-panics", msg: format!("{}: Vec::deserialize_in_place panics: {}", T::NAME, m) },
                }
            }
        }
        let mut parts: Vec<String> = names.iter().map(|k| field(k)).collect();
        parts.insert(d.below(4), unk.to_string());
        let text = format!("{{{}}}", parts.join(","));
        ensure!(matches!(catches(|| in_place::<T>(&text, &other)), Ok(Err(_))), "in-place-unknown-field-accepted", "{}: deserialize_in_place accepts (or panics on) the unknown field {}", T::NAME, unk);
        d.configs += 6 + 12 + 1;
    }
    // the same through the Value carrier (map access in key order)
    let mut without = obj.clone();
    without.remove(names[d.below(3)]);
    ensure!(serde_json::from_value::<T>(Value::Object(without)).is_err(), "omission-accepted", "{}: omission accepted through the Value carrier", T::NAME);
    let mut with = obj.clone();
    with.insert("zzz".to_string(), json!(1));
    ensure!(serde_json::from_value::<T>(Value::Object(with)).is_err(), "unknown-field-accepted", "{}: unknown field accepted through the Value carrier", T::NAME);
    pass("all-orders-omissions-unknowns", true)
}

pub fn property() -> Property {
    let mut s = Vec::new();
    macro_rules! add {
        ($name:expr, $scalar:expr, $f:expr, $q:expr, $t:expr, $len:expr, $req:expr, $rule:expr, $ex:expr) => {
            s.push(SubCheck { name: $name, scalar: $scalar, quick: $q, thorough: $t, len: $len, f: $f, required: $req, rule: $rule, exhaustive: $ex });
        };
    }
    const R: &str = "at least one non-zero component; components from raw finite bit patterns with -0.0, subnormals, MIN_POSITIVE, MAX over-represented";
    macro_rules! rt {
        ($T:ident, $tag:expr) => {
            add!(concat!("roundtrip-", $tag, "-f32"), "f32", roundtrip::<f32, $T<f32>>, 1500, 150_000, 112, &[("bit-exact", 900)], R, false);
            add!(concat!("roundtrip-", $tag, "-f64"), "f64", roundtrip::<f64, $T<f64>>, 1500, 150_000, 112, &[("bit-exact", 900)], R, false);
        };
    }
    rt!(Vector1, "Vector1");
    rt!(Vector2, "Vector2");
    rt!(Vector3, "Vector3");
    rt!(Vector4, "Vector4");
    rt!(Point1, "Point1");
    rt!(Point2, "Point2");
    rt!(Point3, "Point3");
    rt!(Matrix2, "Matrix2");
    rt!(Matrix3, "Matrix3");
    rt!(Matrix4, "Matrix4");
    rt!(Quaternion, "Quaternion");
    rt!(Rad, "Rad");
    rt!(Deg, "Deg");
    rt!(Basis2, "Basis2");
    rt!(Basis3, "Basis3");
    rt!(Perspective, "Perspective");
    rt!(PerspectiveFov, "PerspectiveFov");
    rt!(Ortho, "Ortho");
    rt!(PlanarFov, "PlanarFov");
    macro_rules! rtt {
        ($T64:ty, $T32:ty, $tag:expr) => {
            add!(concat!("roundtrip-", $tag, "-f32"), "f32", roundtrip::<f32, $T32>, 1500, 150_000, 112, &[("bit-exact", 900)], R, false);
            add!(concat!("roundtrip-", $tag, "-f64"), "f64", roundtrip::<f64, $T64>, 1500, 150_000, 112, &[("bit-exact", 900)], R, false);
        };
    }
    rtt!(Euler<Rad<f64>>, Euler<Rad<f32>>, "Euler_Rad");
    rtt!(Euler<Deg<f64>>, Euler<Deg<f32>>, "Euler_Deg");
    rtt!(Decomposed<Vector3<f64>, Quaternion<f64>>, Decomposed<Vector3<f32>, Quaternion<f32>>, "Decomposed_Quaternion");
    rtt!(Decomposed<Vector3<f64>, Basis3<f64>>, Decomposed<Vector3<f32>, Basis3<f32>>, "Decomposed_Basis3");
    rtt!(Decomposed<Vector2<f64>, Basis2<f64>>, Decomposed<Vector2<f32>, Basis2<f32>>, "Decomposed_Basis2");
    add!("roundtrip-integers", "i64,u64,u8,i32", integers, 1000, 50_000, 16, &[], "every generated value", false);
    const RD: &str = "all 6 field orders, all 3 omissions (both remaining orders) and an unknown field at each of 4 positions are enumerated in every case, through from_str and through deserialize_in_place (directly and as a recycled Vec slot)";
    add!("decomposed_fields-Quaternion-f64", "f64", decomposed_fields::<f64, Decomposed<Vector3<f64>, Quaternion<f64>>>, 500, 30_000, 160, &[], RD, true);
    add!("decomposed_fields-Quaternion-f32", "f32", decomposed_fields::<f32, Decomposed<Vector3<f32>, Quaternion<f32>>>, 500, 30_000, 160, &[], RD, true);
    add!("decomposed_fields-Basis3-f64", "f64", decomposed_fields::<f64, Decomposed<Vector3<f64>, Basis3<f64>>>, 500, 30_000, 160, &[], RD, true);
    add!("decomposed_fields-Basis2-f32", "f32", decomposed_fields::<f32, Decomposed<Vector2<f32>, Basis2<f32>>>, 500, 30_000, 160, &[], RD, true);
    add!("decomposed_fields-Basis3-f32", "f32", decomposed_fields::<f32, Decomposed<Vector3<f32>, Basis3<f32>>>, 500, 30_000, 160, &[], RD, true);
    add!("decomposed_fields-Basis2-f64", "f64", decomposed_fields::<f64, Decomposed<Vector2<f64>, Basis2<f64>>>, 500, 30_000, 160, &[], RD, true);
    Property {
        id: "C20",
        title: "Serialized values round-trip exactly and keep their field structure",
        subchecks: s,
        assumptions: &[
            "carriers: serde_json::Value (no text, lossless) and JSON text with serde_json's float_roundtrip feature; the scalar serde impls are the trusted base — the compound text round trip is compared bit for bit with the per-component scalar round trip through the same carrier",
            "finite component values only (JSON has no NaN/inf)",
            "field-order permutations are fed as text, because serde_json's Value map is key-ordered",
        ],
        fuzz: true,
    }
}
