//! C18 — approximate equality and predicates look at every component.

use vcore::engine::*;
use vcore::{ensure, ensure_r};
use approx::{AbsDiffEq, RelativeEq, UlpsEq};
use cgmath::prelude::*;
use cgmath::{Basis2, Basis3, BaseFloat, Decomposed, Deg, Euler, Matrix2, Matrix3, Matrix4, Point1, Point2, Point3, Quaternion, Rad};
use cgmath::{Vector1, Vector2, Vector3, Vector4};
use serde_json::json;
use std::fmt::Debug;

pub trait Flt: BaseFloat + Debug + serde::Serialize + serde::de::DeserializeOwned + 'static {
    const NAME: &'static str;
    fn of(x: f64) -> Self;
    fn f(self) -> f64;
    /// advance by n representable steps away from zero
    fn steps(self, n: u32) -> Self;
    fn finite_from(d: &mut Draw) -> Self;
}
impl Flt for f32 {
    const NAME: &'static str = "f32";
    fn of(x: f64) -> f32 {
        x as f32
    }
    fn f(self) -> f64 {
        self as f64
    }
    fn steps(self, n: u32) -> f32 {
        f32::from_bits(self.to_bits() + n)
    }
    fn finite_from(d: &mut Draw) -> f32 {
        match d.int(0, 3) {
            0 => d.f64_slog(1e-30, 1e30) as f32,
            1 => d.f64_slog(1e-3, 1e3) as f32,
            2 => d.pick(&[0.0f32, -0.0, 1.0, -1.0, f32::MIN_POSITIVE, 1e-40]),
            _ => d.f64_in(-10.0, 10.0) as f32,
        }
    }
}
impl Flt for f64 {
    const NAME: &'static str = "f64";
    fn of(x: f64) -> f64 {
        x
    }
    fn f(self) -> f64 {
        self
    }
    fn steps(self, n: u32) -> f64 {
        f64::from_bits(self.to_bits() + n as u64)
    }
    fn finite_from(d: &mut Draw) -> f64 {
        match d.int(0, 3) {
            0 => d.f64_slog(1e-200, 1e200),
            1 => d.f64_slog(1e-3, 1e3),
            2 => d.pick(&[0.0f64, -0.0, 1.0, -1.0, f64::MIN_POSITIVE, 1e-310]),
            _ => d.f64_in(-10.0, 10.0),
        }
    }
}

/// a compound type seen as a flat list of scalar components
pub trait Parts<F>: Sized + Debug {
    const N: usize;
    const NAME: &'static str;
    fn build(c: &[F]) -> Self;
}
macro_rules! parts_fields {
    ($T:ident, $n:expr, [$($f:ident),+]) => {
        impl<F: Flt> Parts<F> for $T<F> {
            const N: usize = $n;
            const NAME: &'static str = stringify!($T);
            fn build(c: &[F]) -> Self { let mut i = 0; $T { $($f: { i += 1; c[i - 1] }),+ } }
        }
    };
}
parts_fields!(Vector1, 1, [x]);
parts_fields!(Vector2, 2, [x, y]);
parts_fields!(Vector3, 3, [x, y, z]);
parts_fields!(Vector4, 4, [x, y, z, w]);
parts_fields!(Point1, 1, [x]);
parts_fields!(Point2, 2, [x, y]);
parts_fields!(Point3, 3, [x, y, z]);
impl<F: Flt> Parts<F> for Matrix2<F> {
    const N: usize = 4;
    const NAME: &'static str = "Matrix2";
    fn build(c: &[F]) -> Self {
        Matrix2::new(c[0], c[1], c[2], c[3])
    }
}
impl<F: Flt> Parts<F> for Matrix3<F> {
    const N: usize = 9;
    const NAME: &'static str = "Matrix3";
    fn build(c: &[F]) -> Self {
        Matrix3::new(c[0], c[1], c[2], c[3], c[4], c[5], c[6], c[7], c[8])
    }
}
impl<F: Flt> Parts<F> for Matrix4<F> {
    const N: usize = 16;
    const NAME: &'static str = "Matrix4";
    fn build(c: &[F]) -> Self {
        Matrix4::new(c[0], c[1], c[2], c[3], c[4], c[5], c[6], c[7], c[8], c[9], c[10], c[11], c[12], c[13], c[14], c[15])
    }
}
impl<F: Flt> Parts<F> for Quaternion<F> {
    const N: usize = 4;
    const NAME: &'static str = "Quaternion";
    fn build(c: &[F]) -> Self {
        Quaternion::new(c[0], c[1], c[2], c[3])
    }
}
impl<F: Flt> Parts<F> for Rad<F> {
    const N: usize = 1;
    const NAME: &'static str = "Rad";
    fn build(c: &[F]) -> Self {
        Rad(c[0])
    }
}
impl<F: Flt> Parts<F> for Deg<F> {
    const N: usize = 1;
    const NAME: &'static str = "Deg";
    fn build(c: &[F]) -> Self {
        Deg(c[0])
    }
}
impl<F: Flt> Parts<F> for Euler<Rad<F>> {
    const N: usize = 3;
    const NAME: &'static str = "Euler<Rad>";
    fn build(c: &[F]) -> Self {
        Euler { x: Rad(c[0]), y: Rad(c[1]), z: Rad(c[2]) }
    }
}
impl<F: Flt> Parts<F> for Euler<Deg<F>> {
    const N: usize = 3;
    const NAME: &'static str = "Euler<Deg>";
    fn build(c: &[F]) -> Self {
        Euler { x: Deg(c[0]), y: Deg(c[1]), z: Deg(c[2]) }
    }
}
/// Basis2/Basis3 have a private matrix: arbitrary element values go in through their public Deserialize impl
fn basis2<F: Flt>(c: &[F]) -> Basis2<F> {
    serde_json::from_value(json!({"mat": {"x": {"x": c[0], "y": c[1]}, "y": {"x": c[2], "y": c[3]}}})).expect("Basis2 deserialises")
}
fn basis3<F: Flt>(c: &[F]) -> Basis3<F> {
    serde_json::from_value(json!({"mat": {
        "x": {"x": c[0], "y": c[1], "z": c[2]}, "y": {"x": c[3], "y": c[4], "z": c[5]}, "z": {"x": c[6], "y": c[7], "z": c[8]}}}))
    .expect("Basis3 deserialises")
}
impl<F: Flt> Parts<F> for Basis2<F> {
    const N: usize = 4;
    const NAME: &'static str = "Basis2";
    fn build(c: &[F]) -> Self {
        basis2(c)
    }
}
impl<F: Flt> Parts<F> for Basis3<F> {
    const N: usize = 9;
    const NAME: &'static str = "Basis3";
    fn build(c: &[F]) -> Self {
        basis3(c)
    }
}
impl<F: Flt> Parts<F> for Decomposed<Vector3<F>, Quaternion<F>> {
    const N: usize = 8;
    const NAME: &'static str = "Decomposed<Vector3,Quaternion>";
    fn build(c: &[F]) -> Self {
        Decomposed { scale: c[0], rot: Quaternion::new(c[1], c[2], c[3], c[4]), disp: Vector3::new(c[5], c[6], c[7]) }
    }
}
impl<F: Flt> Parts<F> for Decomposed<Vector3<F>, Basis3<F>> {
    const N: usize = 13;
    const NAME: &'static str = "Decomposed<Vector3,Basis3>";
    fn build(c: &[F]) -> Self {
        Decomposed { scale: c[0], rot: basis3(&c[1..10]), disp: Vector3::new(c[10], c[11], c[12]) }
    }
}
impl<F: Flt> Parts<F> for Decomposed<Vector2<F>, Basis2<F>> {
    const N: usize = 7;
    const NAME: &'static str = "Decomposed<Vector2,Basis2>";
    fn build(c: &[F]) -> Self {
        Decomposed { scale: c[0], rot: basis2(&c[1..5]), disp: Vector2::new(c[5], c[6]) }
    }
}

/// the three relations against the conjunction of the scalar relations, every position probed
fn relations<F: Flt, T>(d: &mut Draw) -> Outcome
where
    T: Parts<F> + AbsDiffEq<Epsilon = F> + RelativeEq + UlpsEq,
{
    let n = T::N;
    let a: Vec<F> = (0..n).map(|_| F::finite_from(d)).collect();
    let eps = F::of(d.f64_log(1e-12, 1e-1));
    let rel = F::of(d.f64_log(1e-7, 1e-1));
    let ulps = d.int(1, 64) as u32;
    let tiny = F::of(1e-37);
    d.note(T::NAME, &a);
    d.note("epsilon, max_relative, max_ulps", &(eps, rel, ulps));
    let ta = T::build(&a);
    // reflexive with any tolerances
    ensure!(ta.abs_diff_eq(&ta, eps) && ta.relative_eq(&ta, eps, rel) && ta.ulps_eq(&ta, tiny, ulps), "not-reflexive", "{} is not approximately equal to itself", T::NAME);
    let mut outside = 0;
    let mut inside = 0;
    let check = |b: &[F], what: &str, d: &mut Draw| -> Result<(bool, bool, bool), Outcome> {
        let tb = T::build(b);
        let want_abs = (0..n).all(|i| F::abs_diff_eq(&a[i], &b[i], eps));
        let want_rel = (0..n).all(|i| F::relative_eq(&a[i], &b[i], eps, rel));
        let want_ulp = (0..n).all(|i| F::ulps_eq(&a[i], &b[i], tiny, ulps));
        let got = (ta.abs_diff_eq(&tb, eps), ta.relative_eq(&tb, eps, rel), ta.ulps_eq(&tb, tiny, ulps));
        if d.recording() {
            d.note(what, &b.to_vec());
        }
        ensure_r!(got.0 == want_abs, "abs_diff_eq", "{} {}: abs_diff_eq = {}, conjunction over components = {}; a = {:?}, b = {:?}, epsilon = {:?}", T::NAME, what, got.0, want_abs, a, b, eps);
        ensure_r!(got.1 == want_rel, "relative_eq", "{} {}: relative_eq = {}, conjunction over components = {}; a = {:?}, b = {:?}", T::NAME, what, got.1, want_rel, a, b);
        ensure_r!(got.2 == want_ulp, "ulps_eq", "{} {}: ulps_eq = {}, conjunction over components = {}; a = {:?}, b = {:?}, max_ulps = {}", T::NAME, what, got.2, want_ulp, a, b, ulps);
        // symmetric
        let sym = (tb.abs_diff_eq(&ta, eps), tb.relative_eq(&ta, eps, rel), tb.ulps_eq(&ta, tiny, ulps));
        ensure_r!(sym == got, "not-symmetric", "{} {}: relation differs when the operands are exchanged: {:?} vs {:?}", T::NAME, what, got, sym);
        // the default-tolerance entry points agree with the defaults spelled out
        let dflt = (
            ta.abs_diff_eq(&tb, T::default_epsilon()),
            ta.relative_eq(&tb, T::default_epsilon(), T::default_max_relative()),
            ta.ulps_eq(&tb, T::default_epsilon(), T::default_max_ulps()),
        );
        let mac = (approx::abs_diff_eq!(ta, tb), approx::relative_eq!(ta, tb), approx::ulps_eq!(ta, tb));
        ensure_r!(dflt == mac, "default-tolerances", "{} {}: macro forms with default tolerances disagree with the explicit call", T::NAME, what);
        // the negated entry points (trait methods and macros) are the negations
        let ne = (ta.abs_diff_ne(&tb, eps), ta.relative_ne(&tb, eps, rel), ta.ulps_ne(&tb, tiny, ulps));
        ensure_r!(ne == (!got.0, !got.1, !got.2), "ne-is-not-eq", "{} {}: (abs_diff_ne, relative_ne, ulps_ne) = {:?} but the _eq relations are {:?}; a = {:?}, b = {:?}", T::NAME, what, ne, got, a, b);
        let mac_ne = (approx::abs_diff_ne!(ta, tb), approx::relative_ne!(ta, tb), approx::ulps_ne!(ta, tb));
        ensure_r!(mac_ne == (!mac.0, !mac.1, !mac.2), "ne-is-not-eq", "{} {}: the _ne! macros with default tolerances are {:?} but the _eq! macros are {:?}", T::NAME, what, mac_ne, mac);
        let mac_tol = (approx::abs_diff_eq!(ta, tb, epsilon = eps), approx::relative_eq!(ta, tb, epsilon = eps, max_relative = rel), approx::ulps_eq!(ta, tb, epsilon = tiny, max_ulps = ulps));
        ensure_r!(mac_tol == got, "macro-tolerances", "{} {}: macro forms with explicit tolerances {:?} disagree with the method calls {:?}", T::NAME, what, mac_tol, got);
        Ok((want_abs, want_rel, want_ulp))
    };
    let h = F::of(1.0 / 1024.0);
    let one = F::of(1.0);
    for i in 0..n {
        for side in 0..2 {
            let k = if side == 0 { one - h } else { one + h };
            // absolute
            let mut b = a.clone();
            b[i] = a[i] + eps * k * if d.bool() { one } else { -one };
            match check(&b, "abs-perturbed", d) {
                Ok(r) => {
                    if r.0 { inside += 1 } else { outside += 1 }
                }
                Err(o) => return o,
            }
            // relative (only meaningful away from zero)
            let mut b = a.clone();
            b[i] = a[i] * (one + rel * k);
            match check(&b, "rel-perturbed", d) {
                Ok(r) => {
                    if r.1 { inside += 1 } else { outside += 1 }
                }
                Err(o) => return o,
            }
            // ulps: exactly max_ulps / max_ulps + 1 representable steps
            let mut b = a.clone();
            let st = a[i].steps(ulps + side as u32);
            if st.is_finite() {
                b[i] = st;
                match check(&b, "ulps-perturbed", d) {
                    Ok(r) => {
                        if r.2 { inside += 1 } else { outside += 1 }
                    }
                    Err(o) => return o,
                }
            }
            d.configs += 3;
        }
    }
    // several components at once
    let mut b = a.clone();
    for i in 0..n {
        if d.bool() {
            b[i] = a[i] + eps * F::of(d.f64_in(-2.0, 2.0));
        }
    }
    vcore::tryo!(check(&b, "multi-perturbed", d).map(|_| ()));
    // components that are equal for different reasons: one within epsilon only (small, of opposite signs), another within
    // max_relative / max_ulps only (far too large for epsilon) - each relation is a conjunction over components of a
    // disjunction over reasons, not the other way round. Both values are given, the ulps relation takes the real epsilon
    let pairwise = |x: &[F], y: &[F], e: F, what: &str, d: &mut Draw| -> Result<(), Outcome> {
        let (tx, ty) = (T::build(x), T::build(y));
        let want = (
            (0..n).all(|i| F::abs_diff_eq(&x[i], &y[i], e)),
            (0..n).all(|i| F::relative_eq(&x[i], &y[i], e, rel)),
            (0..n).all(|i| F::ulps_eq(&x[i], &y[i], e, ulps)),
        );
        let got = (tx.abs_diff_eq(&ty, e), tx.relative_eq(&ty, e, rel), tx.ulps_eq(&ty, e, ulps));
        if d.recording() {
            d.note(what, &(x.to_vec(), y.to_vec(), e));
        }
        ensure_r!(got == want, "mixed-reasons", "{} {}: (abs_diff_eq, relative_eq, ulps_eq) = {:?}, the conjunctions of the scalar relations are {:?}; a = {:?}, b = {:?}, epsilon = {:?}, max_relative = {:?}, max_ulps = {}", T::NAME, what, got, want, x, y, e, rel, ulps);
        let sym = (ty.abs_diff_eq(&tx, e), ty.relative_eq(&tx, e, rel), ty.ulps_eq(&tx, e, ulps));
        ensure_r!(sym == got, "not-symmetric", "{} {}: relation differs when the operands are exchanged: {:?} vs {:?}", T::NAME, what, got, sym);
        let ne = (tx.abs_diff_ne(&ty, e), tx.relative_ne(&ty, e, rel), tx.ulps_ne(&ty, e, ulps));
        ensure_r!(ne == (!got.0, !got.1, !got.2), "ne-is-not-eq", "{} {}: the _ne relations {:?} are not the negations of {:?}", T::NAME, what, ne, got);
        Ok(())
    };
    if n >= 2 {
        let i = d.below(n);
        let j = (i + 1 + d.below(n - 1)) % n;
        let third = F::of(0.3);
        let big = eps / F::epsilon() * F::of(64.0);
        for (name, bj) in [("mixed-reasons(epsilon, ulps)", big.steps(1 + d.below(ulps as usize) as u32)), ("mixed-reasons(epsilon, relative)", big * (one + rel * F::of(0.5)))] {
            let (mut x, mut y) = (a.clone(), a.clone());
            x[i] = eps * third;
            y[i] = -(eps * third);
            x[j] = big;
            y[j] = bj;
            vcore::tryo!(pairwise(&x, &y, eps, name, d));
            // and with only one of the two in place (each reason alone)
            let mut y1 = x.clone();
            y1[i] = y[i];
            vcore::tryo!(pairwise(&x, &y1, eps, name, d));
            let mut y2 = x.clone();
            y2[j] = y[j];
            vcore::tryo!(pairwise(&x, &y2, eps, name, d));
        }
        // a zero of either sign against the other, with an epsilon that lets nothing through
        let (mut x, mut y) = (a.clone(), a.clone());
        x[i] = F::of(0.0);
        y[i] = -F::of(0.0);
        vcore::tryo!(pairwise(&x, &y, -eps, "signed zeros, negative epsilon", d));
        vcore::tryo!(pairwise(&x, &y, eps, "signed zeros", d));
        // an infinity shared by both values (equal in ulps, never within epsilon) next to a component that is within epsilon
        if !T::NAME.contains("Basis") {
            let (mut x, mut y) = (a.clone(), a.clone());
            let inf = if d.bool() { F::infinity() } else { F::neg_infinity() };
            x[i] = inf;
            y[i] = inf;
            y[j] = x[j] + eps * F::of(0.5);
            vcore::tryo!(pairwise(&x, &y, eps, "shared infinity, another component within epsilon", d));
        }
        d.configs += 9;
    }
    // non-finite components, on one side or on both: whatever the scalar relation says of an infinity or a NaN, the
    // compound relation is the conjunction of it (checked against a, and of the value against itself)
    let pos = d.below(n);
    // (Basis2 and Basis3 have no public constructor from components; the harness builds it through serde_json, which cannot carry
    // an infinity or a NaN, so those types only get the largest finite values here)
    let via_json = T::NAME.contains("Basis");
    let nf = if via_json { d.pick(&[F::max_value(), -F::max_value()]) } else { d.pick(&[F::infinity(), F::neg_infinity(), F::nan(), F::max_value(), -F::max_value()]) };
    let mut b = a.clone();
    b[pos] = nf;
    vcore::tryo!(check(&b, "non-finite-component", d).map(|_| ()));
    {
        let tb = T::build(&b);
        let want = (F::abs_diff_eq(&nf, &nf, eps), F::relative_eq(&nf, &nf, eps, rel), F::ulps_eq(&nf, &nf, tiny, ulps));
        let got = (tb.abs_diff_eq(&tb, eps), tb.relative_eq(&tb, eps, rel), tb.ulps_eq(&tb, tiny, ulps));
        ensure!(got == want, "non-finite-self", "{} with component {} = {:?} compared with itself: {:?}, the scalar relations give {:?}", T::NAME, pos, nf, got, want);
    }
    pass(if outside > 0 && inside > 0 { "inside-and-outside" } else { "one-sided" }, outside > 0 && inside > 0)
}

/// is_finite / is_zero on every position
fn finite_zero<F: Flt>(d: &mut Draw) -> Outcome {
    let bad = d.pick(&[F::nan(), F::infinity(), F::neg_infinity()]);
    // finite values, including ones whose sums or products overflow
    let big = F::max_value();
    let vals: Vec<F> = (0..16)
        .map(|_| match d.int(0, 5) {
            0 => d.pick(&[big, -big, big * F::of(0.75), -big * F::of(0.75), big * F::of(0.5)]),
            _ => F::finite_from(d),
        })
        .collect();
    d.note("components", &vals);
    macro_rules! fin {
        ($T:ty, $call:expr) => {{
            let n = <$T as Parts<F>>::N;
            let base = <$T as Parts<F>>::build(&vals[..n]);
            ensure!($call(&base), "is_finite-false-on-finite", "{}::is_finite() is false for finite components {:?}", <$T as Parts<F>>::NAME, &vals[..n]);
            for i in 0..n {
                let mut c = vals[..n].to_vec();
                c[i] = bad;
                let t = <$T as Parts<F>>::build(&c);
                ensure!(!$call(&t), "is_finite-misses-component", "{}::is_finite() is true with {:?} at position {}", <$T as Parts<F>>::NAME, bad, i);
                d.configs += 1;
            }
        }};
    }
    fin!(Vector1<F>, |v: &Vector1<F>| v.is_finite());
    fin!(Vector2<F>, |v: &Vector2<F>| v.is_finite());
    fin!(Vector3<F>, |v: &Vector3<F>| v.is_finite());
    fin!(Vector4<F>, |v: &Vector4<F>| v.is_finite());
    fin!(Point1<F>, |v: &Point1<F>| v.is_finite());
    fin!(Point2<F>, |v: &Point2<F>| v.is_finite());
    fin!(Point3<F>, |v: &Point3<F>| v.is_finite());
    fin!(Matrix2<F>, |v: &Matrix2<F>| v.is_finite());
    fin!(Matrix3<F>, |v: &Matrix3<F>| v.is_finite());
    fin!(Matrix4<F>, |v: &Matrix4<F>| v.is_finite());
    fin!(Quaternion<F>, |v: &Quaternion<F>| v.is_finite());

    // is_zero: vectors exactly, matrices / quaternions / angles up to ulps
    let z = F::of(0.0);
    let eps = F::default_epsilon();
    let small = d.pick(&[F::of(1e-300), F::of(1e-40), F::min_positive_value(), eps * F::of(0.5), eps * F::of(2.0), F::of(1.0)]);
    let small = if d.bool() { small } else { -small };
    macro_rules! zero_exact {
        ($T:ty) => {{
            let n = <$T as Parts<F>>::N;
            let mut c = vec![z; n];
            if d.bool() { c[d.below(n)] = -z; }
            ensure!(<$T as Parts<F>>::build(&c).is_zero(), "is_zero-false-on-zero", "{}::is_zero() false on zero components {:?}", <$T as Parts<F>>::NAME, c);
            for i in 0..n {
                let mut c = vec![z; n];
                c[i] = small;
                let want = small == z;
                ensure!(<$T as Parts<F>>::build(&c).is_zero() == want, "is_zero-misses-component", "{}::is_zero() with {:?} at position {} should be {}", <$T as Parts<F>>::NAME, small, i, want);
                d.configs += 1;
            }
        }};
    }
    zero_exact!(Vector1<F>);
    zero_exact!(Vector2<F>);
    zero_exact!(Vector3<F>);
    zero_exact!(Vector4<F>);
    macro_rules! zero_ulps {
        ($T:ty) => {{
            let n = <$T as Parts<F>>::N;
            // the type's own default tolerances (matrices use 1e-6, not the scalar epsilon)
            let te = <$T as AbsDiffEq>::default_epsilon();
            let tu = <$T as UlpsEq>::default_max_ulps();
            ensure!(<$T as Parts<F>>::build(&vec![z; n]).is_zero(), "is_zero-false-on-zero", "{}::is_zero() false on zero", <$T as Parts<F>>::NAME);
            let probe = d.pick(&[te * F::of(0.5), te * F::of(1.0 - 1.0 / 64.0), te * F::of(1.0 + 1.0 / 64.0), te * F::of(2.0), F::min_positive_value(), F::of(1.0)]);
            let probe = if d.bool() { probe } else { -probe };
            for i in 0..n {
                let mut c = vec![z; n];
                c[i] = probe;
                let want = F::ulps_eq(&probe, &z, te, tu);
                ensure!(<$T as Parts<F>>::build(&c).is_zero() == want, "is_zero-misses-component", "{}::is_zero() with {:?} at position {} should be {} (default epsilon {:?})", <$T as Parts<F>>::NAME, probe, i, want, te);
                d.configs += 1;
            }
        }};
    }
    zero_ulps!(Matrix2<F>);
    zero_ulps!(Matrix3<F>);
    zero_ulps!(Matrix4<F>);
    zero_ulps!(Quaternion<F>);
    zero_ulps!(Rad<F>);
    zero_ulps!(Deg<F>);
    pass(F::NAME, true)
}

fn ueq<F: Flt>(a: F, b: F) -> bool {
    F::ulps_eq(&a, &b, F::default_epsilon(), F::default_max_ulps())
}

/// matrix predicates, one element perturbed at a time just inside / outside the default tolerance
fn matrix_predicates<F: Flt>(d: &mut Draw) -> Outcome {
    let eps = F::default_epsilon();
    let h = F::of(1.0 / 64.0);
    let one = F::of(1.0);
    let z = F::of(0.0);
    macro_rules! preds {
        ($M:ident, $n:expr) => {{
            const N: usize = $n;
            let name = stringify!($M);
            // diagonal base with generic diagonal, symmetric base with generic entries
            let diag: Vec<F> = (0..N).map(|_| F::of(d.f64_slog(1e-3, 1e3))).collect();
            let mut sym = vec![z; N * N];
            for c in 0..N {
                for r in 0..=c {
                    let v = F::of(d.f64_slog(1e-3, 1e3));
                    sym[c * N + r] = v;
                    sym[r * N + c] = v;
                }
            }
            for c in 0..N {
                for r in 0..N {
                    for side in 0..2 {
                        let k = if side == 0 { one - h } else { one + h };
                        let delta = eps * k * if d.bool() { one } else { -one };
                        // identity with one element moved; the comparison uses the matrix type's default epsilon
                        let me = <$M<F> as AbsDiffEq>::default_epsilon();
                        let mu = <$M<F> as UlpsEq>::default_max_ulps();
                        let mut e = vec![z; N * N];
                        for i in 0..N { e[i * N + i] = one; }
                        e[c * N + r] = e[c * N + r] + me * k * if d.bool() { one } else { -one };
                        let m = <$M<F> as Parts<F>>::build(&e);
                        let want = (0..N * N).all(|i| F::ulps_eq(&e[i], &if i / N == i % N { one } else { z }, me, mu));
                        ensure!(m.is_identity() == want, "is_identity", "{}::is_identity() = {} with element ({},{}) = {:?}; every element ulps-equal to identity: {}", name, m.is_identity(), c, r, e[c * N + r], want);
                        ensure!(m.is_identity() == approx::ulps_eq!(m, $M::<F>::identity()), "is_identity-vs-ulps_eq", "{}::is_identity() differs from ulps_eq(m, identity())", name);
                        // diagonal matrix with one off-diagonal element moved
                        if c != r {
                            let mut e = vec![z; N * N];
                            for i in 0..N { e[i * N + i] = diag[i]; }
                            e[c * N + r] = delta;
                            let m = <$M<F> as Parts<F>>::build(&e);
                            let want = (0..N * N).all(|i| i / N == i % N || ueq(e[i], z));
                            ensure!(m.is_diagonal() == want, "is_diagonal", "{}::is_diagonal() = {} with element ({},{}) = {:?}; every off-diagonal element ulps-equal to 0: {}", name, m.is_diagonal(), c, r, delta, want);
                            // symmetric matrix with one off-diagonal element moved (absolutely and by ulps)
                            for mode in 0..2 {
                                let mut e = sym.clone();
                                e[c * N + r] = if mode == 0 { e[c * N + r] + delta } else { e[c * N + r].steps(4 + side as u32) };
                                let m = <$M<F> as Parts<F>>::build(&e);
                                let want = (0..N).all(|a| (0..N).all(|b| ueq(e[a * N + b], e[b * N + a])));
                                ensure!(m.is_symmetric() == want, "is_symmetric", "{}::is_symmetric() = {} with element ({},{}) moved to {:?} (mirror {:?}); every element ulps-equal to its mirror: {}", name, m.is_symmetric(), c, r, e[c * N + r], e[r * N + c], want);
                            }
                        }
                        d.configs += 1;
                    }
                }
            }
            ensure!(<$M<F> as Parts<F>>::build(&sym).is_symmetric(), "is_symmetric-false-on-symmetric", "{}::is_symmetric() false on a symmetric matrix", name);
            // is_invertible: negated ulps comparison of the determinant with 0
            let mut e = vec![z; N * N];
            for i in 0..N { e[i * N + i] = one; }
            let tiny = match d.int(0, 3) { 0 => z, 1 => eps * (one - h), 2 => eps * (one + h), _ => F::of(d.f64_slog(1e-3, 1e3)) };
            e[0] = tiny;
            let m = <$M<F> as Parts<F>>::build(&e);
            let want = !ueq(m.determinant(), z);
            ensure!(m.is_invertible() == want, "is_invertible", "{}::is_invertible() = {} with determinant {:?}", name, m.is_invertible(), m.determinant());
            let g: Vec<F> = (0..N * N).map(|_| F::of(d.f64_slog(1e-3, 1e3))).collect();
            let m = <$M<F> as Parts<F>>::build(&g);
            ensure!(m.is_invertible() == !ueq(m.determinant(), z), "is_invertible", "{}::is_invertible() on a generic matrix", name);
            // every magnitude: entries whose products underflow, overflow to an infinity, or cancel to NaN - the predicates
            // are *defined* as the ulps comparison of whatever determinant()/the elements are
            let scale = match d.int(0, 3) {
                0 => F::of(d.f64_log(1e-40, 1e-10)),
                1 => F::of(d.f64_log(1e10, 1e38)),
                2 => F::max_value() / F::of(d.f64_log(1.0, 1e3)),
                _ => F::of(d.f64_log(1e-3, 1e3)),
            };
            let g: Vec<F> = (0..N * N).map(|i| if d.chance(1, 4) && i / N != i % N { z } else { F::of(d.f64_slog(0.5, 2.0)) * scale }).collect();
            let m = <$M<F> as Parts<F>>::build(&g);
            let det = m.determinant();
            ensure!(m.is_invertible() == !ueq(det, z), "is_invertible-extreme", "{}::is_invertible() = {} but determinant() = {:?} (entries of magnitude {:?})", name, m.is_invertible(), det, scale);
            let want_d = (0..N * N).all(|i| i / N == i % N || ueq(g[i], z));
            ensure!(m.is_diagonal() == want_d, "is_diagonal-extreme", "{}::is_diagonal() = {} on entries of magnitude {:?}", name, m.is_diagonal(), scale);
            let want_s = (0..N).all(|a| (0..N).all(|b| ueq(g[a * N + b], g[b * N + a])));
            ensure!(m.is_symmetric() == want_s, "is_symmetric-extreme", "{}::is_symmetric() = {} on entries of magnitude {:?}", name, m.is_symmetric(), scale);
            ensure!(m.is_finite() == g.iter().all(|x| x.is_finite()), "is_finite-extreme", "{}::is_finite() on entries of magnitude {:?}", name, scale);
            // one entry not finite, at every position: is_diagonal looks at the off-diagonal entries only, is_identity
            // at every entry, is_invertible at whatever the determinant comes out as
            {
                let pos = d.below(N * N);
                let nf = d.pick(&[F::nan(), F::infinity(), F::neg_infinity()]);
                let mut e = vec![z; N * N];
                for i in 0..N { e[i * N + i] = if d.bool() { one } else { diag[i] }; }
                e[pos] = nf;
                let m = <$M<F> as Parts<F>>::build(&e);
                let want_d = (0..N * N).all(|i| i / N == i % N || ueq(e[i], z));
                ensure!(m.is_diagonal() == want_d, "is_diagonal-non-finite", "{}::is_diagonal() = {} with entry ({},{}) = {:?} (only off-diagonal entries matter)", name, m.is_diagonal(), pos / N, pos % N, nf);
                let me = <$M<F> as AbsDiffEq>::default_epsilon();
                let mu = <$M<F> as UlpsEq>::default_max_ulps();
                let want_i = (0..N * N).all(|i| F::ulps_eq(&e[i], &if i / N == i % N { one } else { z }, me, mu));
                ensure!(m.is_identity() == want_i, "is_identity-non-finite", "{}::is_identity() = {} with entry ({},{}) = {:?}", name, m.is_identity(), pos / N, pos % N, nf);
                ensure!(m.is_invertible() == !ueq(m.determinant(), z), "is_invertible-non-finite", "{}::is_invertible() = {} with determinant {:?}", name, m.is_invertible(), m.determinant());
                ensure!(!m.is_finite(), "is_finite-non-finite", "{}::is_finite() is true with entry ({},{}) = {:?}", name, pos / N, pos % N, nf);
            }
        }};
    }
    preds!(Matrix2, 2);
    preds!(Matrix3, 3);
    preds!(Matrix4, 4);
    // is_perpendicular: ulps comparison of the dot product with 0
    macro_rules! perp {
        ($V:ident, $n:expr) => {{
            let u: Vec<F> = (0..$n).map(|_| F::of(d.f64_slog(1e-3, 1e3))).collect();
            // v perpendicular to u up to a small, controlled dot product
            let mut v: Vec<F> = vec![z; $n];
            let target = match d.int(0, 3) { 0 => z, 1 => eps * (one - h), 2 => eps * (one + h), _ => F::of(d.f64_slog(1e-3, 1e3)) };
            v[0] = target / u[0];
            let (cu, cv) = (<$V<F> as Parts<F>>::build(&u), <$V<F> as Parts<F>>::build(&v));
            let want = ueq(cu.dot(cv), z);
            ensure!(cu.is_perpendicular(cv) == want, "is_perpendicular", "{}::is_perpendicular = {} with dot product {:?}", stringify!($V), cu.is_perpendicular(cv), cu.dot(cv));
        }};
    }
    perp!(Vector1, 1);
    perp!(Vector2, 2);
    perp!(Vector3, 3);
    perp!(Vector4, 4);
    perp!(Quaternion, 4);
    pass(F::NAME, true)
}

pub fn property() -> Property {
    let mut s = Vec::new();
    macro_rules! add {
        ($name:expr, $scalar:expr, $f:expr, $q:expr, $t:expr, $len:expr, $req:expr, $rule:expr) => {
            s.push(SubCheck { name: $name, scalar: $scalar, quick: $q, thorough: $t, len: $len, f: $f, required: $req, rule: $rule, exhaustive: true });
        };
    }
    const R: &str = "every component position x {abs_diff, relative, ulps} x {just inside, just outside} is probed in every case; non-trivial = both an inside and an outside verdict occurred";
    const REQ: &[(&str, u32)] = &[("inside-and-outside", 500)];
    macro_rules! rel {
        ($T:ident, $tag:expr) => {
            add!(concat!("relations-", $tag, "-f32"), "f32", relations::<f32, $T<f32>>, 1000, 50_000, 200, REQ, R);
            add!(concat!("relations-", $tag, "-f64"), "f64", relations::<f64, $T<f64>>, 1000, 50_000, 200, REQ, R);
        };
    }
    rel!(Vector1, "Vector1");
    rel!(Vector2, "Vector2");
    rel!(Vector3, "Vector3");
    rel!(Vector4, "Vector4");
    rel!(Point1, "Point1");
    rel!(Point2, "Point2");
    rel!(Point3, "Point3");
    rel!(Matrix2, "Matrix2");
    rel!(Matrix3, "Matrix3");
    rel!(Matrix4, "Matrix4");
    rel!(Quaternion, "Quaternion");
    rel!(Rad, "Rad");
    rel!(Deg, "Deg");
    rel!(Basis2, "Basis2");
    rel!(Basis3, "Basis3");
    macro_rules! relt {
        ($T:ty, $T32:ty, $tag:expr) => {
            add!(concat!("relations-", $tag, "-f32"), "f32", relations::<f32, $T32>, 1000, 50_000, 260, REQ, R);
            add!(concat!("relations-", $tag, "-f64"), "f64", relations::<f64, $T>, 1000, 50_000, 260, REQ, R);
        };
    }
    relt!(Euler<Rad<f64>>, Euler<Rad<f32>>, "Euler_Rad");
    relt!(Euler<Deg<f64>>, Euler<Deg<f32>>, "Euler_Deg");
    relt!(Decomposed<Vector3<f64>, Quaternion<f64>>, Decomposed<Vector3<f32>, Quaternion<f32>>, "Decomposed_Quaternion");
    relt!(Decomposed<Vector3<f64>, Basis3<f64>>, Decomposed<Vector3<f32>, Basis3<f32>>, "Decomposed_Basis3");
    relt!(Decomposed<Vector2<f64>, Basis2<f64>>, Decomposed<Vector2<f32>, Basis2<f32>>, "Decomposed_Basis2");
    const RP: &str = "every position of every type probed with NaN/+inf/-inf (is_finite) and with a value just inside / outside the default tolerance";
    add!("finite_zero-f32", "f32", finite_zero::<f32>, 2000, 100_000, 160, &[], RP);
    add!("finite_zero-f64", "f64", finite_zero::<f64>, 2000, 100_000, 160, &[], RP);
    add!("matrix_predicates-f32", "f32", matrix_predicates::<f32>, 1000, 50_000, 900, &[], RP);
    add!("matrix_predicates-f64", "f64", matrix_predicates::<f64>, 1000, 50_000, 900, &[], RP);
    Property {
        id: "C18",
        title: "Approximate-equality and predicate methods test every component",
        subchecks: s,
        assumptions: &[
            "the scalar impls of the approx crate (f32/f64) are the trusted base: the compound relation must equal the conjunction of the scalar relation over corresponding components with the same tolerances",
            "Basis2/Basis3 values with arbitrary elements are obtained through their public Deserialize impl (feature serde)",
            "finite component values only, except for the is_finite probes",
            "is_invertible is compared with the negated ulps-comparison of cgmath's own determinant() (whose value is the subject of C02)",
        ],
        fuzz: false,
    }
}
