pub mod c18;
pub mod c20;

pub fn all() -> Vec<vcore::engine::Property> {
    vec![c18::property(), c20::property()]
}
