//! C10 — projections map the view volume onto the clip cube and reject bad parameters.

use vcore::engine::*;
use vcore::gen::*;
use vcore::q::{Fp, Q};
use vcore::refs::*;
use vcore::{ensure, ensure_eq, ensure_r};
use cgmath::{frustum, ortho, perspective, planar, BaseFloat, Matrix4, Ortho, Perspective, PerspectiveFov, PlanarFov, Rad, Vector4};
use std::f64::consts::PI;
use std::fmt::Debug;

fn close<S: BaseFloat>(a: S, b: S, tol: S) -> bool {
    if a == b {
        return true;
    }
    if tol == S::zero() {
        return false;
    }
    (a - b).abs() <= tol * (S::one() + a.abs().max(b.abs()))
}

/// clip coordinates of (x,y,z,1) after the perspective division
fn project<S: BaseFloat>(m: &Matrix4<S>, x: S, y: S, z: S) -> (S, S, S, S) {
    let c = *m * Vector4::new(x, y, z, S::one());
    (c.x / c.w, c.y / c.w, c.z / c.w, c.w)
}

fn expect_corner<S: BaseFloat + Debug>(m: &Matrix4<S>, p: (S, S, S), want: (S, S, S), tol: S, sig: &'static str, what: &str) -> Result<(), Outcome> {
    let (x, y, z, _) = project(m, p.0, p.1, p.2);
    ensure_r!(close(x, want.0, tol) && close(y, want.1, tol) && close(z, want.2, tol), sig, "{}: {:?} -> ({:?}, {:?}, {:?}), expected {:?}", what, p, x, y, z, want);
    Ok(())
}

fn ortho_check<S: BaseFloat + Debug>(l: S, r: S, b: S, t: S, n: S, f: S, mix: [S; 3], tol: S) -> Result<(), Outcome> {
    let m = ortho(l, r, b, t, n, f);
    let (o, z) = (S::one(), S::zero());
    let conv: Matrix4<S> = Ortho { left: l, right: r, bottom: b, top: t, near: n, far: f }.into();
    ensure_r!(conv == m, "ortho-struct", "Matrix4::from(Ortho) differs from ortho()");
    for (xi, sx) in [(l, -o), (r, o)] {
        for (yi, sy) in [(b, -o), (t, o)] {
            for (zi, sz) in [(-n, -o), (-f, o)] {
                let c = m * Vector4::new(xi, yi, zi, o);
                ensure_r!(c.w == o, "ortho-w", "ortho: w = {:?} (must be 1: affine)", c.w);
                expect_corner(&m, (xi, yi, zi), (sx, sy, sz), tol, "ortho-corner", "ortho")?;
            }
        }
    }
    // affinity: the point with barycentric coordinates mix maps to the same combination
    let two = o + o;
    let px = l + (r - l) * mix[0];
    let py = b + (t - b) * mix[1];
    let pz = -n + (n - f) * mix[2];
    let want = (-o + two * mix[0], -o + two * mix[1], -o + two * mix[2]);
    expect_corner(&m, (px, py, pz), want, tol, "ortho-affine", "ortho (interior point)")?;
    let _ = z;
    Ok(())
}

fn ref_frustum<S: BaseFloat>(l: S, r: S, b: S, t: S, n: S, f: S) -> RM<S> {
    let (o, z) = (S::one(), S::zero());
    let two = o + o;
    let rows = [
        [two * n / (r - l), z, (r + l) / (r - l), z],
        [z, two * n / (t - b), (t + b) / (t - b), z],
        [z, z, -(f + n) / (f - n), -(two * f * n) / (f - n)],
        [z, z, -o, z],
    ];
    RM::from_fn(4, |c, r_| rows[r_][c])
}

fn frustum_check<S: BaseFloat + Debug>(l: S, r: S, b: S, t: S, n: S, f: S, pt: [S; 3], tol: S) -> Result<(), Outcome> {
    let m = frustum(l, r, b, t, n, f);
    let o = S::one();
    let conv: Matrix4<S> = Perspective { left: l, right: r, bottom: b, top: t, near: n, far: f }.into();
    ensure_r!(conv == m, "frustum-struct", "Matrix4::from(Perspective) differs from frustum()");
    let k = f / n;
    for (xi, sx) in [(l, -o), (r, o)] {
        for (yi, sy) in [(b, -o), (t, o)] {
            expect_corner(&m, (xi, yi, -n), (sx, sy, -o), tol, "frustum-near-corner", "frustum (near plane)")?;
            expect_corner(&m, (xi * k, yi * k, -f), (sx, sy, o), tol, "frustum-far-corner", "frustum (far plane)")?;
        }
    }
    let c = m * Vector4::new(pt[0], pt[1], pt[2], o);
    ensure_r!(close(c.w, -pt[2], tol), "frustum-w", "frustum: w = {:?} for z = {:?} (must be -z)", c.w, pt[2]);
    ensure_r!(m.rm().max_abs_diff(&ref_frustum(l, r, b, t, n, f)) <= tol * (o + (f / (f - n)).abs() * (o + f.abs())), "frustum-table", "frustum matrix differs from the glFrustum table: {:?}", m);
    Ok(())
}

fn perspective_check<S: BaseFloat + Debug>(fovy: Rad<S>, tan_half: S, a: S, n: S, f: S, tol: S) -> Result<(), Outcome> {
    let m = perspective(fovy, a, n, f);
    let pf = PerspectiveFov { fovy, aspect: a, near: n, far: f };
    let conv: Matrix4<S> = pf.into();
    ensure_r!(conv == m, "perspective-struct", "Matrix4::from(PerspectiveFov) differs from perspective()");
    let h = n * tan_half;
    let w = a * h;
    let want = ref_frustum(-w, w, -h, h, n, f);
    let scale = S::one() + (S::one() / tan_half).abs() * (S::one() + (S::one() / a).abs()) + (f / (f - n)).abs() * (S::one() + f);
    ensure_r!(m.rm().max_abs_diff(&want) <= tol * scale, "perspective-vs-frustum", "perspective differs from the frustum of the symmetric window (half-height {:?}, half-width {:?}): {:?} vs {:?}", h, w, m.rm(), want);
    let p = pf.to_perspective();
    let lim = tol * (S::one() + h.abs() + w.abs());
    ensure_r!(
        (p.left + w).abs() <= lim && (p.right - w).abs() <= lim && (p.bottom + h).abs() <= lim && (p.top - h).abs() <= lim && p.near == n && p.far == f,
        "to_perspective",
        "to_perspective() = {:?}, expected window +-{:?} x +-{:?}",
        p, w, h
    );
    Ok(())
}

fn planar_check<S: BaseFloat + Debug>(fovy: Rad<S>, tan_half: S, a: S, h: S, n: S, f: S, tol: S) -> Result<(), Outcome> {
    let m = planar(fovy, a, h, n, f);
    let conv: Matrix4<S> = PlanarFov { fovy, aspect: a, height: h, near: n, far: f }.into();
    ensure_r!(conv == m, "planar-struct", "Matrix4::from(PlanarFov) differs from planar()");
    let (o, z) = (S::one(), S::zero());
    let two = o + o;
    // the z = 0 window maps to the unit square
    for sx in [-o, o] {
        for sy in [-o, o] {
            let (x, y, _, w) = project(&m, sx * a * h / two, sy * h / two, z);
            ensure_r!(close(x, sx, tol) && close(y, sy, tol), "planar-window", "planar: window corner ({:?},{:?}) -> ({:?},{:?})", sx, sy, x, y);
            ensure_r!(close(w, o, tol), "planar-w-at-origin", "planar: w = {:?} on the plane z = 0", w);
        }
    }
    let (_, _, zn, _) = project(&m, a, h, -n);
    let (_, _, zf, _) = project(&m, -a, h / two, -f);
    let inv_f = tan_half * two / h;
    let cond = o + ((n.abs() + f.abs()) / (n - f).abs()) * (o + inv_f.abs() * (n.abs() + f.abs()));
    ensure_r!(close(zn, -o, tol * cond), "planar-near", "planar: z = -near maps to {:?} (expected -1)", zn);
    ensure_r!(close(zf, o, tol * cond), "planar-far", "planar: z = -far maps to {:?} (expected +1)", zf);
    // w = 1 - z * 2 tan(fovy/2)/h : vanishes at z = (h/2) cot(fovy/2)
    let probe = h;
    let c = m * Vector4::new(a, h, probe, o);
    ensure_r!(close(c.w, o - probe * inv_f, tol), "planar-w", "planar: w at z = {:?} is {:?}, expected 1 - z 2tan(fovy/2)/h = {:?}", probe, c.w, o - probe * inv_f);
    if tan_half != z {
        let zf0 = h / (two * tan_half);
        let c = m * Vector4::new(a, h, zf0, o);
        ensure_r!(c.w.abs() <= tol * (o + zf0.abs() * inv_f.abs()), "planar-focal-point", "planar: w = {:?} at the focal point z = (h/2)cot(fovy/2) = {:?}", c.w, zf0);
    }
    Ok(())
}

// ---- exact tiers ---------------------------------------------------------------------------------

fn pos_q(d: &mut Draw) -> Q {
    Q::ratio(d.int(1, 24), d.int(1, 6))
}

fn ortho_exact<S: Sc>(d: &mut Draw) -> Outcome {
    let l = S::gen(d);
    let r = l + S::gen_nz(d);
    let b = S::gen(d);
    let t = b + S::gen_nz(d);
    let n = S::gen(d);
    let f = n + S::gen_nz(d);
    let mix = [S::gen(d), S::gen(d), S::gen(d)];
    d.note("l,r,b,t,n,f", &(l, r, b, t, n, f));
    vcore::tryo!(ortho_check(l, r, b, t, n, f, mix, S::zero()));
    pass("valid", all_nonzero(&[l, r, b, t, n, f]))
}

fn frustum_exact(d: &mut Draw) -> Outcome {
    let l = <Q as Sc>::gen(d);
    let r = l + pos_q(d);
    let b = <Q as Sc>::gen(d);
    let t = b + pos_q(d);
    // the constructor's stated preconditions are l <= r, b <= t, n <= f and nothing else: a near plane behind the eye
    // (n < 0, with the far plane on either side) is a valid tuple, and the algebra of the statement holds for it
    let behind = d.chance(1, 4);
    let n = if behind { -pos_q(d) } else { pos_q(d) };
    let f = { let f = n + pos_q(d); if f == Q::ZERO { f + Q::ONE } else { f } };
    let pt = [<Q as Sc>::gen(d), <Q as Sc>::gen(d), -pos_q(d)];
    d.note("l,r,b,t,n,f", &(l, r, b, t, n, f));
    vcore::tryo!(frustum_check(l, r, b, t, n, f, pt, Q::ZERO));
    pass(if behind && f > Q::ZERO { "near-behind-far-ahead" } else if behind { "both-planes-behind" } else if l + r == Q::ZERO || b + t == Q::ZERO { "symmetric" } else { "off-centre" }, true)
}

fn perspective_exact(d: &mut Draw) -> Outcome {
    let ang = named_angle_pos(d, 0);
    let tan_half = ang.sh / ang.ch;
    let a = if d.chance(1, 4) { -pos_q(d) } else { pos_q(d) };
    let n = pos_q(d);
    let f = if d.chance(1, 4) { let g = n - pos_q(d); if g > Q::ZERO { g } else { n + Q::ONE } } else { n + pos_q(d) };
    d.note("tan(fovy/2), aspect, near, far", &(tan_half, a, n, f));
    vcore::tryo!(perspective_check(Rad(ang.theta), tan_half, a, n, f, Q::ZERO));
    pass(if a < Q::ZERO { "negative-aspect" } else if f < n { "far<near" } else { "ordinary" }, true)
}

fn planar_exact(d: &mut Draw) -> Outcome {
    let ang = named_angle_pos(d, 0);
    let negative = d.chance(1, 3);
    let tan_half = if negative { -(ang.sh / ang.ch) } else { ang.sh / ang.ch };
    let fovy = if negative { Rad(-ang.theta) } else { Rad(ang.theta) };
    let a = if d.chance(1, 4) { -pos_q(d) } else { pos_q(d) };
    let h = pos_q(d);
    // focal "distance" as compared by the constructor: -(h/2) cot(fovy/2)
    let focal = -(h / (Q::int(2) * tan_half));
    // planes on one side of the focal point
    let (n, f) = if d.bool() {
        let n = focal + pos_q(d);
        (n, n + pos_q(d))
    } else {
        let n = focal - pos_q(d);
        (n, n - pos_q(d))
    };
    let (n, f) = if d.bool() { (n, f) } else { (f, n) };
    d.note("tan(fovy/2), aspect, height, near, far", &(tan_half, a, h, n, f));
    d.note("focal", &focal);
    vcore::tryo!(planar_check(fovy, tan_half, a, h, n, f, Q::ZERO));
    pass(if negative { "focal-in-front" } else { "focal-behind" }, true)
}

// ---- f64 ----------------------------------------------------------------------------------------

fn gap(d: &mut Draw, base: f64) -> f64 {
    // a positive gap, at least 1e-3 relative
    (base.abs() + 1.0) * d.f64_log(1e-3, 1e2)
}

fn mapping_f64(d: &mut Draw) -> Outcome {
    let tol = 1e-11;
    let l = d.f64_in(-50.0, 50.0);
    let r = l + gap(d, l);
    let b = d.f64_in(-50.0, 50.0);
    let t = b + gap(d, b);
    let n = d.f64_log(1e-2, 1e2);
    let f = n + gap(d, n);
    let mix = [d.unit(), d.unit(), d.unit()];
    d.note("l,r,b,t,n,f", &(l, r, b, t, n, f));
    vcore::tryo!(ortho_check(l, r, b, t, n, f, mix, tol));
    vcore::tryo!(frustum_check(l, r, b, t, n, f, [d.f64_in(-9.0, 9.0), d.f64_in(-9.0, 9.0), -d.f64_log(1e-2, 1e3)], tol));
    // frustum's preconditions do not mention the sign of the planes: near behind the eye, far on either side of it
    if d.chance(1, 4) {
        let nb = -d.f64_log(1e-2, 1e2);
        let fb = nb + gap(d, nb);
        let fb = if fb.abs() < 1e-3 * nb.abs() { fb + nb.abs() } else { fb };
        d.note("frustum with the near plane behind the eye: n, f", &(nb, fb));
        // (the corner tolerance is relative to the clip coordinates' own size, which f/(f-n) and n/(f-n) set)
        let cond = 1.0 + (nb.abs() + fb.abs()) / (fb - nb) * (1.0 + (nb.abs() + fb.abs()) / nb.abs().min(fb.abs()));
        vcore::tryo!(frustum_check(l, r, b, t, nb, fb, [d.f64_in(-9.0, 9.0), d.f64_in(-9.0, 9.0), -d.f64_log(1e-2, 1e3)], tol * cond));
    }
    // the whole valid range (0, pi), including very narrow and very wide fields of view
    let fovy = match d.int(0, 3) {
        0 => d.f64_log(1e-9, 1e-2),
        1 => PI - d.f64_log(1e-9, 1e-2),
        _ => d.f64_in(0.01, PI - 0.01),
    };
    let a = d.f64_log(0.1, 10.0) * if d.chance(1, 4) { -1.0 } else { 1.0 };
    d.note("fovy, aspect", &(fovy, a));
    vcore::tryo!(perspective_check(Rad(fovy), (fovy / 2.0).tan(), a, n, f, tol));
    // Deg input for the free function
    let md = perspective(cgmath::Deg(fovy * 180.0 / PI), a, n, f);
    let mr = perspective(Rad(fovy), a, n, f);
    ensure!(md.rm().max_abs_diff(&mr.rm()) <= 1e-9 * (1.0 + 1.0 / (fovy / 2.0).tan()) * (1.0 + 1.0 / a.abs()), "perspective-deg", "perspective(Deg) differs from perspective(Rad)");
    // planar
    let kind = d.int(0, 2);
    let pf = match kind {
        0 => 0.0,
        1 => d.f64_in(0.01, PI - 0.01),
        _ => -d.f64_in(0.01, PI - 0.01),
    };
    let h = d.f64_log(1e-2, 1e2);
    let th = (pf / 2.0).tan();
    let (pn, pfar) = if pf == 0.0 {
        let n = d.f64_in(-50.0, 50.0);
        (n, n + gap(d, n) * if d.bool() { 1.0 } else { -1.0 })
    } else {
        let focal = -(h / (2.0 * th));
        if d.bool() {
            let n = focal + gap(d, focal);
            (n, n + gap(d, n))
        } else {
            let n = focal - gap(d, focal);
            (n, n - gap(d, n))
        }
    };
    let (pn, pfar) = if d.bool() { (pn, pfar) } else { (pfar, pn) };
    d.note("planar fovy, height, near, far", &(pf, h, pn, pfar));
    vcore::tryo!(planar_check(Rad(pf), th, a, h, pn, pfar, tol));
    let pd = planar(cgmath::Deg(pf * 180.0 / PI), a, h, pn, pfar);
    let pr = planar(Rad(pf), a, h, pn, pfar);
    let big = pr.rm().map(|x| x.abs()).e.iter().flatten().fold(0.0f64, |m, x| m.max(*x));
    ensure!(pd.rm().max_abs_diff(&pr.rm()) <= 1e-9 * (1.0 + big), "planar-deg", "planar(Deg) differs from planar(Rad)");
    // a very deep volume: near tiny and far huge, the window in proportion to near - every entry of the matrix is still an
    // ordinary number (2n/(r-l), (f+n)/(f-n) ~ 1, 2fn/(f-n) ~ 2n) although f/n exceeds the range of the scalar type
    {
        let dn = d.f64_log(1e-170, 1e-150);
        let df = d.f64_log(1e130, 1e150);
        let (dl, db) = (-dn * d.f64_in(0.2, 2.0), -dn * d.f64_in(0.2, 2.0));
        let (dr, dt) = (dn * d.f64_in(0.2, 2.0), dn * d.f64_in(0.2, 2.0));
        d.note("deep frustum l,r,b,t,n,f", &(dl, dr, db, dt, dn, df));
        let m = cgmath::frustum(dl, dr, db, dt, dn, df);
        for (xi, sx) in [(dl, -1.0), (dr, 1.0)] {
            for (yi, sy) in [(db, -1.0), (dt, 1.0)] {
                vcore::tryo!(expect_corner(&m, (xi, yi, -dn), (sx, sy, -1.0), 1e-9, "frustum-deep-near-corner", "frustum of a very deep volume (near plane)"));
            }
        }
        let c = m * Vector4::new(0.0, 0.0, -df, 1.0);
        ensure!((c.z / c.w - 1.0).abs() <= 1e-9, "frustum-deep-far-plane", "frustum of a very deep volume: the far plane maps to z = {:e}", c.z / c.w);
        let pm = cgmath::perspective(Rad(fovy), a, dn, df);
        let c = pm * Vector4::new(0.0, 0.0, -dn, 1.0);
        ensure!((c.z / c.w + 1.0).abs() <= 1e-9, "perspective-deep-near-plane", "perspective of a very deep volume: the near plane maps to z = {:e}", c.z / c.w);
        // the same in f32, where "very deep" starts at a far/near ratio of 1e38
        let (fnr, ffr) = (d.f64_log(1e-26, 1e-22) as f32, d.f64_log(1e18, 1e22) as f32);
        let m32 = cgmath::frustum(-fnr, 2.0 * fnr, -1.5 * fnr, fnr, fnr, ffr);
        let c = m32 * Vector4::new(-fnr, fnr, -fnr, 1.0);
        ensure!(((c.x / c.w + 1.0).abs() as f64) <= 1e-5 && ((c.y / c.w - 1.0).abs() as f64) <= 1e-5 && ((c.z / c.w + 1.0).abs() as f64) <= 1e-5, "frustum-deep-near-corner-f32", "frustum::<f32> of a very deep volume (near = {:e}, far = {:e}): near corner maps to ({:e}, {:e}, {:e})", fnr, ffr, c.x / c.w, c.y / c.w, c.z / c.w);
    }
    // scale covariance: the same volume measured in units 2^k times smaller is a valid tuple too, and
    // M_s * diag(s,s,s,1) must be M up to the common homogeneous factor (1 or s); powers of two make
    // every intermediate result scale exactly, so the allowance is a few ulps per entry
    let k = d.int(-300, 300) as i32;
    let sc = (2.0f64).powi(k);
    d.note("scale", &sc);
    let sc2 = if k < -30 { 1.0 } else { sc };
    let pairs: [(&'static str, Matrix4<f64>, Matrix4<f64>); 4] = [
        ("ortho-scaled", ortho(l, r, b, t, n, f), ortho(l * sc, r * sc, b * sc, t * sc, n * sc, f * sc)),
        ("frustum-scaled", frustum(l, r, b, t, n, f), frustum(l * sc, r * sc, b * sc, t * sc, n * sc, f * sc)),
        ("perspective-scaled", perspective(Rad(fovy), a, n, f), perspective(Rad(fovy), a, n * sc2, f * sc2)),
        ("planar-scaled", planar(Rad(pf), a, h, pn, pfar), planar(Rad(pf), a, h * sc2, pn * sc2, pfar * sc2)),
    ];
    for (sig, m0, ms) in pairs {
        // perspective and planar reject planes closer than machine epsilon in absolute terms
        if k < -30 && (sig == "perspective-scaled" || sig == "planar-scaled") {
            continue;
        }
        let (r0, rs) = (m0.rm(), ms.rm());
        let mut ok_any = false;
        for lam in [1.0, sc] {
            let mut ok = true;
            for c in 0..4 {
                for r_ in 0..4 {
                    let got = rs.e[c][r_] * if c < 3 { sc } else { 1.0 };
                    let want = r0.e[c][r_] * lam;
                    if !((got - want).abs() <= 16.0 * f64::EPSILON * want.abs()) {
                        ok = false;
                    }
                }
            }
            ok_any |= ok;
        }
        ensure!(ok_any, sig, "{}: the matrix for the volume scaled by {:e} is not the scaled matrix: {:?} vs {:?}", sig, sc, ms, m0);
    }
    pass(match kind { 0 => "planar-orthographic", 1 => "planar-focal-behind", _ => "planar-focal-in-front" }, true)
}

/// every precondition broken on its own must panic; the unbroken tuple must not
fn rejection_f64(d: &mut Draw) -> Outcome {
    // a valid base tuple
    let fovy = d.f64_in(0.05, PI - 0.05);
    let a = d.f64_log(0.1, 10.0) * if d.bool() { 1.0 } else { -1.0 };
    let n = d.f64_log(1e-2, 1e2);
    let f = n + gap(d, n);
    let l = d.f64_in(-50.0, 50.0);
    let r = l + gap(d, l);
    let b = d.f64_in(-50.0, 50.0);
    let t = b + gap(d, b);
    let h = d.f64_log(1e-2, 1e2);
    let beyond = d.f64_log(1e-3, 1e3);
    let at_boundary = d.bool();
    d.note("base (fovy, aspect, near, far)", &(fovy, a, n, f));
    d.note("base (l,r,b,t), height", &((l, r, b, t), h));
    // every length-like argument is multiplied by one power of two: order, equality and sign of the
    // tuple are untouched (exactly), so validity and the broken precondition are the same at every scale
    // (not below 2^-30: perspective/planar call planes closer than machine epsilon in absolute
    // terms "too close", so far smaller volumes are outside their domain)
    let sc = if d.chance(1, 3) { (2.0f64).powi(d.int(-30, 300) as i32) } else { 1.0 };
    d.note("all lengths scaled by", &sc);
    let perspective = |fovy: Rad<f64>, a: f64, n: f64, f: f64| perspective(fovy, a, n * sc, f * sc);
    let frustum = |l: f64, r: f64, b: f64, t: f64, n: f64, f: f64| frustum(l * sc, r * sc, b * sc, t * sc, n * sc, f * sc);
    let planar = |fovy: Rad<f64>, a: f64, h: f64, n: f64, f: f64| planar(fovy, a, h * sc, n * sc, f * sc);
    let which = d.int(0, 15);
    d.note("broken precondition", &which);
    macro_rules! must_panic {
        ($e:expr, $sig:expr, $what:expr) => {{
            let r = catches(|| $e);
            ensure!(r.is_err(), $sig, "{} must panic but returned {:?}", $what, r.ok());
        }};
    }
    macro_rules! must_not_panic {
        ($e:expr, $sig:expr, $what:expr) => {{
            let r = catches(|| $e);
            if let Err(m) = r {
                return Outcome::Fail { sig: $sig, msg: format!("{} is valid but panicked: {}", $what, m) };
            }
        }};
    }
    // the unbroken tuples are accepted
    must_not_panic!(perspective(Rad(fovy), a, n, f), "valid-perspective-panics", "perspective(valid)");
    {
        // ... also when the two planes are as close as two different floats can be (1..4 ulps apart, either order, at
        // magnitudes where that is far more than the constructors' absolute "too close" margin)
        let base = d.f64_log(2.0, 1e12);
        let other = f64::from_bits(base.to_bits() + d.int(1, 4) as u64);
        let (pn, pf) = if d.bool() { (base, other) } else { (other, base) };
        must_not_panic!(cgmath::perspective(Rad(fovy), a, pn, pf), "valid-perspective-panics", format!("perspective(near = {:e}, far = {:e}), planes a few ulps apart", pn, pf));
        must_not_panic!(cgmath::frustum(l, r, b, t, pn.min(pf), pn.max(pf)), "valid-frustum-panics", format!("frustum(near = {:e}, far = {:e}), planes a few ulps apart", pn.min(pf), pn.max(pf)));
        must_not_panic!(cgmath::ortho(l, r, b, t, pn, pf), "valid-ortho-panics", format!("ortho(near = {:e}, far = {:e})", pn, pf));
        let pf32 = f32::from_bits((base as f32).to_bits() + d.int(1, 4) as u32);
        must_not_panic!(cgmath::perspective(Rad(fovy as f32), a as f32, base as f32, pf32), "valid-perspective-panics-f32", format!("perspective::<f32>(near = {:e}, far = {:e}), planes a few ulps apart", base as f32, pf32));
    }
    must_not_panic!(frustum(l, r, b, t, n, f), "valid-frustum-panics", "frustum(valid)");
    must_not_panic!(planar(Rad(fovy), a, h, n, f), "valid-planar-panics", "planar(valid)");
    // planar's field of view may be anything inside (-pi, pi): negative, zero of either sign (an orthographic
    // projection: the focal point is at infinity and never between the planes), or tiny
    let pfovy = match d.int(0, 7) {
        0 => 0.0,
        1 => -0.0,
        2 => d.f64_slog(1e-300, 1e-3),
        3 => -fovy,
        _ => fovy,
    };
    d.note("planar fovy", &pfovy);
    if pfovy == 0.0 {
        must_not_panic!(planar(Rad(pfovy), a, h, n, f), "valid-planar-panics", format!("planar(fovy = {:?}, valid otherwise)", pfovy));
    }
    let cls: &'static str = match which {
        0 => {
            let bad = if at_boundary { 0.0 } else { -beyond };
            must_panic!(perspective(Rad(bad), a, n, f), "perspective-accepts-fovy<=0", format!("perspective(fovy = {})", bad));
            "perspective-fovy<=0"
        }
        1 => {
            let bad = if at_boundary { PI } else { PI + beyond };
            must_panic!(perspective(Rad(bad), a, n, f), "perspective-accepts-fovy>=pi", format!("perspective(fovy = {})", bad));
            // not a number, infinite: not inside (0, pi) either (Rad and Deg, and the struct conversion)
            let nn = d.pick(&[f64::NAN, -f64::NAN, f64::INFINITY, f64::NEG_INFINITY]);
            must_panic!(perspective(Rad(nn), a, n, f), "perspective-accepts-fovy-not-in-(0,pi)", format!("perspective(fovy = {:?})", nn));
            must_panic!(cgmath::perspective(cgmath::Deg(nn), a, n, f), "perspective-accepts-fovy-not-in-(0,pi)", format!("perspective(fovy = Deg({:?}))", nn));
            must_panic!(Matrix4::<f64>::from(PerspectiveFov { fovy: Rad(nn), aspect: a, near: n, far: f }), "perspective-accepts-fovy-not-in-(0,pi)", format!("Matrix4::from(PerspectiveFov {{ fovy: {:?}, .. }})", nn));
            must_panic!(cgmath::perspective(Rad(nn as f32), a as f32, n as f32, f as f32), "perspective-accepts-fovy-not-in-(0,pi)", format!("perspective::<f32>(fovy = {:?})", nn));
            "perspective-fovy>=pi"
        }
        2 => {
            let bad = if at_boundary { 0.0 } else { -0.0 };
            must_panic!(perspective(Rad(fovy), bad, n, f), "perspective-accepts-zero-aspect", format!("perspective(aspect = {})", bad));
            "perspective-aspect=0"
        }
        3 => {
            let bad = if at_boundary { 0.0 } else { -beyond };
            must_panic!(perspective(Rad(fovy), a, bad, f), "perspective-accepts-near<=0", format!("perspective(near = {})", bad));
            "perspective-near<=0"
        }
        4 => {
            let bad = if at_boundary { 0.0 } else { -beyond };
            must_panic!(perspective(Rad(fovy), a, n, bad), "perspective-accepts-far<=0", format!("perspective(far = {})", bad));
            "perspective-far<=0"
        }
        5 => {
            must_panic!(perspective(Rad(fovy), a, n, n), "perspective-accepts-near=far", format!("perspective(near = far = {})", n));
            "perspective-near=far"
        }
        6 => {
            let bad = r + beyond * (1.0 + r.abs()) * 1e-3 + if at_boundary { r.abs() * 1e-12 + 1e-300 } else { 1.0 };
            must_panic!(frustum(bad, r, b, t, n, f), "frustum-accepts-left>right", format!("frustum(left = {} > right = {})", bad, r));
            "frustum-left>right"
        }
        7 => {
            let bad = t + beyond * (1.0 + t.abs()) * 1e-3 + 1.0;
            must_panic!(frustum(l, r, bad, t, n, f), "frustum-accepts-bottom>top", format!("frustum(bottom = {} > top = {})", bad, t));
            "frustum-bottom>top"
        }
        8 => {
            let bad = f + beyond * (1.0 + f.abs()) * 1e-3 + 1.0;
            must_panic!(frustum(l, r, b, t, bad, f), "frustum-accepts-near>far", format!("frustum(near = {} > far = {})", bad, f));
            "frustum-near>far"
        }
        9 => {
            let bad = if at_boundary { -PI } else { -PI - beyond };
            must_panic!(planar(Rad(bad), a, h, n, f), "planar-accepts-fovy<=-pi", format!("planar(fovy = {})", bad));
            "planar-fovy<=-pi"
        }
        10 => {
            let bad = if at_boundary { PI } else { PI + beyond };
            must_panic!(planar(Rad(bad), a, h, n, f), "planar-accepts-fovy>=pi", format!("planar(fovy = {})", bad));
            let nn = d.pick(&[f64::NAN, -f64::NAN, f64::INFINITY, f64::NEG_INFINITY]);
            must_panic!(planar(Rad(nn), a, h, n, f), "planar-accepts-fovy-not-in-(-pi,pi)", format!("planar(fovy = {:?})", nn));
            "planar-fovy>=pi"
        }
        11 => {
            must_panic!(planar(Rad(pfovy), a, -h, n, f), "planar-accepts-negative-height", format!("planar(fovy = {:?}, height = {})", pfovy, -h));
            "planar-height<0"
        }
        12 => {
            must_panic!(planar(Rad(pfovy), 0.0, h, n, f), "planar-accepts-zero-aspect", format!("planar(fovy = {:?}, aspect = 0)", pfovy));
            must_panic!(planar(Rad(pfovy), -0.0, h, n, f), "planar-accepts-zero-aspect", format!("planar(fovy = {:?}, aspect = -0)", pfovy));
            "planar-aspect=0"
        }
        13 => {
            must_panic!(planar(Rad(pfovy), a, h, n, n), "planar-accepts-near=far", format!("planar(fovy = {:?}, near = far = {})", pfovy, n));
            "planar-near=far"
        }
        _ => {
            // focal point strictly between the planes
            let focal = -(h / (2.0 * (fovy / 2.0).tan()));
            let lo = focal - gap(d, focal);
            let hi = focal + gap(d, focal);
            let (pn, pf) = if d.bool() { (lo, hi) } else { (hi, lo) };
            must_panic!(planar(Rad(fovy), a, h, pn, pf), "planar-accepts-focal-between", format!("planar(near = {}, far = {}) with the focal point at {}", pn, pf, focal));
            "planar-focal-between"
        }
    };
    pass(cls, true)
}

pub fn property() -> Property {
    let mut s = Vec::new();
    macro_rules! add {
        ($name:expr, $scalar:expr, $f:expr, $q:expr, $t:expr, $len:expr, $req:expr, $rule:expr) => {
            s.push(SubCheck { name: $name, scalar: $scalar, quick: $q, thorough: $t, len: $len, f: $f, required: $req, rule: $rule, exhaustive: false });
        };
    }
    add!("ortho-Q", "Q", ortho_exact::<Q>, 3000, 200_000, 40, &[("valid", 500)], "all six plane parameters non-zero");
    add!("ortho-Fp", "Fp", ortho_exact::<Fp>, 3000, 200_000, 40, &[("valid", 500)], "all six plane parameters non-zero");
    add!("frustum-Q", "Q", frustum_exact, 3000, 200_000, 40, &[("off-centre", 300), ("near-behind-far-ahead", 40), ("both-planes-behind", 40)], "every valid tuple (l<r, b<t, n<f, neither plane through the eye; the near plane behind the eye one time in four)");
    add!("perspective-Q", "Q", perspective_exact, 3000, 200_000, 32, &[("ordinary", 200), ("negative-aspect", 50), ("far<near", 20)], "every valid tuple");
    add!("planar-Q", "Q", planar_exact, 3000, 200_000, 40, &[("focal-behind", 200), ("focal-in-front", 100)], "every valid tuple");
    add!("mapping-f64", "f64", mapping_f64, 6000, 300_000, 112, &[("planar-orthographic", 100), ("planar-focal-behind", 100), ("planar-focal-in-front", 100)], "every valid tuple");
    const REJ: &[(&str, u32)] = &[
        ("perspective-fovy<=0", 20), ("perspective-fovy>=pi", 20), ("perspective-aspect=0", 20), ("perspective-near<=0", 20), ("perspective-far<=0", 20), ("perspective-near=far", 20),
        ("frustum-left>right", 20), ("frustum-bottom>top", 20), ("frustum-near>far", 20),
        ("planar-fovy<=-pi", 20), ("planar-fovy>=pi", 20), ("planar-height<0", 20), ("planar-aspect=0", 20), ("planar-near=far", 20), ("planar-focal-between", 20),
    ];
    add!("rejection-f64", "f64", rejection_f64, 8000, 400_000, 80, REJ, "a valid tuple with exactly one precondition broken; all 15 reasons required");
    Property {
        id: "C10",
        title: "Projections map the view volume onto the clip cube and reject bad parameters",
        subchecks: s,
        assumptions: &[
            "valid domain: l<r, b<t, n<f with n and f non-zero and of either sign (frustum: its stated preconditions say nothing about the sign of the planes), gaps at least 1e-3 relative in f64; fovy over the whole valid range (0, pi): uniform in (0.01, pi-0.01) in half of the cases, log-uniform 1e-9..1e-2 rad away from either end otherwise; |aspect| in [0.1,10]; planar: height>0, near != far of either order/sign, focal point strictly outside the planes",
            "Q tier: fovy is a named angle with rational tan(fovy/2) > 0; planar with fovy = 0 only in f64 (the constructor takes the reciprocal of 0)",
            "scale: every valid tuple is also taken with all its lengths multiplied by 2^k, k in [-300,300] for ortho/frustum and [-30,300] for perspective/planar, which call planes closer than machine epsilon in absolute terms 'too close' (their documented assertion message) - such tuples are treated as outside their domain, not as rejections that must happen",
            "rejection: exactly one precondition broken, at the boundary value and beyond it; 'zero aspect' means exactly +-0.0, 'near = far' exactly equal",
            "a panic is detected with catch_unwind under a silent panic hook",
        ],
        fuzz: true,
    }
}
