//! C07 — Euler angles: intrinsic X-Y-Z everywhere, round trip through quaternions.

use vcore::engine::*;
use vcore::gen::*;
use vcore::q::Q;
use vcore::refs::*;
use vcore::{ensure, ensure_eq};
use cgmath::prelude::*;
use cgmath::{Basis3, Deg, Euler, Matrix3, Matrix4, Quaternion, Rad};
use std::f64::consts::PI;

fn to_rot_q(d: &mut Draw) -> Outcome {
    let (x, y, z) = (named_angle(d, 0), named_angle(d, 1), named_angle(d, 2));
    d.note("x (sin,cos)", &(x.s, x.c));
    d.note("y (sin,cos)", &(y.s, y.c));
    d.note("z (sin,cos)", &(z.s, z.c));
    let e = Euler { x: Rad(x.theta), y: Rad(y.theta), z: Rad(z.theta) };
    ensure_eq!(Euler::new(Rad(x.theta), Rad(y.theta), Rad(z.theta)), e, "euler-new", "Euler::new(x, y, z) field order");
    let want = rot_x(x.s, x.c).mul(&rot_y(y.s, y.c)).mul(&rot_z(z.s, z.c));
    ensure_eq!(Matrix3::from(e).rm(), want, "matrix3-xyz", "Matrix3::from(Euler) vs Rx Ry Rz");
    ensure_eq!(Matrix4::from(e).rm(), want.embed(4), "matrix4-xyz", "Matrix4::from(Euler) vs Rx Ry Rz embedded");
    ensure_eq!(Matrix3::from(Basis3::from(e)).rm(), want, "basis3-xyz", "Basis3::from(Euler) vs Rx Ry Rz");
    let q = Quaternion::from(e);
    let (o, n) = (Q::ONE, Q::ZERO);
    let _ = o;
    let qx = [x.ch, x.sh, n, n];
    let qy = [y.ch, n, y.sh, n];
    let qz = [z.ch, n, n, z.sh];
    let qwant = qmul(&qmul(&qx, &qy), &qz);
    ensure_eq!(rq(&q), qwant, "quaternion-xyz", "Quaternion::from(Euler) vs qx qy qz");
    ensure_eq!(Matrix3::from(q).rm(), want, "quaternion-xyz-matrix", "matrix of Quaternion::from(Euler) vs Rx Ry Rz");
    // the cgmath constructors composed the same way
    let comp = Matrix3::from_angle_x(e.x) * Matrix3::from_angle_y(e.y) * Matrix3::from_angle_z(e.z);
    ensure_eq!(Matrix3::from(e), comp, "matrix3-vs-from_angle-product", "Matrix3::from(Euler) vs from_angle_x * from_angle_y * from_angle_z");
    let nt = [x, y, z].iter().all(|a| a.s != Q::ZERO && a.c != Q::ZERO && a.s.abs_() != a.c.abs_());
    pass(if nt { "generic" } else { "degenerate" }, nt)
}

fn to_rot_f64(d: &mut Draw) -> Outcome {
    // a few turns; exact quarter-turn multiples and zeros; or many turns (the statement says "for all angles": sin and
    // cos of the float angle itself are what every representation must be built from)
    let ang = |d: &mut Draw| match d.int(0, 7) {
        0 => (d.int(-8, 8) as f64) * std::f64::consts::FRAC_PI_2,
        // within 1e-12 .. 1e-3 of a quarter-turn multiple: sin rounds to +-1 long before cos is negligible
        4 => (d.int(-8, 8) as f64) * std::f64::consts::FRAC_PI_2 + d.f64_slog(1e-12, 1e-3),
        1 => d.f64_slog(7.0, 1e12),
        2 => d.f64_slog(1e-14, 1e-3),
        _ => d.f64_in(-7.0, 7.0),
    };
    let (x, y, z) = (ang(d), ang(d), ang(d));
    let use_deg = d.bool();
    d.note("(x,y,z) rad, given as Deg?", &((x, y, z), use_deg));
    let want = rot_x(x.sin(), x.cos()).mul(&rot_y(y.sin(), y.cos())).mul(&rot_z(z.sin(), z.cos()));
    let k = 180.0 / PI;
    let (m3, m4, b3, q): (Matrix3<f64>, Matrix4<f64>, Basis3<f64>, Quaternion<f64>) = if use_deg {
        let e = Euler { x: Deg(x * k), y: Deg(y * k), z: Deg(z * k) };
        (e.into(), e.into(), e.into(), e.into())
    } else {
        let e = Euler { x: Rad(x), y: Rad(y), z: Rad(z) };
        (e.into(), e.into(), e.into(), e.into())
    };
    // a Deg argument is converted once (relative error 2 eps in the angle)
    let tol = 1e-12 + if use_deg { 4.0 * f64::EPSILON * (x.abs() + y.abs() + z.abs()) } else { 0.0 };
    let e3 = m3.rm().max_abs_diff(&want);
    ensure!(e3 <= tol, "matrix3-xyz-f64", "Matrix3::from(Euler) differs from Rx Ry Rz by {:e}", e3);
    let e4 = m4.rm().max_abs_diff(&want.embed(4));
    ensure!(e4 <= tol, "matrix4-xyz-f64", "Matrix4::from(Euler) differs from Rx Ry Rz by {:e}", e4);
    let eb = Matrix3::from(b3).rm().max_abs_diff(&want);
    ensure!(eb <= tol, "basis3-xyz-f64", "Basis3::from(Euler) differs from Rx Ry Rz by {:e}", eb);
    let eq = Matrix3::from(q).rm().max_abs_diff(&want);
    ensure!(eq <= tol, "quaternion-xyz-f64", "Quaternion::from(Euler) differs from Rx Ry Rz by {:e}", eq);
    ensure!((q.magnitude() - 1.0).abs() <= 1e-14, "quaternion-unit-f64", "|Quaternion::from(Euler)| = {}", q.magnitude());
    // ... and each representation equals the product of *its own* three axis constructors (the statement's right-hand side
    // is written with the library's from_angle_x/y/z, not with a reference's)
    {
        use cgmath::Rotation3;
        let (p3, p4, pb, pq): (Matrix3<f64>, Matrix4<f64>, Basis3<f64>, Quaternion<f64>) = if use_deg {
            let (ax, ay, az) = (Deg(x * k), Deg(y * k), Deg(z * k));
            (Matrix3::from_angle_x(ax) * Matrix3::from_angle_y(ay) * Matrix3::from_angle_z(az), Matrix4::from_angle_x(ax) * Matrix4::from_angle_y(ay) * Matrix4::from_angle_z(az),
             <Basis3<f64> as Rotation3>::from_angle_x(ax) * <Basis3<f64> as Rotation3>::from_angle_y(ay) * <Basis3<f64> as Rotation3>::from_angle_z(az),
             <Quaternion<f64> as Rotation3>::from_angle_x(ax) * <Quaternion<f64> as Rotation3>::from_angle_y(ay) * <Quaternion<f64> as Rotation3>::from_angle_z(az))
        } else {
            let (ax, ay, az) = (Rad(x), Rad(y), Rad(z));
            (Matrix3::from_angle_x(ax) * Matrix3::from_angle_y(ay) * Matrix3::from_angle_z(az), Matrix4::from_angle_x(ax) * Matrix4::from_angle_y(ay) * Matrix4::from_angle_z(az),
             <Basis3<f64> as Rotation3>::from_angle_x(ax) * <Basis3<f64> as Rotation3>::from_angle_y(ay) * <Basis3<f64> as Rotation3>::from_angle_z(az),
             <Quaternion<f64> as Rotation3>::from_angle_x(ax) * <Quaternion<f64> as Rotation3>::from_angle_y(ay) * <Quaternion<f64> as Rotation3>::from_angle_z(az))
        };
        ensure!(m3.rm().max_abs_diff(&p3.rm()) <= 1e-13, "matrix3-own-product-f64", "Matrix3::from(Euler) differs from Matrix3::from_angle_x * from_angle_y * from_angle_z by {:e}", m3.rm().max_abs_diff(&p3.rm()));
        ensure!(m4.rm().max_abs_diff(&p4.rm()) <= 1e-13, "matrix4-own-product-f64", "Matrix4::from(Euler) differs from Matrix4::from_angle_x * from_angle_y * from_angle_z by {:e}", m4.rm().max_abs_diff(&p4.rm()));
        ensure!(Matrix3::from(b3).rm().max_abs_diff(&Matrix3::from(pb).rm()) <= 1e-13, "basis3-own-product-f64", "Basis3::from(Euler) differs from the product of Basis3's axis constructors");
        ensure!(Matrix3::from(q).rm().max_abs_diff(&Matrix3::from(pq).rm()) <= 1e-13, "quaternion-own-product-f64", "Quaternion::from(Euler) differs from the product of Quaternion's axis constructors (as rotations)");
    }
    // "for all angles": any finite angle, however huge (up to MAX, in either unit). Its sine and cosine cannot be predicted
    // by a reference to any useful accuracy, but the clause itself needs none: every representation built from the triple must
    // be finite, orthonormal and equal to the library's own from_angle_x * from_angle_y * from_angle_z of the same three values
    {
        let h = |d: &mut Draw| d.f64_slog(1e290, f64::MAX);
        let (hx, hy, hz) = (h(d), h(d), h(d));
        d.note("huge angles", &(hx, hy, hz));
        let ((m3, m4, b3, q), prod): ((Matrix3<f64>, Matrix4<f64>, Basis3<f64>, Quaternion<f64>), Matrix3<f64>) = if use_deg {
            let e = Euler { x: Deg(hx), y: Deg(hy), z: Deg(hz) };
            ((e.into(), e.into(), e.into(), e.into()), Matrix3::from_angle_x(Deg(hx)) * Matrix3::from_angle_y(Deg(hy)) * Matrix3::from_angle_z(Deg(hz)))
        } else {
            let e = Euler { x: Rad(hx), y: Rad(hy), z: Rad(hz) };
            ((e.into(), e.into(), e.into(), e.into()), Matrix3::from_angle_x(Rad(hx)) * Matrix3::from_angle_y(Rad(hy)) * Matrix3::from_angle_z(Rad(hz)))
        };
        let p = prod.rm();
        ensure!(p.mul(&p.transpose()).max_abs_diff(&RM::ident(3)) <= 1e-12, "huge-angle-product-f64", "from_angle_x * from_angle_y * from_angle_z of huge angles is not orthonormal: {:?}", prod);
        for (name, got) in [("Matrix3", m3.rm()), ("Matrix4 (linear part)", m4.rm().block(3)), ("Basis3", Matrix3::from(b3).rm()), ("Quaternion", Matrix3::from(q).rm())] {
            let e = got.max_abs_diff(&p);
            ensure!(e <= 1e-12, "huge-angle-xyz-f64", "{}::from(Euler) with huge angles ({:e}, {:e}, {:e}) differs from from_angle_x * from_angle_y * from_angle_z by {:e}", name, hx, hy, hz, e);
        }
        ensure!(m4.rm().max_abs_diff(&p.embed(4)) <= 1e-12, "huge-angle-xyz-f64", "Matrix4::from(Euler) with huge angles is not the embedded rotation");
    }
    pass(if use_deg { "deg" } else { "rad" }, true)
}

/// reference quaternion of intrinsic X-Y-Z angles
fn ref_quat(x: f64, y: f64, z: f64) -> [f64; 4] {
    let qx = [(x / 2.0).cos(), (x / 2.0).sin(), 0.0, 0.0];
    let qy = [(y / 2.0).cos(), 0.0, (y / 2.0).sin(), 0.0];
    let qz = [(z / 2.0).cos(), 0.0, 0.0, (z / 2.0).sin()];
    fnormalize4(&qmul(&qmul(&qx, &qy), &qz))
}

fn extract_f64(d: &mut Draw) -> Outcome {
    let kind = d.int(0, 11);
    let mut structured = false;
    let u: [f64; 4] = match kind {
        0..=2 => f_unit_quat(d),
        10 | 11 => {
            // exact zeros: a pure rotation about one coordinate axis (angle over two full turns, so that the scalar
            // part takes both signs), or a quaternion with one vanishing component
            structured = true;
            let h = d.f64_in(-PI, PI);
            let (c, sn) = (h.cos(), h.sin());
            match d.int(0, 6) {
                0 => [c, sn, 0.0, 0.0],
                1 => [c, 0.0, sn, 0.0],
                2 => [c, 0.0, 0.0, sn],
                3 => [0.0, c, sn, 0.0],
                4 => [0.0, 0.0, c, sn],
                5 => {
                    let k = d.below(4);
                    let mut e = [0.0; 4];
                    e[k] = 1.0;
                    e
                }
                _ => {
                    let mut g = f_unit_quat(d);
                    g[d.below(4)] = 0.0;
                    fnormalize4(&g)
                }
            }
        }
        3..=5 => {
            // y concentrated near +-pi/2 (cubic density)
            let t = d.unit();
            let eps = t * t * t * 0.6;
            let sgn = if d.bool() { 1.0 } else { -1.0 };
            ref_quat(d.f64_in(-PI, PI), sgn * (PI / 2.0 - eps), d.f64_in(-PI, PI))
        }
        6..=8 => {
            // sin y = +-0.998 (1 + delta)
            let delta = if d.chance(1, 6) { 0.0 } else { d.f64_slog(1e-13, 1e-3) };
            let sgn = if d.bool() { 1.0 } else { -1.0 };
            let sy = (0.998 * (1.0 + delta)).min(1.0);
            ref_quat(d.f64_in(-PI, PI), sgn * sy.asin(), d.f64_in(-PI, PI))
        }
        _ => {
            // exactly on the poles
            let sgn = if d.bool() { 1.0 } else { -1.0 };
            ref_quat(d.f64_in(-PI, PI), sgn * PI / 2.0, d.f64_in(-PI, PI))
        }
    };
    // either sign of the quaternion
    let u = if d.bool() { u } else { [-u[0], -u[1], -u[2], -u[3]] };
    d.note("unit q [w,x,y,z]", &u);
    let q = mk_q(&u);
    let s = 2.0 * (u[1] * u[3] + u[0] * u[2]) / qnorm2(&u);
    d.note("sin y of q's rotation", &s);
    let e: Euler<Rad<f64>> = Euler::from(q);
    d.note("extracted", &e);
    let rebuilt = Matrix3::from(e).rm();
    let want = qmat(&u);
    let err = rebuilt.max_abs_diff(&want);
    ensure!(e.x.0.is_finite() && e.y.0.is_finite() && e.z.0.is_finite(), "non-finite-angles", "extracted angles are not finite: {:?}", e);

    let regular_ok = || -> Result<(), String> {
        if !(e.x.0.abs() <= PI && e.z.0.abs() <= PI && e.y.0.abs() <= PI / 2.0) {
            return Err(format!("angles outside the documented ranges: {:?}", e));
        }
        if !(err <= 1e-10) {
            return Err(format!("rebuilt rotation differs from q's by {:e} (limit 1e-10)", err));
        }
        Ok(())
    };
    let cone_ok = || -> Result<(), String> {
        if e.x.0 != 0.0 {
            return Err(format!("x must be reported as 0 inside the gimbal-lock cone, got {:?}", e.x));
        }
        let want_y = if s > 0.0 { PI / 2.0 } else { -PI / 2.0 };
        if (e.y.0 - want_y).abs() > 1e-15 {
            return Err(format!("y must be {} inside the cone, got {:?}", want_y, e.y));
        }
        if !(err <= 0.13) {
            return Err(format!("rebuilt rotation differs from q's by {} (limit 0.13)", err));
        }
        Ok(())
    };
    let band = (s.abs() - 0.998).abs() <= 1e-9;
    if band {
        if let (Err(a), Err(b)) = (regular_ok(), cone_ok()) {
            return Outcome::Fail { sig: "boundary-neither", msg: format!("on the cone boundary neither obligation holds: [{}] / [{}]", a, b) };
        }
        return pass("boundary", true);
    }
    if s.abs() <= 0.998 {
        if let Err(m) = regular_ok() {
            return Outcome::Fail { sig: "regular", msg: format!("|sin y| = {} <= 0.998: {}", s.abs(), m) };
        }
        pass(if structured { "regular-exact-zeros" } else if s.abs() > 0.9 { "regular-near-cone" } else { "regular" }, true)
    } else {
        if let Err(m) = cone_ok() {
            return Outcome::Fail { sig: "cone", msg: format!("|sin y| = {} > 0.998: {}", s.abs(), m) };
        }
        pass(if s > 0.0 { "cone+" } else { "cone-" }, true)
    }
}

pub fn property() -> Property {
    let mut s = Vec::new();
    macro_rules! add {
        ($name:expr, $scalar:expr, $f:expr, $q:expr, $t:expr, $len:expr, $req:expr, $rule:expr) => {
            s.push(SubCheck { name: $name, scalar: $scalar, quick: $q, thorough: $t, len: $len, f: $f, required: $req, rule: $rule, exhaustive: false });
        };
    }
    add!("euler_to_rotation-Q", "Q", to_rot_q, 5000, 300_000, 24, &[("generic", 200)], "sin and cos of all three angles non-zero with |sin| != |cos|");
    add!("euler_to_rotation-f64", "f64", to_rot_f64, 8000, 500_000, 48, &[("rad", 200), ("deg", 200)], "every generated triple (a few turns, exact quarter-turn multiples, tiny angles, many-turn angles up to 1e12 rad; plus a triple of huge angles 1e290..MAX for the structure clause) is non-trivial");
    add!("quaternion_to_euler-f64", "f64", extract_f64, 20000, 1_000_000, 40,
        &[("regular", 100), ("regular-exact-zeros", 60), ("regular-near-cone", 50), ("cone+", 50), ("cone-", 50), ("boundary", 20)],
        "every generated unit quaternion; classes regular / near-cone / cone+ / cone- / boundary band are all required");
    Property {
        id: "C07",
        title: "Euler angles mean intrinsic X-Y-Z everywhere and round-trip via quaternions",
        subchecks: s,
        assumptions: &[
            "Q tier: named angles with exact rational sin/cos and half-angle pairs (see C06)",
            "f64 tier: |sin y| of q's rotation is recomputed by the harness as 2(xz+wy); within 1e-9 of 0.998 either obligation is accepted",
            "'rebuild exactly' is read as: matrix elements within 1e-10 (measured worst 1.4e-14); inside the cone the stated 0.13 bound is used as given (measured worst 0.063)",
            "the thresholds are f64-calibrated; the f32 instantiation of the extraction is not claimed",
        ],
        fuzz: true,
    }
}
