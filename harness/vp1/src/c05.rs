//! C05 — Quaternion, Basis3, Matrix3 and Matrix4 describe one and the same rotation.

use vcore::engine::*;
use vcore::gen::*;
use vcore::q::{Fp, Q};
use vcore::refs::*;
use vcore::{ensure, ensure_eq};
use cgmath::prelude::*;
use cgmath::{Basis3, BaseFloat, Matrix3, Matrix4, Quaternion, Rotation, Vector3};

/// multiply by one of the units 1, i, j, k so that the dominant component lands anywhere
fn spread_unit<S: Sc>(d: &mut Draw) -> RQ<S> {
    let u = unit_quat::<S>(d);
    let (o, z) = (S::one(), S::zero());
    let unit = d.pick(&[[o, z, z, z], [z, o, z, z], [z, z, o, z], [z, z, z, o]]);
    qmul(&u, &unit)
}

/// which branch of matrix->quaternion the documented conditions select for unit q
fn branch<S: BaseFloat>(q: &RQ<S>) -> &'static str {
    let four = S::from(4).unwrap();
    let (w2, x2, y2, z2) = (q[0] * q[0], q[1] * q[1], q[2] * q[2], q[3] * q[3]);
    if four * w2 >= S::one() {
        "trace>=0"
    } else if x2 > y2 && x2 > z2 {
        "m00-dominant"
    } else if y2 > z2 {
        "m11-dominant"
    } else {
        "m22-dominant"
    }
}

fn four_reps<S: Sc>(d: &mut Draw) -> Outcome {
    let up = spread_unit::<S>(d);
    let uq = spread_unit::<S>(d);
    let v = gv3::<S>(d);
    d.note("unit p [w,x,y,z]", &up);
    d.note("unit q [w,x,y,z]", &uq);
    d.note("v", &v);
    let (p, q) = (mk_q(&up), mk_q(&uq));
    let va = v3(v);
    let want = qrot(&uq, &va);
    let m3 = Matrix3::from(q);
    let m4 = Matrix4::from(q);
    let b3 = Basis3::from(q);
    ensure_eq!(v3(q * v), want, "quaternion-rotation", "q * v vs reference sandwich product");
    ensure_eq!(v3(m3 * v), want, "matrix3-rotation", "Matrix3::from(q) * v");
    ensure_eq!(v3(b3.rotate_vector(v)), want, "basis3-rotation", "Basis3::from(q).rotate_vector(v)");
    ensure_eq!(v3((m4 * v.extend(S::zero())).truncate()), want, "matrix4-rotation", "Matrix4::from(q) * (v,0)");
    ensure_eq!((m4 * v.extend(S::zero())).w, S::zero(), "matrix4-direction-w", "w of a rotated direction");
    // the same rotation applied through every other entry point
    {
        use cgmath::{Point3, Transform};
        let pt = Point3::from_vec(v);
        ensure_eq!(v3(Transform::<Point3<S>>::transform_vector(&m4, v)), want, "matrix4-transform_vector", "Matrix4::from(q).transform_vector(v)");
        ensure_eq!(v3(Transform::<Point3<S>>::transform_point(&m4, pt).to_vec()), want, "matrix4-transform_point", "Matrix4::from(q).transform_point(p)");
        ensure_eq!(v3(Transform::<Point3<S>>::transform_vector(&m3, v)), want, "matrix3-transform_vector", "Matrix3::from(q).transform_vector(v)");
        ensure_eq!(v3(Transform::<Point3<S>>::transform_point(&m3, pt).to_vec()), want, "matrix3-transform_point", "Matrix3::from(q).transform_point(p)");
        ensure_eq!(v3(q.rotate_vector(v)), want, "quaternion-rotate_vector", "q.rotate_vector(v)");
        ensure_eq!(v3(q.rotate_point(pt).to_vec()), want, "quaternion-rotate_point", "q.rotate_point(p)");
        ensure_eq!(v3(b3.rotate_point(pt).to_vec()), want, "basis3-rotate_point", "Basis3::from(q).rotate_point(p)");
        ensure_eq!(v3(&q * v), want, "quaternion-ref-mul", "&q * v");
        ensure_eq!(v3(&m3 * v), want, "matrix3-ref-mul", "&Matrix3 * v");
        ensure_eq!(v3((&m4 * v.extend(S::one())).truncate()), want, "matrix4-point-mul", "Matrix4::from(q) * (v,1)");
        ensure_eq!((m4 * v.extend(S::one())).w, S::one(), "matrix4-point-w", "w of a rotated point");
    }
    ensure_eq!(m3.rm(), qmat(&uq), "matrix3-table", "Matrix3::from(q) vs textbook rotation matrix");
    ensure_eq!(m4.rm(), qmat(&uq).embed(4), "matrix4-embeds-matrix3", "Matrix4::from(q) = Matrix3::from(q) embedded");
    ensure_eq!(Matrix3::from(b3), m3, "basis3-matrix", "Matrix3::from(Basis3::from(q))");
    ensure_eq!(*b3.as_ref(), m3, "basis3-as_ref", "Basis3::as_ref()");
    ensure_eq!(Basis3::from_quaternion(&q), b3, "from_quaternion", "Basis3::from_quaternion");
    ensure_eq!((m3 * m3.transpose()).rm(), RM::ident(3), "orthonormal", "M M^T = I");
    ensure_eq!(m3.determinant(), S::one(), "det+1", "det M = +1");
    // composition
    let pm = Matrix3::from(p);
    ensure_eq!(Matrix3::from(p * q), pm * m3, "composition-matrix3", "M(pq) = M(p) M(q)");
    ensure_eq!(Matrix4::from(p * q), Matrix4::from(p) * m4, "composition-matrix4", "M4(pq) = M4(p) M4(q)");
    ensure_eq!(Matrix3::from(Basis3::from(p) * b3), Matrix3::from(p * q), "composition-basis3", "Basis3(p)*Basis3(q) = Basis3(pq)");
    // composition through every other way of writing the product: operands by reference, Product over
    // values and over references (three factors, so that a reversed or mis-bracketed fold shows), concat
    let ur = spread_unit::<S>(d);
    let r = mk_q(&ur);
    let (bp, br) = (Basis3::from(p), Basis3::from(r));
    let want3 = Matrix3::from(p * q * r);
    ensure_eq!(Matrix3::from(&bp * &b3), Matrix3::from(p * q), "composition-basis3-refs", "&Basis3(p) * &Basis3(q)");
    ensure_eq!(Matrix3::from(bp * &b3), Matrix3::from(p * q), "composition-basis3-val-ref", "Basis3(p) * &Basis3(q)");
    ensure_eq!(Matrix3::from(&bp * b3), Matrix3::from(p * q), "composition-basis3-ref-val", "&Basis3(p) * Basis3(q)");
    let bl = [bp, b3, br];
    ensure_eq!(Matrix3::from(bl.iter().product::<Basis3<S>>()), want3, "product-basis3-refs", "Product over &Basis3 = Basis3(p q r)");
    ensure_eq!(Matrix3::from(bl.iter().cloned().product::<Basis3<S>>()), want3, "product-basis3-values", "Product over Basis3 = Basis3(p q r)");
    ensure_eq!(Matrix3::from(bl[..1].iter().product::<Basis3<S>>()), pm, "product-basis3-single", "Product of one Basis3");
    ensure_eq!(Matrix3::from(bl.iter().filter(|_| true).product::<Basis3<S>>()), want3, "product-basis3-unsized-refs", "Product over a filtered iterator of &Basis3");
    ensure_eq!(Matrix3::from(bl.iter().cloned().filter(|_| true).product::<Basis3<S>>()), want3, "product-basis3-unsized-values", "Product over a filtered iterator of Basis3");
    ensure_eq!(Matrix3::from(bl[..0].iter().product::<Basis3<S>>()), Matrix3::identity(), "product-basis3-empty", "empty Product of Basis3 is the identity");
    let ql = [p, q, r];
    ensure_eq!(Matrix3::from(ql.iter().product::<Quaternion<S>>()), want3, "product-quaternion-refs", "Product over &Quaternion");
    ensure_eq!(Matrix3::from(ql.iter().cloned().product::<Quaternion<S>>()), want3, "product-quaternion-values", "Product over Quaternion");
    ensure_eq!(Matrix3::from(ql[..1].iter().product::<Quaternion<S>>()), pm, "product-quaternion-single", "Product of one Quaternion");
    ensure_eq!(Matrix3::from(ql[..0].iter().product::<Quaternion<S>>()), Matrix3::identity(), "product-quaternion-empty", "empty Product of Quaternion is the identity");
    // the same lists from iterators that do not know their length (filter), that are driven by a closure (from_fn), or chained
    ensure_eq!(Matrix3::from(ql.iter().filter(|_| true).product::<Quaternion<S>>()), want3, "product-quaternion-unsized-refs", "Product over a filtered iterator of &Quaternion");
    ensure_eq!(Matrix3::from(ql.iter().cloned().filter(|_| true).product::<Quaternion<S>>()), want3, "product-quaternion-unsized-values", "Product over a filtered iterator of Quaternion");
    {
        let mut k = 0usize;
        let f: Quaternion<S> = std::iter::from_fn(|| { k += 1; ql.get(k - 1) }).product();
        ensure_eq!(Matrix3::from(f), want3, "product-quaternion-from_fn-refs", "Product over a from_fn iterator of &Quaternion");
        let c: Quaternion<S> = ql[..1].iter().chain(ql[1..].iter()).product();
        ensure_eq!(Matrix3::from(c), want3, "product-quaternion-chained", "Product over chained slices of &Quaternion");
    }
    let ml = [pm, m3, Matrix3::from(r)];
    ensure_eq!(ml.iter().product::<Matrix3<S>>(), want3, "product-matrix3-refs", "Product over &Matrix3");
    ensure_eq!(ml.iter().cloned().product::<Matrix3<S>>(), want3, "product-matrix3-values", "Product over Matrix3");
    ensure_eq!(ml.iter().filter(|_| true).product::<Matrix3<S>>(), want3, "product-matrix3-unsized-refs", "Product over a filtered iterator of &Matrix3");
    ensure_eq!(ml.iter().cloned().filter(|_| true).product::<Matrix3<S>>(), want3, "product-matrix3-unsized-values", "Product over a filtered iterator of Matrix3");
    let ml4 = [Matrix4::from(p), m4, Matrix4::from(r)];
    ensure_eq!(ml4.iter().product::<Matrix4<S>>(), Matrix4::from(p * q * r), "product-matrix4-refs", "Product over &Matrix4");
    ensure_eq!(ml4.iter().cloned().product::<Matrix4<S>>(), Matrix4::from(p * q * r), "product-matrix4-values", "Product over Matrix4");
    ensure_eq!(ml4.iter().filter(|_| true).product::<Matrix4<S>>(), Matrix4::from(p * q * r), "product-matrix4-unsized-refs", "Product over a filtered iterator of &Matrix4");
    // composition through the Transform entry points of the matrices (by value and in place), and in-place rotation products
    {
        use cgmath::{Point2, Point3, Transform};
        let m32 = Matrix3::from(p * q);
        ensure_eq!(Transform::<Point3<S>>::concat(&pm, &m3), m32, "matrix3-concat", "Matrix3 (3-D transform): concat(M(p), M(q)) = M(pq)");
        let mut c = pm;
        Transform::<Point3<S>>::concat_self(&mut c, &m3);
        ensure_eq!(c, m32, "matrix3-concat_self", "Matrix3 (3-D transform): M(p).concat_self(M(q)) = M(pq)");
        ensure_eq!(Transform::<Point2<S>>::concat(&pm, &m3), m32, "matrix3-2d-concat", "Matrix3 (2-D transform): concat(M(p), M(q)) = M(pq)");
        let mut c = pm;
        Transform::<Point2<S>>::concat_self(&mut c, &m3);
        ensure_eq!(c, m32, "matrix3-2d-concat_self", "Matrix3 (2-D transform): M(p).concat_self(M(q)) = M(pq)");
        let m42 = Matrix4::from(p * q);
        ensure_eq!(Transform::<Point3<S>>::concat(&Matrix4::from(p), &m4), m42, "matrix4-concat", "Matrix4: concat(M(p), M(q)) = M(pq)");
        let mut c = Matrix4::from(p);
        Transform::<Point3<S>>::concat_self(&mut c, &m4);
        ensure_eq!(c, m42, "matrix4-concat_self", "Matrix4: M(p).concat_self(M(q)) = M(pq)");
        // the inverse rotation through every representation's own inverse
        ensure_eq!(Transform::<Point3<S>>::inverse_transform(&m3), Some(Matrix3::from(q.conjugate())), "matrix3-inverse_transform", "Matrix3::from(q).inverse_transform() = M(conj q)");
        ensure_eq!(Transform::<Point3<S>>::inverse_transform(&m4), Some(Matrix4::from(q.conjugate())), "matrix4-inverse_transform", "Matrix4::from(q).inverse_transform() = M4(conj q)");
    }
    // conversions through the other spellings
    let b3i: Basis3<S> = q.into();
    ensure_eq!(b3i, b3, "quaternion-into-basis3", "Into<Basis3>");
    let m3i: Matrix3<S> = b3.into();
    ensure_eq!(m3i, m3, "basis3-into-matrix3", "Into<Matrix3> for Basis3");
    ensure_eq!(Matrix4::from(m3), m4, "matrix3-into-matrix4", "Matrix4::from(Matrix3::from(q)) = Matrix4::from(q)");
    // inverse agrees across representations
    ensure_eq!(Matrix3::from(Rotation::invert(&b3)), Matrix3::from(Rotation::invert(&q)), "invert-agrees", "invert() of Basis3 and Quaternion");
    ensure_eq!(Matrix3::from(Rotation::invert(&b3)), m3.transpose(), "invert-is-transpose", "invert() of Basis3 is the transpose");
    let nt = all_nonzero(&up) && all_nonzero(&uq) && generic_entries(&va);
    pass(if nt { "generic" } else { "degenerate" }, nt)
}


/// native floats: all four representations, through every way of applying them, on vectors in general position and on
/// vectors (nearly, exactly) along the rotation axis
fn four_reps_f64(d: &mut Draw) -> Outcome {
    use cgmath::{Point3, Transform};
    let u = f_unit_quat(d);
    let q = mk_q(&u);
    // any length at which v and its image are finite normal vectors (their *squared* length need not be)
    let len = match d.int(0, 3) { 0 => d.f64_log(1e-300, 1e-100), 1 => d.f64_log(1e100, 1e300), _ => d.f64_log(1e-12, 1e12) };
    let axis = fnormalize3(&[u[1], u[2], u[3]]);
    let kind = d.int(0, 3);
    let v: [f64; 3] = match kind {
        0 => scale3(&axis, len * if d.bool() { 1.0 } else { -1.0 }),
        1 => {
            // a hair off the axis: the perpendicular part (1e-12 .. 1e-2 of the length) must still be turned
            let g = f_unit3(d);
            let perp = fnormalize3(&cross3(&axis, &g));
            let eps = d.f64_log(1e-12, 1e-2);
            let sgn = if d.bool() { 1.0 } else { -1.0 };
            [len * (sgn * axis[0] + eps * perp[0]), len * (sgn * axis[1] + eps * perp[1]), len * (sgn * axis[2] + eps * perp[2])]
        }
        _ => scale3(&f_unit3(d), len),
    };
    d.note("unit q [w,x,y,z]", &u);
    d.note("v", &v);
    let cv = Vector3::from(v);
    let pt = Point3::from_vec(cv);
    let want = qrot(&u, &v);
    let (m3, m4, b3) = (Matrix3::from(q), Matrix4::from(q), Basis3::from(q));
    let vmax = v[0].abs().max(v[1].abs()).max(v[2].abs());
    let vl = vmax * ((v[0] / vmax).powi(2) + (v[1] / vmax).powi(2) + (v[2] / vmax).powi(2)).sqrt();
    let tol = 32.0 * f64::EPSILON * vl;
    for (name, got) in [
        ("quaternion-mul-f64", q * cv),
        ("quaternion-rotate_vector-f64", q.rotate_vector(cv)),
        ("quaternion-rotate_point-f64", q.rotate_point(pt).to_vec()),
        ("matrix3-mul-f64", m3 * cv),
        ("matrix3-transform_vector-f64", Transform::<Point3<f64>>::transform_vector(&m3, cv)),
        ("matrix3-transform_point-f64", Transform::<Point3<f64>>::transform_point(&m3, pt).to_vec()),
        ("matrix4-mul-f64", (m4 * cv.extend(0.0)).truncate()),
        ("matrix4-transform_vector-f64", Transform::<Point3<f64>>::transform_vector(&m4, cv)),
        ("matrix4-transform_point-f64", Transform::<Point3<f64>>::transform_point(&m4, pt).to_vec()),
        ("basis3-rotate_vector-f64", b3.rotate_vector(cv)),
        ("basis3-rotate_point-f64", b3.rotate_point(pt).to_vec()),
    ] {
        let e = (got.x - want[0]).abs().max((got.y - want[1]).abs()).max((got.z - want[2]).abs());
        if !(e <= tol) {
            return Outcome::Fail { sig: name, msg: format!("{} differs from the rotation of v by q by {:e} (|v| = {:e}, tolerance {:e}): {:?} vs {:?}", name, e, vl, tol, got, want) };
        }
    }
    pass(["along-the-axis", "nearly-along-the-axis", "general", "general"][kind as usize], true)
}

/// native floats: conversion respects composition - for independent rotations and for rotations about the same axis, about
/// axes 1e-12 .. 1e-2 rad apart (parallel or antiparallel), for a rotation with itself and with its inverse
macro_rules! composition_native {
    ($fname:ident, $F:ty) => {
        fn $fname(d: &mut Draw) -> Outcome {
            type F = $F;
            let axis = f_unit3(d);
            let (a1, a2) = (d.f64_in(-3.1, 3.1), d.f64_in(-3.1, 3.1));
            let mkq = |ax: &[f64; 3], a: f64| -> [f64; 4] { let (s, c) = ((a / 2.0).sin(), (a / 2.0).cos()); fnormalize4(&[c, s * ax[0], s * ax[1], s * ax[2]]) };
            let p = mkq(&axis, a1);
            let kind = d.int(0, 7);
            let (q, cls) = match kind {
                0 | 1 => (f_unit_quat(d), "independent"),
                2 => (mkq(&axis, a2), "same-axis"),
                3 | 4 | 5 => {
                    let g = f_unit3(d);
                    let perp = fnormalize3(&cross3(&axis, &g));
                    let sep = d.f64_log(1e-12, 1e-2);
                    let sgn = if d.bool() { 1.0 } else { -1.0 };
                    let ax2 = fnormalize3(&[sgn * axis[0] * sep.cos() + perp[0] * sep.sin(), sgn * axis[1] * sep.cos() + perp[1] * sep.sin(), sgn * axis[2] * sep.cos() + perp[2] * sep.sin()]);
                    (mkq(&ax2, a2), if sep < 1e-7 { "axes-closer-than-1e-7-rad" } else { "axes-1e-7-to-1e-2-rad-apart" })
                }
                6 => (p, "with-itself"),
                _ => ([p[0], -p[1], -p[2], -p[3]], "with-its-inverse"),
            };
            let cast = |u: &[f64; 4]| Quaternion::<F>::new(u[0] as F, u[1] as F, u[2] as F, u[3] as F);
            let (cp, cq) = (cast(&p), cast(&q));
            let v = f_vec3(d, -10.0, 10.0);
            let cv = Vector3::new(v[0] as F, v[1] as F, v[2] as F);
            d.note("unit p [w,x,y,z]", &p);
            d.note("unit q [w,x,y,z]", &q);
            d.note("v", &v);
            let tol = 24.0 * F::EPSILON;
            let pq = cp * cq;
            // the product itself, against the harness' own Hamilton product of the values handed in (computed in f64)
            let want = qmul(&[cp.s as f64, cp.v.x as f64, cp.v.y as f64, cp.v.z as f64], &[cq.s as f64, cq.v.x as f64, cq.v.y as f64, cq.v.z as f64]);
            let got = [pq.s as f64, pq.v.x as f64, pq.v.y as f64, pq.v.z as f64];
            for i in 0..4 {
                ensure!((got[i] - want[i]).abs() <= 8.0 * F::EPSILON as f64, "product", "component {} of p * q is {:e}, Hamilton product {:e}", i, got[i], want[i]);
            }
            let diff3 = |a: &Matrix3<F>, b: &Matrix3<F>| -> F { let (x, y) = (a.rm(), b.rm()); x.max_abs_diff(&y) };
            let m = Matrix3::from(pq);
            let e = diff3(&m, &(Matrix3::from(cp) * Matrix3::from(cq)));
            ensure!(e <= tol, "matrix3-composition", "Matrix3::from(p*q) differs from Matrix3::from(p) * Matrix3::from(q) by {:e}", e);
            let e = Matrix4::from(pq).rm().max_abs_diff(&(Matrix4::from(cp) * Matrix4::from(cq)).rm());
            ensure!(e <= tol, "matrix4-composition", "Matrix4::from(p*q) differs from Matrix4::from(p) * Matrix4::from(q) by {:e}", e);
            let e = diff3(&Matrix3::from(Basis3::from(pq)), &Matrix3::from(Basis3::from(cp) * Basis3::from(cq)));
            ensure!(e <= tol, "basis3-composition", "Basis3::from(p*q) differs from Basis3::from(p) * Basis3::from(q) by {:e}", e);
            let pr: Quaternion<F> = [cp, cq].iter().product();
            let pv: Quaternion<F> = vec![cp, cq].into_iter().product();
            let e = diff3(&Matrix3::from(pr), &m).max(diff3(&Matrix3::from(pv), &m)).max(diff3(&Matrix3::from(&cp * &cq), &m)).max(diff3(&Matrix3::from(cp * &cq), &m)).max(diff3(&Matrix3::from(&cp * cq), &m));
            ensure!(e <= tol, "product-forms-composition", "Product / reference forms of p*q give a matrix {:e} away from that of p*q", e);
            let (once, twice) = (pq * cv, cp * (cq * cv));
            let vl = (v[0].abs() + v[1].abs() + v[2].abs()) as F;
            let e = (once.x - twice.x).abs().max((once.y - twice.y).abs()).max((once.z - twice.z).abs());
            ensure!(e <= tol * vl, "rotate-twice", "(p*q)*v differs from p*(q*v) by {:e}", e);
            let via = Matrix3::from(cp) * (Matrix3::from(cq) * cv);
            let e = (once.x - via.x).abs().max((once.y - via.y).abs()).max((once.z - via.z).abs());
            ensure!(e <= tol * vl, "rotate-by-matrices", "(p*q)*v differs from M(p) (M(q) v) by {:e}", e);
            pass(cls, true)
        }
    };
}
composition_native!(composition_f64, f64);
composition_native!(composition_f32, f32);

fn back_q(d: &mut Draw) -> Outcome {
    let uq = spread_unit::<Q>(d);
    d.note("unit q [w,x,y,z]", &uq);
    let q = mk_q(&uq);
    let cls = branch(&uq);
    d.note("branch", &cls);
    let neg = -q;
    let back = Quaternion::from(Matrix3::from(q));
    ensure!(back == q || back == neg, "matrix3-roundtrip", "Quaternion::from(Matrix3::from(q)) = {:?}, expected +-{:?} (branch {})", back, q, cls);
    let back = Quaternion::from(Basis3::from(q));
    ensure!(back == q || back == neg, "basis3-roundtrip", "Quaternion::from(Basis3::from(q)) = {:?}, expected +-{:?} (branch {})", back, q, cls);
    // Into<Quaternion> of the Rotation3 bound
    let b: Quaternion<Q> = Basis3::from(q).into();
    ensure!(b == q || b == neg, "basis3-into", "Basis3 -> Quaternion via Into");
    pass(cls, all_nonzero(&uq))
}

fn back_f64(d: &mut Draw) -> Outcome {
    // generic unit quaternions, with the small component classes over-represented
    let mut u = f_unit_quat(d);
    if d.chance(1, 2) {
        // shrink w so that the negative-trace branches are reached
        u[0] *= d.f64_in(0.0, 0.6);
        u = fnormalize4(&u);
    }
    if d.chance(1, 8) {
        // near the trace = 0 hand-over: w = +-1/2 (1 + delta)
        let delta = d.f64_slog(1e-15, 1e-2);
        let w = 0.5 * (1.0 + delta) * if d.bool() { 1.0 } else { -1.0 };
        let rest = (1.0 - w * w).max(0.0).sqrt();
        let a = f_unit3(d);
        u = fnormalize4(&[w, a[0] * rest, a[1] * rest, a[2] * rest]);
    }
    let mut near_identity = false;
    if d.chance(1, 6) {
        // rotations by a tiny angle (and their negatives): s = +-cos(theta/2) is within rounding of +-1
        let th = d.f64_log(1e-12, 1e-2);
        let a = f_unit3(d);
        let sg = if d.bool() { 1.0 } else { -1.0 };
        u = fnormalize4(&[sg * (th / 2.0).cos(), sg * (th / 2.0).sin() * a[0], sg * (th / 2.0).sin() * a[1], sg * (th / 2.0).sin() * a[2]]);
        near_identity = true;
    }
    d.note("unit q [w,x,y,z]", &u);
    let q = mk_q(&u);
    let cls = if near_identity { "near-identity" } else { branch(&u) };
    let back = Quaternion::from(Matrix3::from(q));
    let dp = (back - q).magnitude();
    let dn = (back + q).magnitude();
    ensure!(dp.min(dn) <= 2e-14, "matrix3-roundtrip-f64", "Quaternion::from(Matrix3::from(q)) = {:?}, q = {:?}, distance to +-q = {:e} (branch {})", back, q, dp.min(dn), cls);
    let back = Quaternion::from(Basis3::from(q));
    let d2 = (back - q).magnitude().min((back + q).magnitude());
    ensure!(d2 <= 2e-14, "basis3-roundtrip-f64", "Quaternion::from(Basis3::from(q)) distance to +-q = {:e}", d2);
    // four representations agree on a vector (f64, tolerance)
    let v = Vector3::new(d.f64_in(-10.0, 10.0), d.f64_in(-10.0, 10.0), d.f64_in(-10.0, 10.0));
    let want = qrot(&u, &v3(v));
    // all four paths evaluate the same quadratic form of q: they agree to rounding
    let tol = 64.0 * f64::EPSILON * (1.0 + v.magnitude());
    for (name, got) in [
        ("quaternion", q * v),
        ("matrix3", Matrix3::from(q) * v),
        ("basis3", Basis3::from(q).rotate_vector(v)),
        ("matrix4", (Matrix4::from(q) * v.extend(0.0)).truncate()),
    ] {
        let e = (got - Vector3::from(want)).magnitude();
        ensure!(e <= tol, "four-reps-f64", "{} rotation differs from the reference by {:e}", name, e);
    }
    pass(cls, u.iter().all(|c| c.abs() > 1e-3))
}

const RULE: &str = "all components of the unit quaternion(s) non-zero (and vector components distinct, non-zero)";
const BR: &[(&str, u32)] = &[("trace>=0", 50), ("m00-dominant", 50), ("m11-dominant", 50), ("m22-dominant", 50)];
const BRF: &[(&str, u32)] = &[("trace>=0", 50), ("m00-dominant", 50), ("m11-dominant", 50), ("m22-dominant", 50), ("near-identity", 50)];

pub fn property() -> Property {
    let mut s = Vec::new();
    macro_rules! add {
        ($name:expr, $scalar:expr, $f:expr, $q:expr, $t:expr, $len:expr, $req:expr) => {
            s.push(SubCheck { name: $name, scalar: $scalar, quick: $q, thorough: $t, len: $len, f: $f, required: $req, rule: RULE, exhaustive: false });
        };
    }
    add!("four_reps-Q", "Q", four_reps::<Q>, 4000, 300_000, 96, &[("generic", 200)]);
    add!("four_reps-Fp", "Fp", four_reps::<Fp>, 4000, 300_000, 96, &[("generic", 200)]);
    add!("four_reps-f64", "f64", four_reps_f64, 8000, 400_000, 48, &[("along-the-axis", 100), ("nearly-along-the-axis", 100), ("general", 200)]);
    const COMP: &[(&str, u32)] = &[("independent", 100), ("same-axis", 50), ("axes-closer-than-1e-7-rad", 80), ("axes-1e-7-to-1e-2-rad-apart", 80), ("with-itself", 50), ("with-its-inverse", 50)];
    add!("composition-f64", "f64", composition_f64, 8000, 400_000, 64, COMP);
    add!("composition-f32", "f32", composition_f32, 8000, 400_000, 64, COMP);
    add!("back_conversion-Q", "Q", back_q, 8000, 400_000, 16, BR);
    add!("back_conversion-f64", "f64", back_f64, 8000, 400_000, 64, BRF);
    Property {
        id: "C05",
        title: "Quaternion, Basis3, Matrix3 and Matrix4 describe one and the same rotation",
        subchecks: s,
        assumptions: &[
            "unit quaternions: exactly unit rationals p^2/|p|^2 (times one of 1,i,j,k) in Q, field analogue in Fp, normalised Gaussians in f64",
            "the matrix->quaternion clause needs an order and square roots: decided exactly in Q (sqrt(1+trace)=2|w| is rational) and within 1e-12 in f64",
            "branch classes are recomputed by the harness from the input with the documented conditions; each of the four must be reached",
        ],
        fuzz: true,
    }
}
