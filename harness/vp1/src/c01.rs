//! C01 — column-major, column-vector matrix products (exact tiers Q and Fp).

use vcore::engine::*;
use vcore::gen::*;
use vcore::q::{Fp, Q};
use vcore::refs::*;
use vcore::{ensure, ensure_eq};
use cgmath::prelude::*;
use cgmath::{Matrix2, Matrix3, Matrix4, Point2, Point3, Transform, Vector2, Vector3, Vector4};

fn new2<S: Sc>(m: &RM<S>) -> Matrix2<S> {
    Matrix2::new(m.e[0][0], m.e[0][1], m.e[1][0], m.e[1][1])
}
fn new3<S: Sc>(m: &RM<S>) -> Matrix3<S> {
    let e = &m.e;
    Matrix3::new(e[0][0], e[0][1], e[0][2], e[1][0], e[1][1], e[1][2], e[2][0], e[2][1], e[2][2])
}
fn new4<S: Sc>(m: &RM<S>) -> Matrix4<S> {
    let e = &m.e;
    Matrix4::new(
        e[0][0], e[0][1], e[0][2], e[0][3], e[1][0], e[1][1], e[1][2], e[1][3], e[2][0], e[2][1],
        e[2][2], e[2][3], e[3][0], e[3][1], e[3][2], e[3][3],
    )
}
fn cols2<S: Sc>(m: &RM<S>) -> Matrix2<S> {
    Matrix2::from_cols(mk_v2(&m.e[0]), mk_v2(&m.e[1]))
}
fn cols3<S: Sc>(m: &RM<S>) -> Matrix3<S> {
    Matrix3::from_cols(mk_v3(&m.e[0]), mk_v3(&m.e[1]), mk_v3(&m.e[2]))
}
fn cols4<S: Sc>(m: &RM<S>) -> Matrix4<S> {
    Matrix4::from_cols(mk_v4(&m.e[0]), mk_v4(&m.e[1]), mk_v4(&m.e[2]), mk_v4(&m.e[3]))
}

fn classify<S: Sc>(ms: &[&RM<S>]) -> (&'static str, bool) {
    let dense = ms.iter().all(|m| m.all_nonzero());
    let asym = ms.iter().all(|m| !m.is_symmetric_exact());
    if dense && asym {
        ("dense-asymmetric", true)
    } else if dense {
        ("dense-symmetric", false)
    } else {
        ("has-zero-entry", false)
    }
}

macro_rules! dim_checks {
    ($modname:ident, $n:expr, $M:ident, $V:ident, $new:ident, $cols:ident, $mkm:ident, $mkv:ident, $va:ident) => {
        pub mod $modname {
            use super::*;

            pub fn layout<S: Sc>(d: &mut Draw) -> Outcome {
                let n = $n;
                let t = grm::<S>(d, n);
                d.note("entries(col-major)", &t);
                let a = $new(&t);
                let b = $cols(&t);
                ensure_eq!(a, b, "new-vs-from_cols", "new(..) and from_cols(..) disagree");
                for c in 0..n {
                    ensure_eq!($va(a[c]).to_vec(), t.e[c][..n].to_vec(), "index-column", "m[{}]", c);
                    for r in 0..n {
                        ensure_eq!(a[c][r], t.e[c][r], "index-element", "m[{}][{}]", c, r);
                    }
                }
                for r in 0..n {
                    let row: Vec<S> = (0..n).map(|c| t.e[c][r]).collect();
                    ensure_eq!($va(a.row(r)).to_vec(), row, "row", "row({})", r);
                }
                ensure_eq!(a.transpose().rm(), t.transpose(), "transpose", "transpose()");
                let diag: Vec<S> = (0..n).map(|i| t.e[i][i]).collect();
                ensure_eq!($va(a.diagonal()).to_vec(), diag, "diagonal", "diagonal()");
                let mut tr = S::zero();
                for i in 0..n {
                    tr = tr + t.e[i][i];
                }
                ensure_eq!(a.trace(), tr, "trace", "trace()");
                ensure_eq!(a.rm(), t, "readback", "field read-back");
                // the array spellings of the same constructor: element (c, r) is the r-th entry of the c-th inner array
                {
                    let nested: [[S; $n]; $n] = std::array::from_fn(|c| std::array::from_fn(|r| t.e[c][r]));
                    ensure_eq!($M::<S>::from(nested), a, "from-nested-array", "from([[..]; n]) vs new(..)");
                    let back: [[S; $n]; $n] = a.into();
                    ensure_eq!(back, nested, "into-nested-array", "Into<[[S; n]; n]>");
                    let r: &$M<S> = (&nested).into();
                    ensure_eq!(*r, a, "from-nested-array-ref", "<&M>::from(&[[..]; n])");
                    let ar: &[[S; $n]; $n] = a.as_ref();
                    ensure_eq!(*ar, nested, "as_ref-nested-array", "AsRef<[[S; n]; n]>");
                    let flat: [S; $n * $n] = std::array::from_fn(|i| t.e[i / $n][i % $n]);
                    let fr: &$M<S> = (&flat).into();
                    ensure_eq!(*fr, a, "from-flat-array-ref", "<&M>::from(&[S; n*n]) is column-major");
                    let af: &[S; $n * $n] = a.as_ref();
                    ensure_eq!(*af, flat, "as_ref-flat-array", "AsRef<[S; n*n]> is column-major");
                }
                // the accessors that take an element's address take it as (column, row), and a column / row by its index
                for c1 in 0..n {
                    for r1 in 0..n {
                        for c2 in 0..n {
                            for r2 in 0..n {
                                let mut w = a;
                                w.swap_elements((c1, r1), (c2, r2));
                                let mut want = t.clone();
                                let (x, y) = (want.e[c1][r1], want.e[c2][r2]);
                                want.e[c1][r1] = y;
                                want.e[c2][r2] = x;
                                ensure_eq!(w.rm(), want, "swap_elements-address", "swap_elements(({},{}), ({},{})): elements are addressed as (column, row)", c1, r1, c2, r2);
                            }
                        }
                    }
                }
                for i in 0..n {
                    for j in 0..n {
                        let mut w = a;
                        w.swap_columns(i, j);
                        ensure_eq!(w.rm(), RM::from_fn(n, |c, r| t.e[if c == i { j } else if c == j { i } else { c }][r]), "swap_columns-address", "swap_columns({},{})", i, j);
                        let mut w = a;
                        w.swap_rows(i, j);
                        ensure_eq!(w.rm(), RM::from_fn(n, |c, r| t.e[c][if r == i { j } else if r == j { i } else { r }]), "swap_rows-address", "swap_rows({},{})", i, j);
                    }
                    let mut w = a;
                    let old = w.replace_col(i, a[(i + 1) % n]);
                    ensure_eq!($va(old).to_vec(), t.e[i][..n].to_vec(), "replace_col-returns-old", "replace_col({}, ..) returns the old column", i);
                    ensure_eq!(w.rm(), RM::from_fn(n, |c, r| t.e[if c == i { (i + 1) % n } else { c }][r]), "replace_col-address", "replace_col({}, column {})", i, (i + 1) % n);
                }
                let (c, nt) = classify(&[&t]);
                pass(c, nt)
            }

            pub fn mul_vec<S: Sc>(d: &mut Draw) -> Outcome {
                let n = $n;
                let t = grm::<S>(d, n);
                let v: Vec<S> = vec_n(d, n);
                d.note("A", &t);
                d.note("v", &v);
                let a = $mkm(&t);
                let cv = $mkv(&v);
                // sum over c of column c scaled by v[c]
                let mut want = vec![S::zero(); n];
                for c in 0..n {
                    for r in 0..n {
                        want[r] = want[r] + t.e[c][r] * v[c];
                    }
                }
                ensure_eq!($va(a * cv).to_vec(), want, "M*v", "A * v");
                ensure_eq!($va(&a * cv).to_vec(), want, "M*v-ref-lhs", "&A * v");
                ensure_eq!($va(a * &cv).to_vec(), want, "M*v-ref-rhs", "A * &v");
                ensure_eq!($va(&a * &cv).to_vec(), want, "M*v-ref-both", "&A * &v");
                // the same through column arithmetic of cgmath itself
                let mut acc = $V::<S>::zero();
                for c in 0..n {
                    acc = acc + a[c] * v[c];
                }
                ensure_eq!($va(acc).to_vec(), want, "column-combination", "sum_c A[c]*v[c]");
                let (c, nt) = classify(&[&t]);
                pass(c, nt && all_nonzero(&v))
            }

            pub fn mul_mat<S: Sc>(d: &mut Draw) -> Outcome {
                let n = $n;
                let ta = grm::<S>(d, n);
                // now and then the same matrix on both sides (A * A)
                let tb = if d.chance(1, 8) { ta } else { grm::<S>(d, n) };
                d.note("A", &ta);
                d.note("B", &tb);
                let a = $mkm(&ta);
                let b = $mkm(&tb);
                let want = ta.mul(&tb);
                ensure_eq!((a * b).rm(), want, "A*B", "A * B");
                ensure_eq!((&a * b).rm(), want, "A*B-ref-lhs", "&A * B");
                ensure_eq!((a * &b).rm(), want, "A*B-ref-rhs", "A * &B");
                ensure_eq!((&a * &b).rm(), want, "A*B-ref-both", "&A * &B");
                let ab = a * b;
                for c in 0..n {
                    ensure_eq!(ab[c], a * b[c], "column-of-product", "column {} of A*B vs A*(B[{}])", c, c);
                }
                let (c, nt) = classify(&[&ta, &tb]);
                pass(c, nt)
            }

            pub fn ring<S: Sc>(d: &mut Draw) -> Outcome {
                let n = $n;
                let (ta, tb, tc) = (grm::<S>(d, n), grm::<S>(d, n), grm::<S>(d, n));
                let u: Vec<S> = vec_n(d, n);
                let v: Vec<S> = vec_n(d, n);
                let (sa, sb) = (S::gen(d), S::gen_nz(d));
                d.note("A", &ta);
                d.note("B", &tb);
                d.note("C", &tc);
                d.note("a,b", &(sa, sb));
                let (a, b, c) = ($mkm(&ta), $mkm(&tb), $mkm(&tc));
                let (cu, cv) = ($mkv(&u), $mkv(&v));
                ensure_eq!((a + b).rm(), ta.add(&tb), "add", "A + B element-wise");
                ensure_eq!((a - b).rm(), ta.sub(&tb), "sub", "A - B element-wise");
                ensure_eq!((-a).rm(), ta.map(|x| -x), "neg", "-A element-wise");
                ensure_eq!((a * sa).rm(), ta.scale(sa), "mul-scalar", "A * s element-wise");
                ensure_eq!((a / sb).rm(), ta.map(|x| x / sb), "div-scalar", "A / s element-wise");
                ensure_eq!((a * b) * c, a * (b * c), "assoc", "(AB)C = A(BC)");
                ensure_eq!(a * (b + c), a * b + a * c, "distrib-left", "A(B+C) = AB+AC");
                ensure_eq!((a + b) * c, a * c + b * c, "distrib-right", "(A+B)C = AC+BC");
                let i = $M::<S>::identity();
                ensure_eq!(i.rm(), RM::<S>::ident(n), "identity", "identity() element table");
                ensure_eq!($M::<S>::one().rm(), RM::<S>::ident(n), "one", "one() element table");
                {
                    use num_traits::{One, Zero};
                    ensure!(i.is_one() && $M::<S>::one().is_one(), "is_one-of-identity", "identity().is_one()");
                    ensure_eq!(a.is_one(), ta == RM::<S>::ident(n), "is_one", "A.is_one() iff A is the identity");
                    if S::ORDERED {
                        // (approximate in the library: an ulps comparison, which the unordered tier cannot evaluate)
                        ensure!($M::<S>::zero().is_zero(), "is_zero-of-zero", "zero().is_zero()");
                        ensure_eq!(a.is_zero(), ta == RM::<S>::zero(n), "is_zero", "A.is_zero() iff every entry is zero");
                    }
                    let mut m = a;
                    m.set_one();
                    ensure_eq!(m, i, "set_one", "set_one() gives the identity");
                    let mut m = a;
                    m.set_zero();
                    ensure_eq!(m.rm(), RM::<S>::zero(n), "set_zero", "set_zero() gives the zero matrix");
                }
                ensure_eq!(a * i, a, "identity-right", "A I = A");
                ensure_eq!(i * a, a, "identity-left", "I A = A");
                ensure_eq!(a + $M::<S>::zero(), a, "zero", "A + 0 = A");
                ensure_eq!(a * (cu * sa + cv * sb), (a * cu) * sa + (a * cv) * sb, "linear", "A(au+bv) = aAu+bAv");
                // the same ring operations through their other entry points: operand by reference, in place, iterator folds
                ensure_eq!((&a + &b).rm(), ta.add(&tb), "add-ref-ref", "&A + &B");
                ensure_eq!((a + &b).rm(), ta.add(&tb), "add-val-ref", "A + &B");
                ensure_eq!((&a + b).rm(), ta.add(&tb), "add-ref-val", "&A + B");
                ensure_eq!((&a - &b).rm(), ta.sub(&tb), "sub-ref-ref", "&A - &B");
                ensure_eq!((a - &b).rm(), ta.sub(&tb), "sub-val-ref", "A - &B");
                ensure_eq!((&a - b).rm(), ta.sub(&tb), "sub-ref-val", "&A - B");
                ensure_eq!((-&a).rm(), ta.map(|x| -x), "neg-ref", "-&A");
                ensure_eq!((&a * sa).rm(), ta.scale(sa), "mul-scalar-ref", "&A * s");
                ensure_eq!((&a / sb).rm(), ta.map(|x| x / sb), "div-scalar-ref", "&A / s");
                if S::ORDERED {
                    ensure_eq!((a % sb).rm(), ta.map(|x| x % sb), "rem-scalar", "A % s element-wise");
                    let mut m = a;
                    m %= sb;
                    ensure_eq!(m.rm(), ta.map(|x| x % sb), "rem_assign-scalar", "A %= s");
                }
                let mut m = a;
                m += b;
                ensure_eq!(m.rm(), ta.add(&tb), "add_assign", "A += B");
                let mut m = a;
                m -= b;
                ensure_eq!(m.rm(), ta.sub(&tb), "sub_assign", "A -= B");
                let mut m = a;
                m -= a;
                ensure_eq!(m, $M::<S>::zero(), "sub_assign-self", "A -= A gives zero");
                let mut m = a;
                m *= sa;
                ensure_eq!(m.rm(), ta.scale(sa), "mul_assign-scalar", "A *= s");
                let mut m = a;
                m /= sb;
                ensure_eq!(m.rm(), ta.map(|x| x / sb), "div_assign-scalar", "A /= s");
                let list = [a, b, c];
                ensure_eq!(list.iter().sum::<$M<S>>().rm(), ta.add(&tb).add(&tc), "sum-refs", "sum over &A");
                ensure_eq!(list.iter().cloned().sum::<$M<S>>().rm(), ta.add(&tb).add(&tc), "sum-values", "sum over A");
                ensure_eq!(list.iter().product::<$M<S>>(), a * b * c, "product-refs", "product over &A is A B C in order");
                ensure_eq!(list.iter().cloned().product::<$M<S>>(), a * b * c, "product-values", "product over A is A B C in order");
                ensure_eq!(list[..1].iter().sum::<$M<S>>(), a, "sum-single", "sum of one matrix");
                ensure_eq!(list.iter().filter(|_| true).sum::<$M<S>>().rm(), ta.add(&tb).add(&tc), "sum-unsized-refs", "sum over a filtered iterator of &A");
                ensure_eq!(list.iter().cloned().filter(|_| true).sum::<$M<S>>().rm(), ta.add(&tb).add(&tc), "sum-unsized-values", "sum over a filtered iterator of A");
                ensure_eq!(list.iter().filter(|_| true).product::<$M<S>>(), a * b * c, "product-unsized-refs", "product over a filtered iterator of &A");
                ensure_eq!(list.iter().cloned().filter(|_| true).product::<$M<S>>(), a * b * c, "product-unsized-values", "product over a filtered iterator of A");
                ensure_eq!(list[..1].iter().product::<$M<S>>(), a, "product-single", "product of one matrix");
                ensure_eq!(list[..0].iter().sum::<$M<S>>(), $M::<S>::zero(), "sum-empty", "empty sum is zero()");
                ensure_eq!(list[..0].iter().product::<$M<S>>(), $M::<S>::one(), "product-empty", "empty product is one()");
                let (cl, nt) = classify(&[&ta, &tb, &tc]);
                pass(cl, nt)
            }

            pub fn diag_ctors<S: Sc>(d: &mut Draw) -> Outcome {
                let n = $n;
                let s = S::gen(d);
                let dv: Vec<S> = vec_n(d, n);
                d.note("value", &s);
                d.note("diagonal", &dv);
                let want = RM::<S>::from_fn(n, |c, r| if c == r { s } else { S::zero() });
                ensure_eq!($M::<S>::from_value(s).rm(), want, "from_value", "from_value");
                let want = RM::<S>::from_fn(n, |c, r| if c == r { dv[c] } else { S::zero() });
                ensure_eq!($M::<S>::from_diagonal($mkv(&dv)).rm(), want, "from_diagonal", "from_diagonal");
                pass(if generic_entries(&dv) { "generic" } else { "degenerate" }, generic_entries(&dv))
            }
        }
    };
}

dim_checks!(d2, 2, Matrix2, Vector2, new2, cols2, mk_m2, mk_v2, v2);
dim_checks!(d3, 3, Matrix3, Vector3, new3, cols3, mk_m3, mk_v3, v3);
dim_checks!(d4, 4, Matrix4, Vector4, new4, cols4, mk_m4, mk_v4, v4);

/// embeddings of smaller matrices into larger ones
fn embeddings<S: Sc>(d: &mut Draw) -> Outcome {
    let t2 = grm::<S>(d, 2);
    let t3 = grm::<S>(d, 3);
    d.note("M2", &t2);
    d.note("M3", &t3);
    let m2 = mk_m2(&t2);
    let m3 = mk_m3(&t3);
    ensure_eq!(Matrix3::from(m2).rm(), t2.embed(3), "m2-into-m3", "Matrix3::from(Matrix2)");
    ensure_eq!(Matrix4::from(m2).rm(), t2.embed(4), "m2-into-m4", "Matrix4::from(Matrix2)");
    ensure_eq!(Matrix4::from(m3).rm(), t3.embed(4), "m3-into-m4", "Matrix4::from(Matrix3)");
    let (c, nt) = classify(&[&t2, &t3]);
    pass(c, nt)
}

/// scale / translation constructors and their action on points and vectors; concat
fn affine_ctors<S: Sc>(d: &mut Draw) -> Outcome {
    let (sx, sy, sz, s) = (S::gen(d), S::gen(d), S::gen(d), S::gen(d));
    let t3 = gv3::<S>(d);
    let t2 = gv2::<S>(d);
    let p3 = gp3::<S>(d);
    let p2 = gp2::<S>(d);
    let w3 = gv3::<S>(d);
    let w2 = gv2::<S>(d);
    d.note("scale(x,y,z,uniform)", &(sx, sy, sz, s));
    d.note("translation3", &t3);
    d.note("translation2", &t2);
    d.note("p3,v3", &(p3, w3));
    d.note("p2,v2", &(p2, w2));
    let (o, z) = (S::one(), S::zero());

    // element tables
    let want = RM::from_fn(4, |c, r| if c == r { [sx, sy, sz, o][c] } else { z });
    ensure_eq!(Matrix4::from_nonuniform_scale(sx, sy, sz).rm(), want, "m4-nonuniform-scale-table", "Matrix4::from_nonuniform_scale");
    let want = RM::from_fn(4, |c, r| if c == r { [s, s, s, o][c] } else { z });
    ensure_eq!(Matrix4::from_scale(s).rm(), want, "m4-scale-table", "Matrix4::from_scale");
    let want = RM::from_fn(4, |c, r| if c == r { o } else if c == 3 { [t3.x, t3.y, t3.z, o][r] } else { z });
    ensure_eq!(Matrix4::from_translation(t3).rm(), want, "m4-translation-table", "Matrix4::from_translation");
    let want = RM::from_fn(3, |c, r| if c == r { [sx, sy, o][c] } else { z });
    ensure_eq!(Matrix3::from_nonuniform_scale(sx, sy).rm(), want, "m3-nonuniform-scale-table", "Matrix3::from_nonuniform_scale");
    let want = RM::from_fn(3, |c, r| if c == r { [s, s, o][c] } else { z });
    ensure_eq!(Matrix3::from_scale(s).rm(), want, "m3-scale-table", "Matrix3::from_scale");
    let want = RM::from_fn(3, |c, r| if c == r { o } else if c == 2 { [t2.x, t2.y, o][r] } else { z });
    ensure_eq!(Matrix3::from_translation(t2).rm(), want, "m3-translation-table", "Matrix3::from_translation");

    // action: p -> s.p + t ; v -> s.v
    let m = Matrix4::from_translation(t3) * Matrix4::from_nonuniform_scale(sx, sy, sz);
    let tp = Transform::<Point3<S>>::transform_point(&m, p3);
    ensure_eq!(tp, Point3::new(sx * p3.x + t3.x, sy * p3.y + t3.y, sz * p3.z + t3.z), "m4-action-point", "T*S applied to a point");
    let tv = Transform::<Point3<S>>::transform_vector(&m, w3);
    ensure_eq!(tv, Vector3::new(sx * w3.x, sy * w3.y, sz * w3.z), "m4-action-vector", "T*S applied to a vector (not displaced)");
    let tp = Transform::<Point3<S>>::transform_point(&Matrix4::from_translation(t3), p3);
    ensure_eq!(tp, p3 + t3, "m4-translate-point", "translation applied to a point");
    let tv = Transform::<Point3<S>>::transform_vector(&Matrix4::from_translation(t3), w3);
    ensure_eq!(tv, w3, "m4-translate-vector", "translation applied to a vector");
    let tp = Transform::<Point3<S>>::transform_point(&Matrix4::from_scale(s), p3);
    ensure_eq!(tp, Point3::new(s * p3.x, s * p3.y, s * p3.z), "m4-scale-point", "uniform scale applied to a point");

    let m = Matrix3::from_translation(t2) * Matrix3::from_nonuniform_scale(sx, sy);
    let tp = Transform::<Point2<S>>::transform_point(&m, p2);
    ensure_eq!(tp, Point2::new(sx * p2.x + t2.x, sy * p2.y + t2.y), "m3-action-point", "2-D T*S applied to a point");
    let tv = Transform::<Point2<S>>::transform_vector(&m, w2);
    ensure_eq!(tv, Vector2::new(sx * w2.x, sy * w2.y), "m3-action-vector", "2-D T*S applied to a vector");
    let tp = Transform::<Point2<S>>::transform_point(&Matrix3::from_scale(s), p2);
    ensure_eq!(tp, Point2::new(s * p2.x, s * p2.y), "m3-scale-point", "2-D uniform scale applied to a point");

    // Matrix3 as a 3-D linear transform
    let g = grm::<S>(d, 3);
    let gm = mk_m3(&g);
    let lp = Transform::<Point3<S>>::transform_point(&gm, p3);
    let want = g.mulv(&[p3.x, p3.y, p3.z]);
    ensure_eq!(vec![lp.x, lp.y, lp.z], want, "m3-linear-point", "Matrix3 as 3-D transform on a point");
    let lv = Transform::<Point3<S>>::transform_vector(&gm, w3);
    ensure_eq!(v3(lv).to_vec(), g.mulv(&v3(w3)), "m3-linear-vector", "Matrix3 as 3-D transform on a vector");

    // concat == product
    let g4a = gm4::<S>(d);
    let g4b = gm4::<S>(d);
    ensure_eq!(Transform::<Point3<S>>::concat(&g4a, &g4b), g4a * g4b, "m4-concat", "Matrix4 concat");
    let mut cs = g4a;
    Transform::<Point3<S>>::concat_self(&mut cs, &g4b);
    ensure_eq!(cs, g4a * g4b, "m4-concat_self", "Matrix4 concat_self");
    let g3b = gm3::<S>(d);
    ensure_eq!(Transform::<Point2<S>>::concat(&gm, &g3b), gm * g3b, "m3-concat-2d", "Matrix3 concat (2-D impl)");
    ensure_eq!(Transform::<Point3<S>>::concat(&gm, &g3b), gm * g3b, "m3-concat-3d", "Matrix3 concat (3-D impl)");
    let mut cs = gm;
    Transform::<Point2<S>>::concat_self(&mut cs, &g3b);
    ensure_eq!(cs, gm * g3b, "m3-concat_self", "Matrix3 concat_self");

    let all = [sx, sy, sz, s, t3.x, t3.y, t3.z, t2.x, t2.y, p3.x, p3.y, p3.z];
    let nt = generic_entries(&[sx, sy, sz]) && all_nonzero(&all);
    pass(if nt { "generic" } else { "degenerate" }, nt)
}


/// f64: products against the triple-loop reference with a rounding-only tolerance, on regimes an
/// exact field cannot represent: near-identity matrices, entries of very different magnitude,
/// sparse matrices, and aliased operands (A * A)
fn products_f64(d: &mut Draw) -> Outcome {
    let n = d.int(2, 4) as usize;
    let class = d.int(0, 4);
    let gen = |d: &mut Draw, class: i64| -> RM<f64> {
        match class {
            0 => RM::from_fn(n, |_, _| d.f64_slog(1e-3, 1e3)),
            1 => {
                // identity plus a tiny perturbation
                let eps = d.f64_log(1e-17, 1e-6);
                RM::from_fn(n, |c, r| if c == r { 1.0 } else { 0.0 } + eps * d.f64_in(-1.0, 1.0))
            }
            2 => RM::from_fn(n, |_, _| d.f64_slog(1e-150, 1e150)),
            3 => RM::from_fn(n, |_, _| if d.chance(1, 2) { 0.0 } else { d.f64_slog(1e-3, 1e3) }),
            _ => RM::from_fn(n, |c, r| if c == r { d.f64_slog(1e-3, 1e3) } else { 0.0 }),
        }
    };
    let ta = gen(d, class);
    let cb = d.int(0, 4);
    let tb = if d.chance(1, 5) { ta } else { gen(d, cb) };
    let v: Vec<f64> = (0..n).map(|_| d.f64_slog(1e-3, 1e3)).collect();
    d.note("A", &ta);
    d.note("B", &tb);
    d.note("v", &v);
    // reference products and the matching magnitude sums for the tolerance
    let abs = |m: &RM<f64>| m.map(|x| x.abs());
    let want = ta.mul(&tb);
    let scale = abs(&ta).mul(&abs(&tb));
    let got: RM<f64> = match n {
        2 => (mk_m2(&ta) * mk_m2(&tb)).rm(),
        3 => (mk_m3(&ta) * mk_m3(&tb)).rm(),
        _ => (mk_m4(&ta) * mk_m4(&tb)).rm(),
    };
    for c in 0..n {
        for r in 0..n {
            let tol = 8.0 * f64::EPSILON * scale.e[c][r] + 1e-300;
            ensure!((got.e[c][r] - want.e[c][r]).abs() <= tol || (got.e[c][r] == want.e[c][r]), "A*B-f64",
                "element (c{},r{}) of A*B is {:e}, reference {:e}", c, r, got.e[c][r], want.e[c][r]);
        }
    }
    let wantv = ta.mulv(&v);
    let av: Vec<f64> = v.iter().map(|x| x.abs()).collect();
    let scalev = abs(&ta).mulv(&av);
    let gotv: Vec<f64> = match n {
        2 => v2(mk_m2(&ta) * mk_v2(&v)).to_vec(),
        3 => v3(mk_m3(&ta) * mk_v3(&v)).to_vec(),
        _ => v4(mk_m4(&ta) * mk_v4(&v)).to_vec(),
    };
    for r in 0..n {
        let tol = 8.0 * f64::EPSILON * scalev[r] + 1e-300;
        ensure!((gotv[r] - wantv[r]).abs() <= tol, "A*v-f64", "component {} of A*v is {:e}, reference {:e}", r, gotv[r], wantv[r]);
    }
    // element-wise operations are exact per component
    let sum: RM<f64> = match n {
        2 => (mk_m2(&ta) + mk_m2(&tb)).rm(),
        3 => (mk_m3(&ta) + mk_m3(&tb)).rm(),
        _ => (mk_m4(&ta) + mk_m4(&tb)).rm(),
    };
    ensure!(sum == ta.add(&tb), "add-f64", "A + B is not element-wise in f64");
    // transpose and transpose_self move every element, whatever its size: on A itself, on A scaled down to nothing, and on
    // a matrix that is symmetric only nearly (mirror entries differing by 1e-30 .. 1e-10 of their size, or by subnormals)
    {
        let tiny = (2.0f64).powi(-d.int(40, 1000) as i32);
        let rel = d.f64_slog(1e-30, 1e-10);
        let nearly_sym = RM::<f64>::from_fn(n, |c, r| if c < r { ta.e[r][c] * (1.0 + rel) + if d.chance(1, 4) { 5e-324 } else { 0.0 } } else { ta.e[c][r] });
        for (what, t) in [("A", ta), ("A scaled by a tiny power of two", ta.map(|x| x * tiny)), ("a nearly symmetric matrix", nearly_sym), ("a nearly symmetric tiny matrix", nearly_sym.map(|x| x * tiny))] {
            let want_t = RM::<f64>::from_fn(n, |c, r| t.e[r][c]);
            let same = |x: &RM<f64>, y: &RM<f64>| (0..n).all(|c| (0..n).all(|r| x.e[c][r].to_bits() == y.e[c][r].to_bits()));
            macro_rules! tr {
                ($mk:ident) => {{
                    let m = $mk(&t);
                    ensure!(same(&m.transpose().rm(), &want_t), "transpose-f64", "transpose() of {} does not move element (c,r) to (r,c): {:?}", what, m);
                    let mut w = m;
                    w.transpose_self();
                    ensure!(same(&w.rm(), &want_t), "transpose_self-f64", "transpose_self() of {} differs from transpose(): {:?} -> {:?}", what, m, w);
                    w.transpose_self();
                    ensure!(same(&w.rm(), &t), "transpose_self-involution-f64", "transpose_self() twice does not restore {}", what);
                }};
            }
            match n {
                2 => tr!(mk_m2),
                3 => tr!(mk_m3),
                _ => tr!(mk_m4),
            }
        }
    }
    // scalar multiples from either side, difference in place: exact per entry
    let k = d.f64_slog(1e-3, 1e3);
    macro_rules! forms {
        ($mk:ident) => {{
            let (a, b) = ($mk(&ta), $mk(&tb));
            let same = |x: RM<f64>, y: RM<f64>| (0..n).all(|c| (0..n).all(|r| x.e[c][r].to_bits() == y.e[c][r].to_bits() || (x.e[c][r].is_nan() && y.e[c][r].is_nan())));
            ensure!(same((k * a).rm(), ta.map(|x| k * x)) && same((k * &a).rm(), ta.map(|x| k * x)), "scalar-left-mul-f64", "k * A is not k * a_ij");
            ensure!(same((k / a).rm(), ta.map(|x| k / x)), "scalar-left-div-f64", "k / A is not k / a_ij");
            ensure!(same((k % a).rm(), ta.map(|x| k % x)), "scalar-left-rem-f64", "k % A is not k % a_ij");
            ensure!(same((a * k).rm(), ta.map(|x| x * k)) && same((a / k).rm(), ta.map(|x| x / k)) && same((a % k).rm(), ta.map(|x| x % k)), "scalar-right-f64", "A op k is not a_ij op k");
            let mut m = a;
            m -= b;
            ensure!(same(m.rm(), ta.sub(&tb)) && same((a - b).rm(), ta.sub(&tb)), "sub-f64", "A - B / A -= B is not element-wise in f64");
            let mut m = a;
            m += b;
            ensure!(same(m.rm(), ta.add(&tb)), "add_assign-f64", "A += B is not element-wise in f64");
            ensure!(same((-a).rm(), ta.map(|x| -x)), "neg-f64", "-A is not element-wise in f64");
        }};
    }
    match n {
        2 => forms!(mk_m2),
        3 => forms!(mk_m3),
        _ => forms!(mk_m4),
    }
    pass(["generic", "near-identity", "wide-magnitudes", "sparse", "diagonal"][class as usize], true)
}

const RULE: &str = "every entry of every operand non-zero and no operand symmetric (A != A^T)";
const RULE_G: &str = "all generated scalars non-zero, scale factors pairwise distinct";

macro_rules! sc {
    ($name:expr, $scalar:expr, $f:expr, $q:expr, $t:expr, $len:expr, $req:expr, $rule:expr) => {
        SubCheck { name: $name, scalar: $scalar, quick: $q, thorough: $t, len: $len, f: $f, required: $req, rule: $rule, exhaustive: false }
    };
}

pub fn property() -> Property {
    let mut s = Vec::new();
    const REQ: &[(&str, u32)] = &[("dense-asymmetric", 100)];
    macro_rules! dim {
        ($m:ident, $tag:expr) => {
            s.push(sc!(concat!("layout-", $tag, "-Q"), "Q", $m::layout::<Q>, 3000, 200_000, 64, REQ, RULE));
            s.push(sc!(concat!("layout-", $tag, "-Fp"), "Fp", $m::layout::<Fp>, 3000, 200_000, 64, &[], RULE));
            s.push(sc!(concat!("mul_vec-", $tag, "-Q"), "Q", $m::mul_vec::<Q>, 3000, 200_000, 112, REQ, RULE));
            s.push(sc!(concat!("mul_vec-", $tag, "-Fp"), "Fp", $m::mul_vec::<Fp>, 3000, 200_000, 112, &[], RULE));
            s.push(sc!(concat!("mul_mat-", $tag, "-Q"), "Q", $m::mul_mat::<Q>, 3000, 200_000, 128, REQ, RULE));
            s.push(sc!(concat!("mul_mat-", $tag, "-Fp"), "Fp", $m::mul_mat::<Fp>, 3000, 200_000, 128, &[], RULE));
            s.push(sc!(concat!("ring-", $tag, "-Q"), "Q", $m::ring::<Q>, 2000, 100_000, 288, &[], RULE));
            s.push(sc!(concat!("ring-", $tag, "-Fp"), "Fp", $m::ring::<Fp>, 2000, 100_000, 288, &[], RULE));
            s.push(sc!(concat!("diag_ctors-", $tag, "-Q"), "Q", $m::diag_ctors::<Q>, 1000, 50_000, 32, &[], "diagonal entries non-zero and pairwise distinct"));
        };
    }
    dim!(d2, "2");
    dim!(d3, "3");
    dim!(d4, "4");
    s.push(sc!("embeddings-Q", "Q", embeddings::<Q>, 2000, 100_000, 64, REQ, RULE));
    s.push(sc!("embeddings-Fp", "Fp", embeddings::<Fp>, 2000, 100_000, 64, &[], RULE));
    s.push(sc!("affine_ctors-Q", "Q", affine_ctors::<Q>, 2000, 100_000, 288, &[("generic", 100)], RULE_G));
    s.push(sc!("affine_ctors-Fp", "Fp", affine_ctors::<Fp>, 2000, 100_000, 288, &[], RULE_G));
    s.push(sc!("products-f64", "f64", products_f64, 6000, 400_000, 200,
        &[("generic", 100), ("near-identity", 100), ("wide-magnitudes", 100), ("sparse", 100), ("diagonal", 100)], "every generated pair; regimes generic / near-identity / wide magnitudes / sparse / diagonal and aliased operands"));
    Property {
        id: "C01",
        title: "Matrix products follow the documented column-major, column-vector convention",
        subchecks: s,
        assumptions: &[
            "scalar tiers Q (exact rationals, overflow => discard) and Fp (p=2^61-1) stand in for 'a field'; the cgmath code is the same generic source that runs for f32/f64",
            "polynomial identities are decided per case with error probability <= degree/p in Fp (Schwartz-Zippel) and exactly in Q",
            "scalar division only by non-zero scalars",
        ],
        fuzz: false,
    }
}
