//! C03 — vectors as an inner-product space; cross and perp-dot (Q, Fp, i64, i32).

use vcore::engine::*;
use vcore::gen::Sc;
use vcore::q::{Fp, Q};
use vcore::{ensure, ensure_eq};
use cgmath::prelude::*;
use cgmath::{BaseNum, Vector1, Vector2, Vector3, Vector4};
use std::ops::Neg;

/// scalar tiers for the vector laws (fields and overflow-free integers)
pub trait Sn: BaseNum + num_traits::NumCast + Neg<Output = Self> + Send + Sync + 'static {
    const HAS_REM: bool;
    /// a value whose square does not fit the type (integers only)
    fn big() -> Option<Self> {
        None
    }
    fn g(d: &mut Draw) -> Self;
    fn g_nz(d: &mut Draw) -> Self;
    fn i(n: i64) -> Self;
}
impl Sn for Q {
    const HAS_REM: bool = true;
    fn g(d: &mut Draw) -> Q {
        <Q as Sc>::gen(d)
    }
    fn g_nz(d: &mut Draw) -> Q {
        <Q as Sc>::gen_nz(d)
    }
    fn i(n: i64) -> Q {
        Q::int(n)
    }
}
impl Sn for Fp {
    const HAS_REM: bool = false;
    fn g(d: &mut Draw) -> Fp {
        <Fp as Sc>::gen(d)
    }
    fn g_nz(d: &mut Draw) -> Fp {
        <Fp as Sc>::gen_nz(d)
    }
    fn i(n: i64) -> Fp {
        Fp::int(n)
    }
}
impl Sn for i64 {
    const HAS_REM: bool = true;
    fn big() -> Option<i64> {
        Some(1 << 33)
    }
    fn g(d: &mut Draw) -> i64 {
        if d.chance(1, 24) {
            d.int(-1, 1)
        } else {
            d.nz_int(-1024, 1024)
        }
    }
    fn g_nz(d: &mut Draw) -> i64 {
        d.nz_int(-1024, 1024)
    }
    fn i(n: i64) -> i64 {
        n
    }
}
impl Sn for i32 {
    const HAS_REM: bool = true;
    fn big() -> Option<i32> {
        Some(1 << 17)
    }
    fn g(d: &mut Draw) -> i32 {
        if d.chance(1, 24) {
            d.int(-1, 1) as i32
        } else {
            d.nz_int(-40, 40) as i32
        }
    }
    fn g_nz(d: &mut Draw) -> i32 {
        d.nz_int(-40, 40) as i32
    }
    fn i(n: i64) -> i32 {
        n as i32
    }
}

fn generic<S: Sn>(vs: &[&[S]]) -> bool {
    // all components non-zero and pairwise distinct in absolute value within each vector
    for v in vs {
        for (i, a) in v.iter().enumerate() {
            if *a == S::zero() {
                return false;
            }
            for b in &v[..i] {
                if *a == *b || *a == -*b {
                    return false;
                }
            }
        }
    }
    true
}

macro_rules! dim_checks {
    ($modname:ident, $n:expr, $V:ident, [$($f:ident),+]) => {
        pub mod $modname {
            use super::*;
            fn arr<S: Copy>(v: $V<S>) -> Vec<S> { vec![$(v.$f),+] }
            fn mk<S: Copy>(a: &[S]) -> $V<S> { let mut i = 0; $V { $($f: { i += 1; a[i - 1] }),+ } }
            fn gv<S: Sn>(d: &mut Draw) -> Vec<S> { (0..$n).map(|_| S::g(d)).collect() }
            fn gv_nz<S: Sn>(d: &mut Draw) -> Vec<S> { (0..$n).map(|_| S::g_nz(d)).collect() }
            fn cmp<S: Sn>(a: &[S], b: &[S], f: impl Fn(S, S) -> S) -> Vec<S> { (0..a.len()).map(|i| f(a[i], b[i])).collect() }
            fn cms<S: Sn>(a: &[S], s: S, f: impl Fn(S, S) -> S) -> Vec<S> { a.iter().map(|x| f(*x, s)).collect() }

            /// every arithmetic operator and every ElementWise method, value and assign forms
            pub fn ops<S: Sn>(d: &mut Draw) -> Outcome {
                let (u, v) = (gv::<S>(d), gv_nz::<S>(d));
                let (a, k) = (S::g(d), S::g_nz(d));
                d.note("u", &u);
                d.note("v(non-zero)", &v);
                d.note("scalars a, k(non-zero)", &(a, k));
                let (cu, cv) = (mk(&u), mk(&v));
                ensure_eq!(arr(cu + cv), cmp(&u, &v, |x, y| x + y), "add", "u + v");
                ensure_eq!(arr(cu - cv), cmp(&u, &v, |x, y| x - y), "sub", "u - v");
                ensure_eq!(arr(-cu), cms(&u, a, |x, _| -x), "neg", "-u");
                ensure_eq!(arr(cu * a), cms(&u, a, |x, s| x * s), "mul-scalar", "u * a");
                ensure_eq!(arr(cu / k), cms(&u, k, |x, s| x / s), "div-scalar", "u / k");
                let mut t = cu; t += cv;
                ensure_eq!(arr(t), cmp(&u, &v, |x, y| x + y), "add_assign", "u += v");
                let mut t = cu; t -= cv;
                ensure_eq!(arr(t), cmp(&u, &v, |x, y| x - y), "sub_assign", "u -= v");
                let mut t = cu; t *= a;
                ensure_eq!(arr(t), cms(&u, a, |x, s| x * s), "mul_assign", "u *= a");
                let mut t = cu; t /= k;
                ensure_eq!(arr(t), cms(&u, k, |x, s| x / s), "div_assign", "u /= k");
                // operands by reference
                ensure_eq!(arr(&cu + &cv), cmp(&u, &v, |x, y| x + y), "add-ref-ref", "&u + &v");
                ensure_eq!(arr(cu + &cv), cmp(&u, &v, |x, y| x + y), "add-val-ref", "u + &v");
                ensure_eq!(arr(&cu + cv), cmp(&u, &v, |x, y| x + y), "add-ref-val", "&u + v");
                ensure_eq!(arr(&cu - &cv), cmp(&u, &v, |x, y| x - y), "sub-ref-ref", "&u - &v");
                ensure_eq!(arr(cu - &cv), cmp(&u, &v, |x, y| x - y), "sub-val-ref", "u - &v");
                ensure_eq!(arr(&cu - cv), cmp(&u, &v, |x, y| x - y), "sub-ref-val", "&u - v");
                ensure_eq!(arr(&cu * a), cms(&u, a, |x, s| x * s), "mul-scalar-ref", "&u * a");
                ensure_eq!(arr(&cu / k), cms(&u, k, |x, s| x / s), "div-scalar-ref", "&u / k");
                // iterator folds
                let list = [cu, cv, cu];
                let want3: Vec<S> = (0..$n).map(|i| (S::zero() + u[i]) + v[i] + u[i]).collect();
                ensure_eq!(arr(list.iter().sum::<$V<S>>()), want3, "sum-refs", "Sum over &vectors");
                ensure_eq!(arr(list.iter().cloned().sum::<$V<S>>()), want3, "sum-values", "Sum over vectors");
                ensure_eq!(list[1..2].iter().sum::<$V<S>>(), cv, "sum-single", "Sum of one vector");
                ensure_eq!(arr(list.iter().filter(|_| true).sum::<$V<S>>()), want3, "sum-unsized-refs", "Sum over a filtered iterator of &vectors");
                ensure_eq!(arr(list.iter().cloned().filter(|_| true).sum::<$V<S>>()), want3, "sum-unsized-values", "Sum over a filtered iterator of vectors");
                ensure_eq!(list[..0].iter().sum::<$V<S>>(), $V::<S>::zero(), "sum-empty", "empty Sum is zero()");
                if d.chance(1, 12) {
                    // a long list (beyond any plausible block size): n copies of u interleaved with m copies of v
                    let len = if d.chance(1, 3) { d.int(1000, 2600) } else { d.int(100, 300) } as usize;
                    let long: Vec<$V<S>> = (0..len).map(|j| if j % 3 == 1 { cv } else { cu }).collect();
                    let nv = (0..len).filter(|j| j % 3 == 1).count() as i64;
                    let nu = len as i64 - nv;
                    let want: Vec<S> = (0..$n).map(|i| S::i(nu) * u[i] + S::i(nv) * v[i]).collect();
                    ensure_eq!(arr(long.iter().sum::<$V<S>>()), want, "sum-refs-long", "Sum over a long list of &vectors");
                    ensure_eq!(arr(long.iter().cloned().sum::<$V<S>>()), want, "sum-values-long", "Sum over a long list of vectors");
                }
                // ElementWise with a vector right-hand side
                ensure_eq!(arr(cu.add_element_wise(cv)), cmp(&u, &v, |x, y| x + y), "add_element_wise", "add_element_wise(v)");
                ensure_eq!(arr(cu.sub_element_wise(cv)), cmp(&u, &v, |x, y| x - y), "sub_element_wise", "sub_element_wise(v)");
                ensure_eq!(arr(cu.mul_element_wise(cv)), cmp(&u, &v, |x, y| x * y), "mul_element_wise", "mul_element_wise(v)");
                ensure_eq!(arr(cu.div_element_wise(cv)), cmp(&u, &v, |x, y| x / y), "div_element_wise", "div_element_wise(v)");
                let mut t = cu; t.add_assign_element_wise(cv);
                ensure_eq!(arr(t), cmp(&u, &v, |x, y| x + y), "add_assign_element_wise", "add_assign_element_wise(v)");
                let mut t = cu; t.sub_assign_element_wise(cv);
                ensure_eq!(arr(t), cmp(&u, &v, |x, y| x - y), "sub_assign_element_wise", "sub_assign_element_wise(v)");
                let mut t = cu; t.mul_assign_element_wise(cv);
                ensure_eq!(arr(t), cmp(&u, &v, |x, y| x * y), "mul_assign_element_wise", "mul_assign_element_wise(v)");
                let mut t = cu; t.div_assign_element_wise(cv);
                ensure_eq!(arr(t), cmp(&u, &v, |x, y| x / y), "div_assign_element_wise", "div_assign_element_wise(v)");
                // ElementWise with a scalar right-hand side
                ensure_eq!(arr(cu.add_element_wise(a)), cms(&u, a, |x, s| x + s), "add_element_wise-scalar", "add_element_wise(a)");
                ensure_eq!(arr(cu.sub_element_wise(a)), cms(&u, a, |x, s| x - s), "sub_element_wise-scalar", "sub_element_wise(a)");
                ensure_eq!(arr(cu.mul_element_wise(a)), cms(&u, a, |x, s| x * s), "mul_element_wise-scalar", "mul_element_wise(a)");
                ensure_eq!(arr(cu.div_element_wise(k)), cms(&u, k, |x, s| x / s), "div_element_wise-scalar", "div_element_wise(k)");
                let mut t = cu; t.add_assign_element_wise(a);
                ensure_eq!(arr(t), cms(&u, a, |x, s| x + s), "add_assign_element_wise-scalar", "add_assign_element_wise(a)");
                let mut t = cu; t.sub_assign_element_wise(a);
                ensure_eq!(arr(t), cms(&u, a, |x, s| x - s), "sub_assign_element_wise-scalar", "sub_assign_element_wise(a)");
                let mut t = cu; t.mul_assign_element_wise(a);
                ensure_eq!(arr(t), cms(&u, a, |x, s| x * s), "mul_assign_element_wise-scalar", "mul_assign_element_wise(a)");
                let mut t = cu; t.div_assign_element_wise(k);
                ensure_eq!(arr(t), cms(&u, k, |x, s| x / s), "div_assign_element_wise-scalar", "div_assign_element_wise(k)");
                if S::HAS_REM {
                    ensure_eq!(arr(cu % k), cms(&u, k, |x, s| x % s), "rem-scalar", "u % k");
                    ensure_eq!(arr(&cu % k), cms(&u, k, |x, s| x % s), "rem-scalar-ref", "&u % k");
                    let mut t = cu; t %= k;
                    ensure_eq!(arr(t), cms(&u, k, |x, s| x % s), "rem_assign", "u %= k");
                    ensure_eq!(arr(cu.rem_element_wise(cv)), cmp(&u, &v, |x, y| x % y), "rem_element_wise", "rem_element_wise(v)");
                    ensure_eq!(arr(cu.rem_element_wise(k)), cms(&u, k, |x, s| x % s), "rem_element_wise-scalar", "rem_element_wise(k)");
                    let mut t = cu; t.rem_assign_element_wise(cv);
                    ensure_eq!(arr(t), cmp(&u, &v, |x, y| x % y), "rem_assign_element_wise", "rem_assign_element_wise(v)");
                    let mut t = cu; t.rem_assign_element_wise(k);
                    ensure_eq!(arr(t), cms(&u, k, |x, s| x % s), "rem_assign_element_wise-scalar", "rem_assign_element_wise(k)");
                }
                let nt = generic(&[&u, &v]) && a != S::zero() && a != S::one() && k != S::one();
                pass(if nt { "generic" } else { "degenerate" }, nt)
            }

            /// zero, dot, magnitude2, folds, constructors
            pub fn inner<S: Sn>(d: &mut Draw) -> Outcome {
                let (u, v, w) = (gv::<S>(d), gv::<S>(d), gv::<S>(d));
                let (a, b) = (S::g(d), S::g(d));
                d.note("u", &u);
                d.note("v", &v);
                d.note("w", &w);
                d.note("a,b", &(a, b));
                let (cu, cv, cw) = (mk(&u), mk(&v), mk(&w));
                let z = $V::<S>::zero();
                ensure_eq!(arr(z), vec![S::zero(); $n], "zero", "zero() components");
                ensure_eq!(cu + z, cu, "zero-identity", "u + zero()");
                ensure_eq!(z + cu, cu, "zero-identity-left", "zero() + u");
                ensure!(z.is_zero(), "is_zero-of-zero", "zero().is_zero() is false");
                ensure_eq!(cu.is_zero(), u.iter().all(|x| *x == S::zero()), "is_zero", "is_zero()");
                // the in-place spelling of zero() (a provided method of the Zero trait, which an impl may override)
                for src in [cu, cv, z] {
                    let mut t = src;
                    num_traits::Zero::set_zero(&mut t);
                    ensure_eq!(arr(t), vec![S::zero(); $n], "set_zero", "set_zero() leaves components behind");
                    ensure!(t.is_zero() && t == z && t + cw == cw, "set_zero", "after set_zero() the vector is not the additive identity");
                }
                // zero except for one component, at every position (and with a magnitude whose square leaves the type)
                let k = d.below($n);
                for val in [Some(S::g_nz(d)), S::big()].iter().flatten() {
                    let mut e = vec![S::zero(); $n];
                    e[k] = *val;
                    ensure!(!mk(&e).is_zero(), "is_zero-single-component", "is_zero() is true for a vector whose component {} is {:?}", k, val);
                    ensure_eq!(mk(&e) + z, mk(&e), "zero-identity-single", "e + zero()");
                }
                ensure_eq!(arr($V::from_value(a)), vec![a; $n], "from_value", "from_value(a)");
                let mut want = S::zero();
                for i in 0..$n { want = want + u[i] * v[i]; }
                ensure_eq!(cu.dot(cv), want, "dot", "dot(u,v) vs sum of products");
                ensure_eq!(cgmath::dot(cu, cv), want, "dot-free-fn", "cgmath::dot(u,v)");
                ensure_eq!(cu.dot(cv), cv.dot(cu), "dot-symmetric", "dot(u,v) = dot(v,u)");
                ensure_eq!((cu * a + cv * b).dot(cw), a * cu.dot(cw) + b * cv.dot(cw), "dot-bilinear", "dot(au+bv,w)");
                ensure_eq!(cw.dot(cu * a + cv * b), a * cw.dot(cu) + b * cw.dot(cv), "dot-bilinear-right", "dot(w,au+bv)");
                ensure_eq!(cu.magnitude2(), cu.dot(cu), "magnitude2", "magnitude2(u) = dot(u,u)");
                let mut s = S::zero();
                let mut p = S::one();
                for i in 0..$n { s = s + u[i]; p = p * u[i]; }
                ensure_eq!(cu.sum(), s, "sum", "sum() of components");
                ensure_eq!(cu.product(), p, "product", "product() of components");
                ensure_eq!($V::<S>::len(), $n, "len", "len()");
                let nt = generic(&[&u, &v, &w]) && a != S::zero() && b != S::zero() && a != b;
                pass(if nt { "generic" } else { "degenerate" }, nt)
            }
        }
    };
}

dim_checks!(d1, 1, Vector1, [x]);
dim_checks!(d2, 2, Vector2, [x, y]);
dim_checks!(d3, 3, Vector3, [x, y, z]);
dim_checks!(d4, 4, Vector4, [x, y, z, w]);

fn g3<S: Sn>(d: &mut Draw) -> Vector3<S> {
    Vector3::new(S::g(d), S::g(d), S::g(d))
}

fn cross<S: Sn>(d: &mut Draw) -> Outcome {
    let (u, v, w) = (g3::<S>(d), g3::<S>(d), g3::<S>(d));
    d.note("u", &u);
    d.note("v", &v);
    d.note("w", &w);
    let c = u.cross(v);
    let want = Vector3::new(u.y * v.z - u.z * v.y, u.z * v.x - u.x * v.z, u.x * v.y - u.y * v.x);
    ensure_eq!(c, want, "cross-components", "cross(u,v) vs component formula");
    ensure_eq!(c, -(v.cross(u)), "cross-antisymmetric", "u x v = -(v x u)");
    ensure_eq!(u.dot(c), S::zero(), "cross-orthogonal-u", "u . (u x v)");
    ensure_eq!(v.dot(c), S::zero(), "cross-orthogonal-v", "v . (u x v)");
    ensure_eq!(c.magnitude2(), u.magnitude2() * v.magnitude2() - u.dot(v) * u.dot(v), "lagrange", "|u x v|^2 = |u|^2|v|^2 - (u.v)^2");
    ensure_eq!(u.cross(v.cross(w)), v * u.dot(w) - w * u.dot(v), "triple-product", "u x (v x w) = v(u.w) - w(u.v)");
    let nt = generic::<S>(&[&[u.x, u.y, u.z], &[v.x, v.y, v.z], &[w.x, w.y, w.z]]);
    pass(if nt { "generic" } else { "degenerate" }, nt)
}

fn perp_dot_units<S: Sn>(d: &mut Draw) -> Outcome {
    let u = Vector2::new(S::g(d), S::g(d));
    let v = Vector2::new(S::g(d), S::g(d));
    d.note("u", &u);
    d.note("v", &v);
    ensure_eq!(u.perp_dot(v), u.x * v.y - u.y * v.x, "perp_dot", "perp_dot(u,v)");
    ensure_eq!(u.perp_dot(v), -v.perp_dot(u), "perp_dot-antisymmetric", "perp_dot(u,v) = -perp_dot(v,u)");
    let (o, z) = (S::one(), S::zero());
    ensure_eq!(Vector1::<S>::unit_x(), Vector1::new(o), "unit-1x", "Vector1::unit_x");
    ensure_eq!(Vector2::<S>::unit_x(), Vector2::new(o, z), "unit-2x", "Vector2::unit_x");
    ensure_eq!(Vector2::<S>::unit_y(), Vector2::new(z, o), "unit-2y", "Vector2::unit_y");
    ensure_eq!(Vector3::<S>::unit_x(), Vector3::new(o, z, z), "unit-3x", "Vector3::unit_x");
    ensure_eq!(Vector3::<S>::unit_y(), Vector3::new(z, o, z), "unit-3y", "Vector3::unit_y");
    ensure_eq!(Vector3::<S>::unit_z(), Vector3::new(z, z, o), "unit-3z", "Vector3::unit_z");
    ensure_eq!(Vector4::<S>::unit_x(), Vector4::new(o, z, z, z), "unit-4x", "Vector4::unit_x");
    ensure_eq!(Vector4::<S>::unit_y(), Vector4::new(z, o, z, z), "unit-4y", "Vector4::unit_y");
    ensure_eq!(Vector4::<S>::unit_z(), Vector4::new(z, z, o, z), "unit-4z", "Vector4::unit_z");
    ensure_eq!(Vector4::<S>::unit_w(), Vector4::new(z, z, z, o), "unit-4w", "Vector4::unit_w");
    let nt = generic::<S>(&[&[u.x, u.y], &[v.x, v.y]]);
    pass(if nt { "generic" } else { "degenerate" }, nt)
}


/// f64: dot / cross / perp_dot / magnitude2 / sum / product against the reference with a
/// rounding-only tolerance, on regimes the exact tiers cannot represent (signed zeros, wide
/// magnitudes, nearly cancelling terms, aliased operands)

/// integers over their whole range: wherever the statement's own formula (evaluated left to right with the primitive
/// operators of this build) has a value, the library must return that value and not panic
macro_rules! int_products {
    ($fname:ident, $S:ty) => {
        fn $fname(d: &mut Draw) -> Outcome {
            let w = |d: &mut Draw| -> $S {
                match d.int(0, 4) {
                    0 => d.bits64() as $S,
                    1 => d.pick(&[<$S>::MAX, <$S>::MIN, <$S>::MAX - 1, 0, 1, 2]),
                    2 => ((<$S>::MAX as f64).sqrt() as i64 + d.int(-3, 3)) as $S,
                    _ => d.int(0, 20) as $S,
                }
            };
            let a: [$S; 4] = [w(d), w(d), w(d), w(d)];
            let b: [$S; 4] = [w(d), w(d), w(d), w(d)];
            d.note("a", &a);
            d.note("b", &b);
            let mut defined = 0;
            macro_rules! agree {
                ($prim:expr, $lib:expr, $sig:expr, $what:expr) => {{
                    if let Ok(want) = catches(move || $prim) {
                        defined += 1;
                        match catches(|| $lib) {
                            Ok(got) => ensure!(got == want, $sig, "{}: {:?}, the formula gives {:?}", $what, got, want),
                            Err(m) => return Outcome::Fail { sig: $sig, msg: format!("{} panicked ({}) although the formula has the value {:?}", $what, m, want) },
                        }
                    }
                }};
            }
            let (a2, b2) = (Vector2::new(a[0], a[1]), Vector2::new(b[0], b[1]));
            let (a3, b3) = (Vector3::new(a[0], a[1], a[2]), Vector3::new(b[0], b[1], b[2]));
            let (a4, b4) = (Vector4::new(a[0], a[1], a[2], a[3]), Vector4::new(b[0], b[1], b[2], b[3]));
            agree!(a[0] * b[1] - a[1] * b[0], a2.perp_dot(b2), "int-perp_dot", "Vector2::perp_dot");
            agree!(a[0] * b[0], Vector1::new(a[0]).dot(Vector1::new(b[0])), "int-dot", "Vector1::dot");
            agree!([a[1] * b[2] - a[2] * b[1], a[2] * b[0] - a[0] * b[2], a[0] * b[1] - a[1] * b[0]], { let c = a3.cross(b3); [c.x, c.y, c.z] }, "int-cross", "Vector3::cross");
            // sums of more than two terms: the order of the additions is the library's business, so the formula counts as
            // having a value only when it has one in *every* order (each product fits and the sum of their magnitudes fits)
            let fits = |terms: &[i128]| terms.iter().all(|t| *t >= <$S>::MIN as i128 && *t <= <$S>::MAX as i128) && terms.iter().fold(0i128, |acc, t| acc.saturating_add(t.saturating_abs())) <= <$S>::MAX as i128;
            macro_rules! agree_sum {
                ($terms:expr, $lib:expr, $sig:expr, $what:expr) => {{
                    let terms: Vec<i128> = $terms;
                    if fits(&terms) {
                        defined += 1;
                        let want = terms.iter().sum::<i128>() as $S;
                        match catches(|| $lib) {
                            Ok(got) => ensure!(got == want, $sig, "{}: {:?}, the formula gives {:?}", $what, got, want),
                            Err(m) => return Outcome::Fail { sig: $sig, msg: format!("{} panicked ({}) although the formula has the value {:?} in every order of evaluation", $what, m, want) },
                        }
                    }
                }};
            }
            let p = |i: usize| (a[i] as i128).checked_mul(b[i] as i128).unwrap_or(i128::MAX);
            let q = |i: usize| (a[i] as i128).checked_mul(a[i] as i128).unwrap_or(i128::MAX);
            agree_sum!(vec![p(0), p(1)], a2.dot(b2), "int-dot", "Vector2::dot");
            agree_sum!(vec![p(0), p(1), p(2)], a3.dot(b3), "int-dot", "Vector3::dot");
            agree_sum!(vec![p(0), p(1), p(2), p(3)], a4.dot(b4), "int-dot", "Vector4::dot");
            agree_sum!(vec![q(0), q(1)], a2.magnitude2(), "int-magnitude2", "Vector2::magnitude2");
            agree_sum!(vec![q(0), q(1), q(2)], a3.magnitude2(), "int-magnitude2", "Vector3::magnitude2");
            agree_sum!(vec![a[0] as i128, a[1] as i128, a[2] as i128, a[3] as i128], a4.sum(), "int-sum", "Vector4::sum");
            {
                // product(): defined in every order when the product of the non-zero magnitudes fits
                let nz: i128 = a[..3].iter().filter(|x| **x != 0).fold(1i128, |acc, x| acc.saturating_mul((*x as i128).abs()));
                if nz <= <$S>::MAX as i128 {
                    defined += 1;
                    let want = (a[0] as i128 * a[1] as i128 * a[2] as i128) as $S;
                    match catches(|| a3.product()) {
                        Ok(got) => ensure!(got == want, "int-product", "Vector3::product: {:?}, the formula gives {:?}", got, want),
                        Err(m) => return Outcome::Fail { sig: "int-product", msg: format!("Vector3::product panicked ({}) although the product has the value {:?} in every order of evaluation", m, want) },
                    }
                }
            }
            agree!(a.iter().all(|x| *x == 0), a4.is_zero(), "int-is_zero", "Vector4::is_zero");
            agree!([a[0] - b[0], a[1] - b[1]], { let c = a2 - b2; [c.x, c.y] }, "int-sub", "Vector2 - Vector2");
            pass(if defined == 12 { "all-defined" } else if defined <= 3 { "mostly-overflowing" } else { "mixed" }, defined >= 4)
        }
    };
}
int_products!(int_products_u8, u8);
int_products!(int_products_u32, u32);
int_products!(int_products_u64, u64);
int_products!(int_products_i8, i8);
int_products!(int_products_i32, i32);
int_products!(int_products_i64, i64);

fn products_f64(d: &mut Draw) -> Outcome {
    let class = d.int(0, 3);
    let comp = |d: &mut Draw| -> f64 {
        match class {
            0 => d.f64_slog(1e-3, 1e3),
            1 => d.f64_slog(1e-150, 1e150),
            2 => {
                if d.chance(1, 3) {
                    if d.bool() { 0.0 } else { -0.0 }
                } else {
                    d.f64_slog(1e-3, 1e3)
                }
            }
            _ => (d.int(-4, 4) as f64) * 0.5,
        }
    };
    let u: Vec<f64> = (0..4).map(|_| comp(d)).collect();
    let v: Vec<f64> = if d.chance(1, 6) { u.clone() } else { (0..4).map(|_| comp(d)).collect() };
    d.note("u", &u);
    d.note("v", &v);
    // zeros of either sign with, now and then, one component far below the square root of the smallest float
    let mut tiny: Vec<f64> = (0..4).map(|_| if d.bool() { 0.0 } else { -0.0 }).collect();
    if d.chance(3, 4) {
        tiny[d.below(4)] = d.f64_slog(1e-320, 1e-160);
    }
    d.note("tiny", &tiny);
    let e = f64::EPSILON;
    macro_rules! dim {
        ($V:ident, $n:expr, [$($f:ident),+]) => {{
            let mut i = 0;
            let cu = $V { $($f: { i += 1; u[i - 1] }),+ };
            let mut i = 0;
            let cv = $V { $($f: { i += 1; v[i - 1] }),+ };
            let want: f64 = (0..$n).map(|k| u[k] * v[k]).sum();
            let scale: f64 = (0..$n).map(|k| (u[k] * v[k]).abs()).sum();
            let got = cu.dot(cv);
            ensure!((got - want).abs() <= 8.0 * e * scale + 1e-300 || got == want, "dot-f64", "{}::dot = {:e}, reference {:e}", stringify!($V), got, want);
            ensure!(cu.dot(cv) == cv.dot(cu), "dot-symmetric-f64", "{}::dot is not symmetric in f64", stringify!($V));
            ensure!(cu.magnitude2() == cu.dot(cu), "magnitude2-f64", "{}::magnitude2 != dot(u,u)", stringify!($V));
            // is_zero: exactly when every component is a zero, however small the others are
            ensure!(cu.is_zero() == (0..$n).all(|k| u[k] == 0.0), "is_zero-f64", "{}::is_zero() = {} for {:?}", stringify!($V), cu.is_zero(), &u[..$n]);
            let mut i = 0;
            let ct = $V { $($f: { i += 1; tiny[i - 1] }),+ };
            ensure!(ct.is_zero() == (0..$n).all(|k| tiny[k] == 0.0), "is_zero-tiny-f64", "{}::is_zero() = {} for {:?}", stringify!($V), ct.is_zero(), &tiny[..$n]);
            let s: f64 = (0..$n).map(|k| u[k]).sum();
            let sa: f64 = (0..$n).map(|k| u[k].abs()).sum();
            ensure!((cu.sum() - s).abs() <= 8.0 * e * sa + 1e-300, "sum-f64", "{}::sum = {:e}, reference {:e}", stringify!($V), cu.sum(), s);
            // the order of the fold is not specified: skip the regime where partial products over/underflow
            if class != 1 {
                let p: f64 = (0..$n).map(|k| u[k]).product();
                ensure!((cu.product() - p).abs() <= 8.0 * e * p.abs() + 1e-300 || cu.product() == p, "product-f64", "{}::product = {:e}, reference {:e}", stringify!($V), cu.product(), p);
            }
        }};
    }
    dim!(Vector1, 1, [x]);
    dim!(Vector2, 2, [x, y]);
    dim!(Vector3, 3, [x, y, z]);
    dim!(Vector4, 4, [x, y, z, w]);
    let (a3, b3) = (Vector3::new(u[0], u[1], u[2]), Vector3::new(v[0], v[1], v[2]));
    let c = a3.cross(b3);
    let want = [u[1] * v[2] - u[2] * v[1], u[2] * v[0] - u[0] * v[2], u[0] * v[1] - u[1] * v[0]];
    let sc = [(u[1] * v[2]).abs() + (u[2] * v[1]).abs(), (u[2] * v[0]).abs() + (u[0] * v[2]).abs(), (u[0] * v[1]).abs() + (u[1] * v[0]).abs()];
    for (k, got) in [c.x, c.y, c.z].iter().enumerate() {
        ensure!((got - want[k]).abs() <= 4.0 * e * sc[k] + 1e-300, "cross-f64", "component {} of cross is {:e}, reference {:e}", k, got, want[k]);
    }
    let pd = Vector2::new(u[0], u[1]).perp_dot(Vector2::new(v[0], v[1]));
    ensure!((pd - want[2]).abs() <= 4.0 * e * sc[2] + 1e-300, "perp_dot-f64", "perp_dot is {:e}, reference {:e}", pd, want[2]);
    pass(["generic", "wide-magnitudes", "signed-zeros", "small-dyadic"][class as usize], true)
}

const RULE: &str = "all components non-zero and pairwise distinct in absolute value within each vector; scalars not 0/1";

pub fn property() -> Property {
    let mut s: Vec<SubCheck> = Vec::new();
    const REQ: &[(&str, u32)] = &[("generic", 60)];
    macro_rules! add {
        ($name:expr, $scalar:expr, $f:expr, $q:expr, $t:expr, $len:expr) => {
            s.push(SubCheck { name: $name, scalar: $scalar, quick: $q, thorough: $t, len: $len, f: $f, required: REQ, rule: RULE, exhaustive: false });
        };
    }
    macro_rules! dim {
        ($m:ident, $tag:expr) => {
            add!(concat!("ops-", $tag, "-Q"), "Q", $m::ops::<Q>, 3000, 200_000, 48);
            add!(concat!("ops-", $tag, "-Fp"), "Fp", $m::ops::<Fp>, 2000, 100_000, 48);
            add!(concat!("ops-", $tag, "-i64"), "i64", $m::ops::<i64>, 3000, 200_000, 48);
            add!(concat!("ops-", $tag, "-i32"), "i32", $m::ops::<i32>, 2000, 100_000, 48);
            add!(concat!("inner-", $tag, "-Q"), "Q", $m::inner::<Q>, 3000, 200_000, 64);
            add!(concat!("inner-", $tag, "-Fp"), "Fp", $m::inner::<Fp>, 2000, 100_000, 64);
            add!(concat!("inner-", $tag, "-i64"), "i64", $m::inner::<i64>, 3000, 200_000, 64);
            add!(concat!("inner-", $tag, "-i32"), "i32", $m::inner::<i32>, 2000, 100_000, 64);
        };
    }
    dim!(d1, "1");
    dim!(d2, "2");
    dim!(d3, "3");
    dim!(d4, "4");
    add!("cross-Q", "Q", cross::<Q>, 5000, 400_000, 40);
    add!("cross-Fp", "Fp", cross::<Fp>, 5000, 400_000, 40);
    add!("cross-i64", "i64", cross::<i64>, 5000, 400_000, 40);
    add!("cross-i32", "i32", cross::<i32>, 3000, 200_000, 40);
    add!("perp_dot_units-Q", "Q", perp_dot_units::<Q>, 3000, 200_000, 24);
    add!("perp_dot_units-Fp", "Fp", perp_dot_units::<Fp>, 3000, 200_000, 24);
    add!("perp_dot_units-i64", "i64", perp_dot_units::<i64>, 3000, 200_000, 24);
    s.push(SubCheck { name: "products-f64", scalar: "f64", quick: 6000, thorough: 400_000, len: 72, f: products_f64,
        required: &[("generic", 100), ("wide-magnitudes", 100), ("signed-zeros", 100), ("small-dyadic", 100)],
        rule: "every generated pair; regimes generic / wide magnitudes / signed zeros / small dyadic values, operands aliased now and then", exhaustive: false });
    for (name, scalar, f) in [
        ("int_products-u8", "u8", int_products_u8 as fn(&mut Draw) -> Outcome),
        ("int_products-u32", "u32", int_products_u32),
        ("int_products-u64", "u64", int_products_u64),
        ("int_products-i8", "i8", int_products_i8),
        ("int_products-i32", "i32", int_products_i32),
        ("int_products-i64", "i64", int_products_i64),
    ] {
        s.push(SubCheck { name, scalar, quick: 1500, thorough: 100_000, len: 40, f, required: &[("mixed", 200)],
            rule: "at least four of the twelve formulas have a value (no overflow) for the generated operands", exhaustive: false });
    }
    Property {
        id: "C03",
        title: "Vectors form an inner-product space; cross and perp-dot products are exact",
        subchecks: s,
        assumptions: &[
            "integer tiers: components constructed in +-1024 (i64) / +-40 (i32) so that no product of the degree used overflows; divisors and moduli non-zero",
            "int_products-*: operands over the whole integer range; a formula is compared only where it has a value - for perp_dot, cross and differences under the formula's own structure, for sums and products of three or more terms in every order of evaluation - in which case the library must return that value without panicking",
            "the remainder clauses are skipped in Fp (no remainder in a field)",
            "the per-component oracle uses the scalar's own primitive operator, which is what 'component by component' means",
        ],
        fuzz: false,
    }
}
