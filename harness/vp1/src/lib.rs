pub mod c01;
pub mod c02;
pub mod c03;
pub mod c04;
pub mod c05;
pub mod c06;
pub mod c07;
pub mod c08;
pub mod c09;
pub mod c10;
pub mod c12;

pub fn all() -> Vec<vcore::engine::Property> {
    vec![c01::property(), c02::property(), c03::property(), c04::property(), c05::property(), c06::property(), c07::property(), c08::property(), c09::property(), c10::property(), c12::property()]
}
