//! C02 — inverse, determinant, transpose, swaps (exact tiers Q and Fp).

use vcore::engine::*;
use vcore::gen::*;
use vcore::q::{Fp, Q};
use vcore::refs::*;
use vcore::{ensure, ensure_eq};
use cgmath::prelude::*;
use cgmath::{Matrix2, Matrix3, Matrix4, Point2, Point3, Transform, Vector2, Vector3, Vector4};

/// Matrix of one of the constructed classes. Returns (table, requested class).
fn gen_classed<S: Sc>(d: &mut Draw, n: usize) -> (RM<S>, &'static str) {
    let mut m = grm::<S>(d, n);
    let kind = d.int(0, 9);
    match kind {
        0..=3 => (m, "generic"),
        4 | 5 => {
            // rank n-1 by columns: column k := combination of the others
            let k = d.below(n);
            let coef: Vec<S> = (0..n).map(|_| S::gen(d)).collect();
            for r in 0..n {
                let mut s = S::zero();
                for c in 0..n {
                    if c != k {
                        s = s + m.e[c][r] * coef[c];
                    }
                }
                m.e[k][r] = s;
            }
            (m, "singular-column-combination")
        }
        6 => {
            // rank n-1 by rows
            let k = d.below(n);
            let coef: Vec<S> = (0..n).map(|_| S::gen(d)).collect();
            for c in 0..n {
                let mut s = S::zero();
                for r in 0..n {
                    if r != k {
                        s = s + m.e[c][r] * coef[r];
                    }
                }
                m.e[c][k] = s;
            }
            (m, "singular-row-combination")
        }
        7 => {
            // zero or duplicated columns (rank <= n-2 for n >= 3)
            let k = d.below(n);
            if d.bool() {
                for r in 0..n {
                    m.e[k][r] = S::zero();
                }
            }
            let j = (k + 1) % n;
            let lam = S::gen(d);
            for r in 0..n {
                m.e[j][r] = m.e[k][r] * lam;
            }
            if n >= 3 {
                let l = (k + 2) % n;
                let mu = S::gen(d);
                for r in 0..n {
                    m.e[l][r] = m.e[k][r] * mu;
                }
            }
            (m, "low-rank")
        }
        _ => {
            // singular, then 1/N added to one entry: tiny but (usually) non-zero determinant
            let k = d.below(n);
            let coef: Vec<S> = (0..n).map(|_| S::gen(d)).collect();
            for r in 0..n {
                let mut s = S::zero();
                for c in 0..n {
                    if c != k {
                        s = s + m.e[c][r] * coef[c];
                    }
                }
                m.e[k][r] = s;
            }
            let big = S::i(d.pick(&[1000i64, 1_000_000, 7919, 65536, 999_983]));
            let (c, r) = (d.below(n), d.below(n));
            m.e[c][r] = m.e[c][r] + S::one() / big;
            (m, "tiny-determinant")
        }
    }
}

fn all_first_minors_nonzero<S: Sc>(m: &RM<S>) -> bool {
    let n = m.n;
    if n == 1 {
        return true;
    }
    for sc in 0..n {
        for sr in 0..n {
            let mut sub = RM::<S>::zero(n - 1);
            let mut cc = 0;
            for c in 0..n {
                if c == sc {
                    continue;
                }
                let mut rr = 0;
                for r in 0..n {
                    if r == sr {
                        continue;
                    }
                    sub.e[cc][rr] = m.e[c][r];
                    rr += 1;
                }
                cc += 1;
            }
            if sub.det() == S::zero() {
                return false;
            }
        }
    }
    true
}

macro_rules! dim_checks {
    ($modname:ident, $n:expr, $M:ident, $V:ident, $mkm:ident, $mkv:ident, $va:ident) => {
        pub mod $modname {
            use super::*;

            pub fn determinant<S: Sc>(d: &mut Draw) -> Outcome {
                let n = $n;
                let (ta, cls) = gen_classed::<S>(d, n);
                let tb = grm::<S>(d, n);
                d.note("A", &ta);
                d.note("B", &tb);
                let (a, b) = ($mkm(&ta), $mkm(&tb));
                let da = ta.det();
                ensure_eq!(a.determinant(), da, "det-leibniz", "determinant() vs Leibniz expansion");
                ensure_eq!((a * b).determinant(), da * tb.det(), "det-multiplicative", "det(AB) = det A det B");
                ensure_eq!(a.transpose().determinant(), da, "det-transpose", "det(A^T) = det A");
                let nt = ta.all_nonzero() && tb.all_nonzero() && da != S::zero();
                pass(if da == S::zero() { "singular" } else if nt { "dense-regular" } else { cls }, nt)
            }

            pub fn invert<S: Sc>(d: &mut Draw) -> Outcome {
                let n = $n;
                let (t, cls) = gen_classed::<S>(d, n);
                d.note("M", &t);
                d.note("constructed-as", &cls);
                let m = $mkm(&t);
                let det = t.det();
                d.note("ref-det", &det);
                let inv = m.invert();
                let singular = det == S::zero();
                ensure!(inv.is_none() == singular, "invert-none-iff-singular",
                    "invert() is {} but the Leibniz determinant is {:?}", if inv.is_none() { "None" } else { "Some" }, det);
                ensure_eq!(m.is_invertible(), !singular, "is_invertible", "is_invertible() vs det != 0");
                if let Some(ni) = inv {
                    let i = RM::<S>::ident(n);
                    ensure_eq!((m * ni).rm(), i, "M*N=I", "M * invert(M)");
                    ensure_eq!((ni * m).rm(), i, "N*M=I", "invert(M) * M");
                }
                if singular {
                    return pass(if cls == "generic" || cls == "tiny-determinant" { "singular-by-chance" } else { cls }, true);
                }
                if cls == "tiny-determinant" {
                    return pass("tiny-determinant", true);
                }
                let nt = t.all_nonzero() && all_first_minors_nonzero(&t);
                pass(if nt { "dense-invertible" } else { "invertible-sparse" }, nt)
            }

            pub fn transpose<S: Sc>(d: &mut Draw) -> Outcome {
                let n = $n;
                let (ta, tb) = (grm::<S>(d, n), grm::<S>(d, n));
                d.note("A", &ta);
                d.note("B", &tb);
                let (a, b) = ($mkm(&ta), $mkm(&tb));
                ensure_eq!(a.transpose().transpose(), a, "transpose-involution", "transpose twice");
                ensure_eq!((a * b).transpose(), b.transpose() * a.transpose(), "transpose-product", "(AB)^T = B^T A^T");
                let mut s = a;
                s.transpose_self();
                ensure_eq!(s.rm(), ta.transpose(), "transpose_self", "transpose_self() vs reference transpose");
                ensure_eq!(a.transpose().rm(), ta.transpose(), "transpose", "transpose() vs reference transpose");
                let nt = ta.all_nonzero() && tb.all_nonzero() && !ta.is_symmetric_exact() && !tb.is_symmetric_exact();
                pass(if nt { "dense-asymmetric" } else { "other" }, nt)
            }

            /// all index pairs enumerated per case; values random
            pub fn swaps<S: Sc>(d: &mut Draw) -> Outcome {
                let n = $n;
                // pairwise distinct entries so that a wrong exchange cannot hide
                let base = d.int(-50, 50);
                let step = d.int(1, 3);
                let mut k = 0;
                let t = RM::<S>::from_fn(n, |_, _| {
                    k += 1;
                    S::i(base + k * step)
                });
                d.note("M", &t);
                let m = $mkm(&t);
                for a in 0..n {
                    for b in 0..n {
                        let mut x = m;
                        x.swap_rows(a, b);
                        let want = RM::from_fn(n, |c, r| t.e[c][if r == a { b } else if r == b { a } else { r }]);
                        ensure_eq!(x.rm(), want, "swap_rows", "swap_rows({}, {})", a, b);
                        let mut x = m;
                        x.swap_columns(a, b);
                        let want = RM::from_fn(n, |c, r| t.e[if c == a { b } else if c == b { a } else { c }][r]);
                        ensure_eq!(x.rm(), want, "swap_columns", "swap_columns({}, {})", a, b);
                        d.configs += 2;
                    }
                }
                for ac in 0..n {
                    for ar in 0..n {
                        for bc in 0..n {
                            for br in 0..n {
                                let mut x = m;
                                x.swap_elements((ac, ar), (bc, br));
                                let mut want = t;
                                want.e[ac][ar] = t.e[bc][br];
                                want.e[bc][br] = t.e[ac][ar];
                                ensure_eq!(x.rm(), want, "swap_elements", "swap_elements(({},{}),({},{}))", ac, ar, bc, br);
                                d.configs += 1;
                            }
                        }
                    }
                }
                let newcol: Vec<S> = (0..n).map(|i| S::i(1000 + i as i64)).collect();
                for c in 0..n {
                    let mut x = m;
                    let old = x.replace_col(c, $mkv(&newcol));
                    ensure_eq!($va(old).to_vec(), t.e[c][..n].to_vec(), "replace_col-returns-old", "replace_col({}) return value", c);
                    let mut want = t;
                    for r in 0..n {
                        want.e[c][r] = newcol[r];
                    }
                    ensure_eq!(x.rm(), want, "replace_col-installs", "replace_col({}) result", c);
                    d.configs += 1;
                }
                pass("all-index-pairs", true)
            }
        }
    };
}

dim_checks!(d2, 2, Matrix2, Vector2, mk_m2, mk_v2, v2);
dim_checks!(d3, 3, Matrix3, Vector3, mk_m3, mk_v3, v3);
dim_checks!(d4, 4, Matrix4, Vector4, mk_m4, mk_v4, v4);

/// inverse_transform of the three matrix Transform impls is invert()
fn inverse_transform<S: Sc>(d: &mut Draw) -> Outcome {
    let (t3, c3) = gen_classed::<S>(d, 3);
    let (t4, c4) = gen_classed::<S>(d, 4);
    let (w2, w3) = (gv2::<S>(d), gv3::<S>(d));
    d.note("M3", &t3);
    d.note("M4", &t4);
    let (m3, m4) = (mk_m3(&t3), mk_m4(&t4));
    let i3 = m3.invert();
    let i4 = m4.invert();
    ensure_eq!(Transform::<Point2<S>>::inverse_transform(&m3), i3, "m3-2d-inverse_transform", "Matrix3 (2-D) inverse_transform vs invert");
    ensure_eq!(Transform::<Point3<S>>::inverse_transform(&m3), i3, "m3-3d-inverse_transform", "Matrix3 (3-D) inverse_transform vs invert");
    ensure_eq!(Transform::<Point3<S>>::inverse_transform(&m4), i4, "m4-inverse_transform", "Matrix4 inverse_transform vs invert");
    ensure!(i3.is_none() == (t3.det() == S::zero()), "m3-none-iff-singular", "Matrix3 inverse presence vs reference determinant {:?}", t3.det());
    ensure!(i4.is_none() == (t4.det() == S::zero()), "m4-none-iff-singular", "Matrix4 inverse presence vs reference determinant {:?}", t4.det());
    let want = i3.map(|i| Transform::<Point2<S>>::transform_vector(&i, w2));
    ensure_eq!(Transform::<Point2<S>>::inverse_transform_vector(&m3, w2), want, "m3-2d-inverse_transform_vector", "Matrix3 (2-D) inverse_transform_vector");
    let want = i3.map(|i| i * w3);
    ensure_eq!(Transform::<Point3<S>>::inverse_transform_vector(&m3, w3), want, "m3-3d-inverse_transform_vector", "Matrix3 (3-D) inverse_transform_vector");
    let want = i4.map(|i| (i * w3.extend(S::zero())).truncate());
    ensure_eq!(Transform::<Point3<S>>::inverse_transform_vector(&m4, w3), want, "m4-inverse_transform_vector", "Matrix4 inverse_transform_vector");
    if let Some(i) = i3 {
        // undoing on vectors (3-D impl): inv(M v) = v
        ensure_eq!(i * (m3 * w3), w3, "m3-undo", "inverse undoes the map on a vector");
    }
    if let Some(i) = i4 {
        let v = w3.extend(S::one());
        ensure_eq!(i * (m4 * v), v, "m4-undo", "inverse undoes the map on a homogeneous vector");
    }
    let cls = match (i3.is_some(), i4.is_some()) {
        (true, true) => "both-invertible",
        (false, false) => "both-singular",
        _ => "mixed",
    };
    let _ = (c3, c4);
    pass(cls, t3.all_nonzero() && t4.all_nonzero())
}


/// native floats: `invert()` is None exactly when the (computed) determinant is zero, for determinants
/// of every size: ordinary, subnormal, underflowed to zero, huge
macro_rules! invert_native {
    ($fname:ident, $F:ty, $sub_lo:expr, $sub_hi:expr, $under:expr, $huge:expr) => {
        fn $fname(d: &mut Draw) -> Outcome {
            type F = $F;
            let n = d.int(2, 4) as usize;
            // unimodular integer matrix: identity after a few integer column shears (det = 1, exact inverse)
            let mut p = [[0i64; 4]; 4];
            for i in 0..n {
                p[i][i] = 1;
            }
            for _ in 0..d.int(0, 6) {
                let (i, j) = (d.below(n), d.below(n));
                if i != j {
                    let c = d.nz_int(-3, 3);
                    for r in 0..n {
                        p[i][r] += c * p[j][r];
                    }
                }
            }
            // row scalings by powers of two; the determinant is 2^(sum of exponents), exactly
            let class = d.int(0, 5);
            let total: i64 = match class {
                // every entry tiny (all within the scalar's epsilon of zero), determinant far from underflow
                5 => -(n as i64) * d.int(if std::mem::size_of::<F>() == 4 { 24 } else { 53 }, if std::mem::size_of::<F>() == 4 { 28 } else { 70 }),
                0 | 1 => d.int(-40, 40),
                2 => d.int($sub_lo, $sub_hi),
                3 => d.int($under - 60, $under),
                _ => d.int($huge, $huge + 20),
            };
            let mut exps = vec![0i64; n];
            let mut rest = total;
            for r in 0..n - 1 {
                let e = rest / (n - r) as i64 + d.int(-8, 8);
                exps[r] = e;
                rest -= e;
            }
            exps[n - 1] = rest;
            let t = RM::<F>::from_fn(n, |c, r| (p[c][r] as F) * (2.0 as F).powi(exps[r] as i32));
            d.note("n, row exponents", &(n, exps.clone()));
            d.note("M", &t);
            macro_rules! go {
                ($mk:ident) => {{
                    let m = $mk(&t);
                    let det = m.determinant();
                    let inv = m.invert();
                    d.note("determinant()", &det);
                    // small integers times powers of two: the Leibniz sum is exact, det = 2^total
                    if class <= 1 || class == 5 {
                        let want = (2.0 as F).powi(total as i32);
                        ensure!(det == want, "determinant-native", "determinant() = {:e}, exact value 2^{} = {:e}", det, total, want);
                    }
                    ensure!(inv.is_none() == (det == 0.0), "invert-none-iff-det-zero",
                        "invert() is {} but determinant() = {:e}", if inv.is_none() { "None" } else { "Some" }, det);
                    if let (Some(ni), true) = (inv, class <= 1) {
                        let e = (m * ni).rm().max_abs_diff(&RM::ident(n));
                        ensure!(e <= 1e-4, "M*N=I-native", "M * invert(M) differs from I by {:e}", e);
                    }
                    // a subnormal determinant is tiny but not zero: here it is the exact power of two 2^total, every cofactor is an
                    // exact float and so is every entry of the inverse (an integer times 2^-exponent of its row)
                    if let (Some(ni), true) = (inv, class == 2 && det != 0.0) {
                        let e = (m * ni).rm().max_abs_diff(&RM::ident(n)).max((ni * m).rm().max_abs_diff(&RM::ident(n)));
                        ensure!(e <= 1e-4, "M*N=I-subnormal-determinant", "M * invert(M) / invert(M) * M differs from I by {:e} for a matrix whose determinant {:e} is subnormal but not zero (the inverse has finite entries): invert() = {:?}", e, det, ni);
                    }
                    det
                }};
            }
            let det: F = match n {
                2 => go!(mk_m2),
                3 => {
                    let m = mk_m3(&t);
                    let pres = m.invert().is_some();
                    ensure!(Transform::<Point2<F>>::inverse_transform(&m).is_some() == pres, "m3-2d-inverse_transform-presence", "Matrix3 (2-D) inverse_transform presence differs from invert()");
                    ensure!(Transform::<Point3<F>>::inverse_transform(&m).is_some() == pres, "m3-3d-inverse_transform-presence", "Matrix3 (3-D) inverse_transform presence differs from invert()");
                    go!(mk_m3)
                }
                _ => {
                    let m = mk_m4(&t);
                    ensure!(Transform::<Point3<F>>::inverse_transform(&m).is_some() == m.invert().is_some(), "m4-inverse_transform-presence", "Matrix4 inverse_transform presence differs from invert()");
                    go!(mk_m4)
                }
            };
            let cls = if class == 5 {
                "all-entries-tiny"
            } else if det == 0.0 {
                "determinant-underflowed-to-zero"
            } else if !det.is_finite() {
                "determinant-overflowed"
            } else if !det.is_normal() {
                "subnormal-determinant"
            } else if det.abs() > 1e30 {
                "huge-determinant"
            } else {
                "ordinary"
            };
            pass(cls, true)
        }
    };
}
invert_native!(invert_native_f64, f64, -1070, -1030, -1090, 900);
invert_native!(invert_native_f32, f32, -147, -128, -160, 100);


/// native floats, exactly singular by structure: one column is +-2^k times another (so every pair of Leibniz terms
/// that cancels in exact arithmetic is the same float product twice); the entries themselves are generic floats whose
/// products are inexact. determinant() must be exactly zero and invert() None - a singular matrix has no inverse,
/// however its determinant is spelled.
macro_rules! singular_native {
    ($fname:ident, $F:ty) => {
        fn $fname(d: &mut Draw) -> Outcome {
            type F = $F;
            let n = d.int(2, 3) as usize;
            let mut t = RM::<F>::from_fn(n, |_, _| 0.0);
            for c in 0..n {
                for r in 0..n {
                    t.e[c][r] = match d.int(0, 5) {
                        0 => d.pick(&[0.1, 0.3, 1.0 / 3.0, 0.7, -0.1, 1e-3, 2.5, -7.0, 1e5]) as F,
                        1 => d.int(-9, 9) as F,
                        _ => d.f64_slog(1e-3, 1e3) as F,
                    };
                }
            }
            let (i, mut j) = (d.below(n), d.below(n));
            if i == j {
                j = (i + 1) % n;
            }
            let k = (2.0 as F).powi(d.int(-3, 3) as i32) * if d.bool() { 1.0 } else { -1.0 };
            let rows = n == 2 && d.bool();
            for r in 0..n {
                if rows {
                    t.e[r][j] = k * t.e[r][i];
                } else {
                    t.e[j][r] = k * t.e[i][r];
                }
            }
            d.note("M", &t);
            d.note("dependent pair, factor, rows?", &((i, j), k, rows));
            macro_rules! go {
                ($mk:ident) => {{
                    let m = $mk(&t);
                    let det = m.determinant();
                    ensure!(det == 0.0, "singular-determinant-not-zero", "{}x{} matrix with column {} = {} * column {}: determinant() = {:e}", n, n, j, k, i, det);
                    ensure!(m.invert().is_none(), "singular-has-inverse", "{}x{} exactly singular matrix: invert() = {:?}", n, n, m.invert());
                    ensure!(!m.is_invertible(), "singular-is_invertible", "{}x{} exactly singular matrix: is_invertible() is true", n, n);
                    ensure!(m.transpose().determinant() == 0.0 || n > 2, "singular-transpose-determinant", "det of the transpose = {:e}", m.transpose().determinant());
                }};
            }
            match n {
                2 => go!(mk_m2),
                3 => {
                    let m = mk_m3(&t);
                    ensure!(Transform::<Point2<F>>::inverse_transform(&m).is_none() && Transform::<Point3<F>>::inverse_transform(&m).is_none(), "singular-inverse_transform", "Matrix3::inverse_transform of an exactly singular matrix is Some");
                    go!(mk_m3)
                }
                _ => unreachable!(),
            }
            pass(if n == 2 { if rows { "2x2-rows" } else { "2x2-columns" } } else { "3x3" }, true)
        }
    };
}
singular_native!(singular_native_f64, f64);
singular_native!(singular_native_f32, f32);


/// native floats: matrices that are *nearly* something special - a rotation plus a translation, shear, perspective entry or
/// scale error anywhere between 1e-14 and 1e-4 - are as invertible as any other well-conditioned matrix: M N = N M = I to
/// rounding, not to the size of the perturbation
fn invert_near_special_f64(d: &mut Draw) -> Outcome {
    let n = d.int(2, 4) as usize;
    let u = vcore::gen::f_unit_quat(d);
    let r3 = qmat(&u);
    let mut t = RM::<f64>::ident(n);
    match n {
        2 => {
            let a = d.f64_in(-3.2, 3.2);
            t.e[0][0] = a.cos();
            t.e[0][1] = a.sin();
            t.e[1][0] = -a.sin();
            t.e[1][1] = a.cos();
        }
        _ => {
            for c in 0..3 {
                for r in 0..3 {
                    t.e[c][r] = r3.e[c][r];
                }
            }
        }
    }
    let base = match d.int(0, 3) { 0 => 1, _ => 0 };
    if base == 1 {
        // or nearly the identity / nearly diagonal
        t = RM::<f64>::ident(n);
        for i in 0..n {
            t.e[i][i] = if d.bool() { 1.0 } else { d.f64_slog(0.5, 2.0) };
        }
    }
    let k = d.int(1, 3);
    for _ in 0..k {
        let (c, r) = (d.below(n), d.below(n));
        let delta = d.f64_slog(1e-14, 1e-4);
        if d.chance(1, 4) {
            // a uniform scale error
            for cc in 0..n {
                for rr in 0..n {
                    t.e[cc][rr] *= 1.0 + delta;
                }
            }
        } else {
            t.e[c][r] += delta;
        }
    }
    d.note("M", &t);
    macro_rules! go {
        ($mk:ident) => {{
            let m = $mk(&t);
            let inv = m.invert();
            ensure!(inv.is_some(), "near-special-no-inverse", "a {}x{} matrix within 1e-4 of a rotation / diagonal matrix has no inverse", n, n);
            let ni = inv.unwrap();
            let e1 = (m * ni).rm().max_abs_diff(&RM::ident(n));
            let e2 = (ni * m).rm().max_abs_diff(&RM::ident(n));
            ensure!(e1 <= 1e-13 && e2 <= 1e-13, "near-special-inverse-inexact", "{}x{}: M*invert(M) differs from I by {:e}, invert(M)*M by {:e}", n, n, e1, e2);
            let det = m.determinant();
            ensure!(det.is_finite() && det != 0.0, "near-special-determinant", "determinant() = {:e}", det);
        }};
    }
    match n {
        2 => go!(mk_m2),
        3 => {
            let m = mk_m3(&t);
            ensure!(Transform::<Point3<f64>>::inverse_transform(&m) == m.invert() && Transform::<Point2<f64>>::inverse_transform(&m) == m.invert(), "near-special-inverse_transform", "Matrix3::inverse_transform differs from invert()");
            go!(mk_m3)
        }
        _ => {
            let m = mk_m4(&t);
            ensure!(Transform::<Point3<f64>>::inverse_transform(&m) == m.invert(), "near-special-inverse_transform", "Matrix4::inverse_transform differs from invert()");
            go!(mk_m4)
        }
    }
    pass(if base == 1 { "near-diagonal" } else { "near-rotation" }, true)
}


/// native floats, ill-conditioned but exact: direct sums of the unimodular blocks [[a, a-1], [a+1, a]] (a up to the square root of the largest exactly representable integer)
/// and ones, rows and columns permuted. Every product the cofactor expansions form is an integer below 2^53, so the
/// determinant (+-1) and the integer inverse are exact in floating point - although the cofactor terms cancel to one part
/// in 2^50. Nothing here may be mistaken for "zero up to rounding".
macro_rules! illconditioned_native {
    ($fname:ident, $F:ty, $amax2:expr, $amax4:expr) => {
        fn $fname(d: &mut Draw) -> Outcome {
            type F = $F;
            let n = d.int(2, 4) as usize;
            let nblocks = if n == 4 && d.bool() { 2 } else { 1 };
            let amax: i64 = if nblocks == 2 { $amax4 } else { $amax2 };
            let mut m = [[0i64; 4]; 4];
            for i in 0..n {
                m[i][i] = 1;
            }
            for b in 0..nblocks {
                let a = d.int(amax / 64, amax);
                let (i, j) = (2 * b, 2 * b + 1);
                m[i][i] = a;
                m[i][j] = a + 1;
                m[j][i] = a - 1;
                m[j][j] = a;
            }
            // random row and column permutations
            let mut rp: Vec<usize> = (0..n).collect();
            let mut cp: Vec<usize> = (0..n).collect();
            for i in (1..n).rev() {
                rp.swap(i, d.below(i + 1));
                cp.swap(i, d.below(i + 1));
            }
            let sign = |p: &Vec<usize>| -> i64 {
                let mut s = 1;
                for i in 0..p.len() {
                    for j in 0..i {
                        if p[j] > p[i] {
                            s = -s;
                        }
                    }
                }
                s
            };
            let want_det = (sign(&rp) * sign(&cp)) as F;
            let t = RM::<F>::from_fn(n, |c, r| m[cp[c]][rp[r]] as F);
            d.note("M", &t);
            macro_rules! go {
                ($mk:ident) => {{
                    let mm = $mk(&t);
                    let det = mm.determinant();
                    ensure!(det == want_det, "illconditioned-determinant", "{}x{} integer matrix with determinant {}: determinant() = {:e}", n, n, want_det, det);
                    ensure!(mm.transpose().determinant() == want_det, "illconditioned-determinant-transpose", "determinant of the transpose = {:e}, expected {}", mm.transpose().determinant(), want_det);
                    ensure!(mm.is_invertible(), "illconditioned-is_invertible", "is_invertible() is false for a matrix of determinant {}", want_det);
                    match mm.invert() {
                        None => return Outcome::Fail { sig: "illconditioned-no-inverse", msg: format!("{}x{} integer matrix with determinant {} has no inverse", n, n, want_det) },
                        Some(ni) => {
                            let e1 = (mm * ni).rm().max_abs_diff(&RM::ident(n));
                            let e2 = (ni * mm).rm().max_abs_diff(&RM::ident(n));
                            ensure!(e1 == 0.0 && e2 == 0.0, "illconditioned-inverse", "M*invert(M) - I = {:e}, invert(M)*M - I = {:e} (every product involved is an exact integer)", e1, e2);
                        }
                    }
                }};
            }
            match n {
                2 => go!(mk_m2),
                3 => {
                    let mm = mk_m3(&t);
                    ensure!(Transform::<Point3<F>>::inverse_transform(&mm).is_some() && Transform::<Point2<F>>::inverse_transform(&mm).is_some(), "illconditioned-inverse_transform", "Matrix3::inverse_transform is None for a matrix of determinant +-1");
                    go!(mk_m3)
                }
                _ => {
                    let mm = mk_m4(&t);
                    ensure!(Transform::<Point3<F>>::inverse_transform(&mm).is_some(), "illconditioned-inverse_transform", "Matrix4::inverse_transform is None for a matrix of determinant +-1");
                    go!(mk_m4)
                }
            }
            pass(match n { 2 => "2x2", 3 => "3x3", _ => "4x4" }, true)
        }
    };
}
illconditioned_native!(illconditioned_native_f64, f64, 94_906_265, 8191);
illconditioned_native!(illconditioned_native_f32, f32, 4095, 63);


/// native floats: transpose() and transpose_self() move every element bit for bit - zeros of either sign included, and on
/// matrices that are symmetric exactly, nearly, or up to the sign of a zero
fn transpose_native_f64(d: &mut Draw) -> Outcome {
    let n = d.int(2, 4) as usize;
    let kind = d.int(0, 4);
    let mut t = RM::<f64>::from_fn(n, |_, _| match d.int(0, 5) {
        0 => 0.0,
        1 => -0.0,
        2 => d.int(-3, 3) as f64,
        _ => d.f64_slog(1e-3, 1e3),
    });
    match kind {
        // exactly symmetric, then mirrored zeros given opposite signs / mirrored entries moved by an ulp or a subnormal
        0 | 1 | 2 => {
            for c in 0..n {
                for r in 0..c {
                    t.e[r][c] = t.e[c][r];
                }
            }
            for c in 0..n {
                for r in 0..c {
                    if kind >= 1 && t.e[c][r] == 0.0 && d.bool() {
                        t.e[r][c] = -t.e[c][r];
                    }
                    if kind == 2 && t.e[c][r] != 0.0 && d.chance(1, 3) {
                        t.e[r][c] = f64::from_bits(t.e[c][r].to_bits() + 1);
                    }
                }
            }
        }
        // tiny
        3 => {
            let k = (2.0f64).powi(-d.int(40, 1000) as i32);
            t = t.map(|x| x * k);
        }
        _ => {}
    }
    d.note("M", &t);
    let want = RM::<f64>::from_fn(n, |c, r| t.e[r][c]);
    let same = |x: &RM<f64>, y: &RM<f64>| (0..n).all(|c| (0..n).all(|r| x.e[c][r].to_bits() == y.e[c][r].to_bits()));
    macro_rules! go {
        ($mk:ident) => {{
            let m = $mk(&t);
            ensure!(same(&m.transpose().rm(), &want), "transpose-bits", "transpose() does not move element (c,r) to (r,c) bit for bit: {:?}", m);
            let mut w = m;
            w.transpose_self();
            ensure!(same(&w.rm(), &want), "transpose_self-bits", "transpose_self() differs from transpose() (compared as bit patterns): {:?} -> {:?}", m, w);
            w.transpose_self();
            ensure!(same(&w.rm(), &t), "transpose_self-involution-bits", "transpose_self() twice does not restore the matrix bit for bit");
        }};
    }
    match n {
        2 => go!(mk_m2),
        3 => go!(mk_m3),
        _ => go!(mk_m4),
    }
    pass(["symmetric", "symmetric-up-to-sign-of-zero", "symmetric-up-to-an-ulp", "tiny", "generic-with-signed-zeros"][kind as usize], true)
}


/// native floats: scaling rows and columns by powers of two is exact, so invert(D1 B D2) = D2^-1 invert(B) D1^-1 entry by
/// entry, each to its own scale - whatever the disparity between the entries
fn invert_scaled_f64(d: &mut Draw) -> Outcome {
    let n = d.int(2, 4) as usize;
    let b = RM::<f64>::from_fn(n, |c, r| if c == r { d.f64_slog(1.0, 4.0) } else if d.chance(1, 3) { 0.0 } else { d.f64_in(-0.5, 0.5) });
    let er: Vec<i32> = (0..n).map(|_| d.int(-60, 60) as i32).collect();
    let ec: Vec<i32> = (0..n).map(|_| d.int(-60, 60) as i32).collect();
    let m = RM::<f64>::from_fn(n, |c, r| b.e[c][r] * (2.0f64).powi(er[r] + ec[c]));
    d.note("B", &b);
    d.note("row exponents, column exponents", &(er.clone(), ec.clone()));
    macro_rules! go {
        ($mk:ident) => {{
            let (ib, im) = ($mk(&b).invert(), $mk(&m).invert());
            ensure!(ib.is_some() == im.is_some(), "scaled-inverse-presence", "invert() is {} for B but {} for D1 B D2", if ib.is_some() { "Some" } else { "None" }, if im.is_some() { "Some" } else { "None" });
            if let (Some(ib), Some(im)) = (ib, im) {
                let (ib, im) = (ib.rm(), im.rm());
                for c in 0..n {
                    for r in 0..n {
                        // entry (c, r) of the inverse pairs column c of the inverse with row r: scaled by 2^-(ec[r] + er[c])
                        let want = ib.e[c][r] * (2.0f64).powi(-(ec[r] + er[c]));
                        // (to a relative 1e-12 of the entry's own scale rather than bit for bit: an implementation that pivots
                        // may legitimately round differently after scaling, one that mixes scales loses whole entries)
                        let unit = (2.0f64).powi(-(ec[r] + er[c]));
                        ensure!((im.e[c][r] - want).abs() <= 1e-12 * (want.abs() + unit), "scaled-inverse", "invert(D1 B D2)[{}][{}] = {:e}, the scaled entry of invert(B) is {:e}", c, r, im.e[c][r], want);
                    }
                }
                let e = ($mk(&b) * $mk(&ib)).rm().max_abs_diff(&RM::ident(n));
                ensure!(e <= 1e-13, "scaled-inverse-base", "B * invert(B) differs from I by {:e} for a diagonally dominant B", e);
            }
            let (db, dm) = ($mk(&b).determinant(), $mk(&m).determinant());
            let want = db * (2.0f64).powi(er.iter().sum::<i32>() + ec.iter().sum::<i32>());
            ensure!((dm - want).abs() <= 1e-12 * want.abs(), "scaled-determinant", "determinant(D1 B D2) = {:e}, scaled determinant of B = {:e}", dm, want);
        }};
    }
    match n {
        2 => go!(mk_m2),
        3 => go!(mk_m3),
        _ => go!(mk_m4),
    }
    pass(match n { 2 => "2x2", 3 => "3x3", _ => "4x4" }, true)
}

/// native floats: the same covariance over the *whole* exponent range - rows and columns of a strongly diagonally dominant
/// B scaled by powers of two so that entries, cofactors, determinant and inverse are all representable but far apart, and
/// (3x3) so that one row is large while the complementary cofactors are subnormal: every quantity the statement needs
/// exists as a float there, so invert() must return the scaled inverse of B - to the relative accuracy the subnormal
/// cofactors carry - and not an infinity or a NaN out of some intermediate quotient
macro_rules! invert_wide {
    ($fname:ident, $F:ty, $lim:expr, $half:expr, $bottom:expr, $rel:expr, $sublo:expr, $subhi:expr, $tlo:expr, $thi:expr) => {
        fn $fname(d: &mut Draw) -> Outcome {
            type F = $F;
            let n = d.int(2, 3) as usize;
            let b = RM::<F>::from_fn(n, |c, r| if c == r { d.f64_slog(1.0, 4.0) as F } else if d.chance(1, 3) { 0.0 } else { d.f64_in(-0.3, 0.3) as F });
            let two = |e: i32| -> F { (2.0 as F).powi(e / 2) * (2.0 as F).powi(e - e / 2) };
            let (mut er, mut ec) = (vec![0i32; n], vec![0i32; n]);
            let subnormal = n == 3 && d.bool();
            if subnormal {
                // one large row (or column), the other two tiny: the cofactors complementary to the large entries are subnormal
                let t = d.int($tlo, $thi) as i32;
                let cof = -(d.int($sublo, $subhi) as i32);
                let a = t - cof;
                let rest = cof;
                let delta = d.int(-8, 8) as i32;
                let big = d.below(3);
                let mut e = vec![0i32; 3];
                e[big] = a;
                e[(big + 1) % 3] = rest / 2 + delta;
                e[(big + 2) % 3] = rest - rest / 2 - delta;
                if d.bool() { er = e } else { ec = e }
            } else {
                for i in 0..n {
                    er[i] = d.int(-$half, $half) as i32;
                    ec[i] = d.int(-$half, $half) as i32;
                }
                // entries, cofactors, determinant and inverse all within 2^+-lim: halve the exponents until they are
                loop {
                    let t: i32 = er.iter().sum::<i32>() + ec.iter().sum::<i32>();
                    let mut worst = t.abs();
                    for r in 0..n {
                        for c in 0..n {
                            worst = worst.max((er[r] + ec[c]).abs()).max((t - er[r] - ec[c]).abs());
                        }
                    }
                    if worst <= $lim {
                        break;
                    }
                    for i in 0..n {
                        er[i] /= 2;
                        ec[i] /= 2;
                    }
                }
            }
            let t: i32 = er.iter().sum::<i32>() + ec.iter().sum::<i32>();
            let m = RM::<F>::from_fn(n, |c, r| b.e[c][r] * two(er[r] + ec[c]));
            d.note("B", &b);
            d.note("row exponents, column exponents", &(er.clone(), ec.clone()));
            // relative accuracy left in the smallest cofactor (1 when it is a normal number)
            let mut mincof = i32::MAX;
            for r in 0..n {
                for c in 0..n {
                    mincof = mincof.min(t - er[r] - ec[c]);
                }
            }
            let quantum: F = if n == 3 { two(($bottom - mincof).min(0)) * 1024.0 } else { 0.0 };
            let tolr: F = $rel + quantum;
            macro_rules! go {
                ($mk:ident) => {{
                    let (ib, im) = ($mk(&b).invert(), $mk(&m).invert());
                    ensure!(ib.is_some() && im.is_some(), "wide-inverse-presence", "invert() is {} for B and {} for D1 B D2 (both determinants are non-zero normal numbers)", if ib.is_some() { "Some" } else { "None" }, if im.is_some() { "Some" } else { "None" });
                    let (ib, im) = (ib.unwrap().rm(), im.unwrap().rm());
                    let e = ($mk(&b) * $mk(&ib)).rm().max_abs_diff(&RM::ident(n));
                    ensure!(e <= $rel, "wide-inverse-base", "B * invert(B) differs from I by {:e} for a diagonally dominant B", e);
                    for c in 0..n {
                        for r in 0..n {
                            let unit = two(-(ec[r] + er[c]));
                            let want = ib.e[c][r] * unit;
                            ensure!(im.e[c][r].is_finite() && (im.e[c][r] - want).abs() <= tolr * (want.abs() + unit), "wide-inverse",
                                "invert(D1 B D2)[{}][{}] = {:e}, the scaled entry of invert(B) is {:e} (relative tolerance {:e})", c, r, im.e[c][r], want, tolr);
                        }
                    }
                    let (db, dm) = ($mk(&b).determinant(), $mk(&m).determinant());
                    let want = db * two(t);
                    ensure!(dm.is_finite() && (dm - want).abs() <= tolr * want.abs(), "wide-determinant", "determinant(D1 B D2) = {:e}, scaled determinant of B = {:e}", dm, want);
                }};
            }
            match n {
                2 => go!(mk_m2),
                _ => go!(mk_m3),
            }
            pass(if subnormal { "3x3-subnormal-cofactors" } else if n == 2 { "2x2-wide" } else { "3x3-wide" }, true)
        }
    };
}
// f64: exponents up to +-1000; subnormal cofactors 2^-1045 .. 2^-1026 under a determinant 2^-1000 .. 2^-700
invert_wide!(invert_wide_f64, f64, 1000, 330, -1074, 1e-12, 1026, 1045, -1000, -700);
// f32: exponents up to +-110; subnormal cofactors 2^-133 .. 2^-129 under a determinant 2^-120 .. 2^-95
invert_wide!(invert_wide_f32, f32, 110, 36, -149, 3e-4, 129, 133, -120, -95);

const RULE_INV: &str = "dense invertible (all entries and all first minors non-zero), or one of the constructed singular / low-rank / tiny-determinant classes";
const RULE_D: &str = "all entries of A and B non-zero and det A != 0";
const RULE_T: &str = "all entries non-zero, neither operand symmetric";

macro_rules! sc {
    ($name:expr, $scalar:expr, $f:expr, $q:expr, $t:expr, $len:expr, $req:expr, $rule:expr, $ex:expr) => {
        SubCheck { name: $name, scalar: $scalar, quick: $q, thorough: $t, len: $len, f: $f, required: $req, rule: $rule, exhaustive: $ex }
    };
}

pub fn property() -> Property {
    let mut s = Vec::new();
    const REQ_INV: &[(&str, u32)] = &[
        ("dense-invertible", 100),
        ("singular-column-combination", 50),
        ("singular-row-combination", 20),
        ("low-rank", 20),
        ("tiny-determinant", 20),
    ];
    const REQ_INV_FP: &[(&str, u32)] = &[("dense-invertible", 100), ("singular-column-combination", 50), ("low-rank", 20)];
    macro_rules! dim {
        ($m:ident, $tag:expr) => {
            s.push(sc!(concat!("determinant-", $tag, "-Q"), "Q", $m::determinant::<Q>, 3000, 200_000, 176, &[("dense-regular", 100), ("singular", 50)], RULE_D, false));
            s.push(sc!(concat!("determinant-", $tag, "-Fp"), "Fp", $m::determinant::<Fp>, 3000, 200_000, 176, &[("dense-regular", 100), ("singular", 50)], RULE_D, false));
            s.push(sc!(concat!("invert-", $tag, "-Q"), "Q", $m::invert::<Q>, 3000, 200_000, 128, REQ_INV, RULE_INV, false));
            s.push(sc!(concat!("invert-", $tag, "-Fp"), "Fp", $m::invert::<Fp>, 3000, 200_000, 128, REQ_INV_FP, RULE_INV, false));
            s.push(sc!(concat!("transpose-", $tag, "-Q"), "Q", $m::transpose::<Q>, 2000, 100_000, 128, &[("dense-asymmetric", 100)], RULE_T, false));
            s.push(sc!(concat!("transpose-", $tag, "-Fp"), "Fp", $m::transpose::<Fp>, 2000, 100_000, 128, &[], RULE_T, false));
            s.push(sc!(concat!("swaps-", $tag, "-Q"), "Q", $m::swaps::<Q>, 100, 5_000, 8, &[], "every (row,row), (column,column), (element,element) index pair incl. equal ones; entries pairwise distinct", true));
        };
    }
    dim!(d2, "2");
    dim!(d3, "3");
    dim!(d4, "4");
    s.push(sc!("inverse_transform-Q", "Q", inverse_transform::<Q>, 3000, 200_000, 224, &[("both-invertible", 50), ("both-singular", 20), ("mixed", 50)], "all entries of both matrices non-zero", false));
    s.push(sc!("inverse_transform-Fp", "Fp", inverse_transform::<Fp>, 3000, 200_000, 224, &[("both-invertible", 50)], "all entries of both matrices non-zero", false));
    const NAT: &[(&str, u32)] = &[("all-entries-tiny", 50), ("ordinary", 200), ("subnormal-determinant", 50), ("determinant-underflowed-to-zero", 50), ("huge-determinant", 50)];
    s.push(sc!("invert_native-f64", "f64", invert_native_f64, 6000, 400_000, 64, NAT, "every generated matrix; determinant classes ordinary / subnormal / underflowed to zero / huge required", false));
    s.push(sc!("invert_native-f32", "f32", invert_native_f32, 6000, 400_000, 64, NAT, "every generated matrix; determinant classes ordinary / subnormal / underflowed to zero / huge required", false));
    const SNG: &[(&str, u32)] = &[("2x2-rows", 100), ("2x2-columns", 100), ("3x3", 200)];
    s.push(sc!("singular_native-f64", "f64", singular_native_f64, 4000, 300_000, 72, SNG, "every generated matrix (one column an exact power-of-two multiple of another; generic inexact entries)", false));
    s.push(sc!("singular_native-f32", "f32", singular_native_f32, 4000, 300_000, 72, SNG, "every generated matrix (one column an exact power-of-two multiple of another; generic inexact entries)", false));
    const ILL: &[(&str, u32)] = &[("2x2", 200), ("3x3", 200), ("4x4", 200)];
    s.push(sc!("illconditioned_native-f64", "f64", illconditioned_native_f64, 4000, 300_000, 32, ILL, "every generated matrix (permuted direct sums of [[a,a-1],[a+1,a]] and ones)", false));
    s.push(sc!("illconditioned_native-f32", "f32", illconditioned_native_f32, 4000, 300_000, 32, ILL, "every generated matrix (permuted direct sums of [[a,a-1],[a+1,a]] and ones)", false));
    s.push(sc!("transpose_native-f64", "f64", transpose_native_f64, 4000, 300_000, 96, &[("symmetric", 100), ("symmetric-up-to-sign-of-zero", 100), ("symmetric-up-to-an-ulp", 100), ("tiny", 100), ("generic-with-signed-zeros", 100)], "every generated matrix", false));
    s.push(sc!("invert_scaled-f64", "f64", invert_scaled_f64, 4000, 300_000, 96, ILL, "every generated matrix (a diagonally dominant B with rows and columns scaled by 2^-60..2^60)", false));
    const WIDE: &[(&str, u32)] = &[("2x2-wide", 150), ("3x3-wide", 100), ("3x3-subnormal-cofactors", 100)];
    s.push(sc!("invert_wide-f64", "f64", invert_wide_f64, 4000, 300_000, 64, WIDE, "every generated matrix (a strongly diagonally dominant B with rows and columns scaled by powers of two over the whole exponent range)", false));
    s.push(sc!("invert_wide-f32", "f32", invert_wide_f32, 4000, 300_000, 64, WIDE, "every generated matrix (a strongly diagonally dominant B with rows and columns scaled by powers of two over the whole exponent range)", false));
    s.push(sc!("invert_near_special-f64", "f64", invert_near_special_f64, 6000, 400_000, 80, &[("near-rotation", 300), ("near-diagonal", 100)], "every generated matrix (a rotation or diagonal matrix with 1-3 entries or the overall scale off by 1e-14..1e-4)", false));
    Property {
        id: "C02",
        title: "Inverse, determinant and transpose obey the laws of linear algebra",
        subchecks: s,
        assumptions: &[
            "exact tiers Q and Fp stand in for 'a field'; singular / low-rank / tiny-determinant matrices are constructed, not waited for",
            "in Q, ulps-equality degenerates to equality, so is_invertible() must equal det != 0",
            "native tier: matrices diag(2^a) * U with U unimodular, so the exact determinant is a power of two of any size; invert() must be None exactly when cgmath's own determinant() (decided exactly above) is 0.0",
            "memory safety of the unchecked lane reads in the 4x4 determinant and of ptr::swap is only exercised here; the ASan build of the fuzz target is the oracle for it (thorough tier)",
        ],
        fuzz: true,
    }
}
