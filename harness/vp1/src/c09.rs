//! C09 — look_at / look_to: rigid, documented handedness, mutual agreement.

use vcore::engine::*;
use vcore::gen::*;
use vcore::q::Q;
use vcore::refs::*;
use vcore::{ensure, ensure_r};
use cgmath::prelude::*;
use cgmath::{BaseFloat, Basis2, Basis3, Decomposed, Matrix2, Matrix3, Matrix4, Point3, Quaternion, Rotation, Transform, Vector2, Vector3};

fn mdiff<S: BaseFloat>(a: &RM<S>, b: &RM<S>) -> S {
    a.max_abs_diff(b)
}

/// the statement's predicate for a 4x4 view matrix
fn check_view<S: BaseFloat + std::fmt::Debug>(m: &Matrix4<S>, eye: Point3<S>, d: Vector3<S>, dlen: S, up: Vector3<S>, uplen: S, rh: bool, tol: S, who: &str) -> Result<(), Outcome> {
    let t = m.rm();
    let r = t.block(3);
    let (o, z) = (S::one(), S::zero());
    // last row 0 0 0 1
    for c in 0..4 {
        let want = if c == 3 { o } else { z };
        ensure_r!(t.e[c][3] == want, "last-row", "{}: last row is not (0,0,0,1): {:?}", who, t);
    }
    ensure_r!(mdiff(&r.mul(&r.transpose()), &RM::ident(3)) <= tol, "not-orthonormal", "{}: R R^T != I: {:?}", who, r);
    ensure_r!((r.det() - o).abs() <= tol, "det", "{}: det R = {:?}", who, r.det());
    // every clause is scale-free: tolerances are relative to |eye|, |d|, |up| (uplen is 1 in the exact tier)
    let e = *m * eye.to_homogeneous();
    // (relative to |eye| itself: an eye a hair away from the origin is sent to the origin just as exactly)
    let te = tol * (eye.x.abs() + eye.y.abs() + eye.z.abs());
    ensure_r!(e.x.abs() <= te && e.y.abs() <= te && e.z.abs() <= te && e.w == o, "eye-not-to-origin", "{}: M eye = {:?}", who, e);
    let rd = r.mulv(&[d.x, d.y, d.z]);
    let wz = if rh { -dlen } else { dlen };
    let td = tol * dlen;
    ensure_r!(rd[0].abs() <= td && rd[1].abs() <= td && (rd[2] - wz).abs() <= td, "direction-axis",
        "{}: R d = {:?}, expected (0,0,{:?}) for the {}-handed variant", who, rd, wz, if rh { "right" } else { "left" });
    let ru = r.mulv(&[up.x, up.y, up.z]);
    let tu = tol * uplen;
    ensure_r!(ru[0].abs() <= tu && ru[1] >= -tu, "up-half-plane", "{}: R up = {:?} (|up| = {:?}), expected x = 0, y >= 0", who, ru, uplen);
    Ok(())
}

fn agree<S: BaseFloat + std::fmt::Debug>(a: &RM<S>, b: &RM<S>, tol: S, sig: &'static str, what: &str) -> Result<(), Outcome> {
    // rotation entries are at most 1 in magnitude; the translation column scales with |eye|
    let mut big = S::one();
    for c in 0..a.n {
        for r in 0..a.n {
            big = big.max(b.e[c][r].abs());
        }
    }
    ensure_r!(mdiff(a, b) <= tol * big, sig, "{}: {:?} vs {:?}", what, a, b);
    Ok(())
}

#[allow(deprecated)]
fn all_entry_points<S: BaseFloat + std::fmt::Debug>(eye: Point3<S>, d: Vector3<S>, dlen: S, up: Vector3<S>, uplen: S, tol: S) -> Result<(), Outcome> {
    let center = eye + d;
    let to_rh = Matrix4::look_to_rh(eye, d, up);
    let to_lh = Matrix4::look_to_lh(eye, d, up);
    check_view(&to_rh, eye, d, dlen, up, uplen, true, tol, "Matrix4::look_to_rh")?;
    check_view(&to_lh, eye, d, dlen, up, uplen, false, tol, "Matrix4::look_to_lh")?;
    agree(&Matrix4::look_at_rh(eye, center, up).rm(), &to_rh.rm(), tol, "look_at-vs-look_to", "Matrix4::look_at_rh(eye, eye+d, up) vs look_to_rh(eye, d, up)")?;
    agree(&Matrix4::look_at_lh(eye, center, up).rm(), &to_lh.rm(), tol, "look_at-vs-look_to", "Matrix4::look_at_lh(eye, eye+d, up) vs look_to_lh(eye, d, up)")?;
    agree(&Matrix4::look_at(eye, center, up).rm(), &to_rh.rm(), tol, "deprecated-look_at", "Matrix4::look_at (deprecated) vs look_at_rh")?;
    agree(&Matrix4::look_at_dir(eye, d, up).rm(), &to_rh.rm(), tol, "deprecated-look_at_dir", "Matrix4::look_at_dir (deprecated) vs look_to_rh")?;
    // Matrix3 variants are the linear parts
    let m3r = Matrix3::look_to_rh(d, up);
    let m3l = Matrix3::look_to_lh(d, up);
    agree(&m3r.rm(), &to_rh.rm().block(3), tol, "matrix3-vs-matrix4", "Matrix3::look_to_rh vs linear part of Matrix4::look_to_rh")?;
    agree(&m3l.rm(), &to_lh.rm().block(3), tol, "matrix3-vs-matrix4", "Matrix3::look_to_lh vs linear part of Matrix4::look_to_lh")?;
    agree(&Matrix3::look_at(d, up).rm(), &m3l.rm(), tol, "deprecated-matrix3-look_at", "Matrix3::look_at (deprecated) vs look_to_lh")?;
    // Rotation::look_at is the left-handed one
    let q: Quaternion<S> = Rotation::look_at(d, up);
    agree(&Matrix3::from(q).rm(), &m3l.rm(), tol, "quaternion-look_at", "Quaternion::look_at vs Matrix3::look_to_lh")?;
    let b: Basis3<S> = Rotation::look_at(d, up);
    agree(&Matrix3::from(b).rm(), &m3l.rm(), tol, "basis3-look_at", "Basis3::look_at vs Matrix3::look_to_lh")?;
    // Transform::look_at_rh / look_at_lh
    let t4r: Matrix4<S> = Transform::look_at_rh(eye, center, up);
    let t4l: Matrix4<S> = Transform::look_at_lh(eye, center, up);
    agree(&t4r.rm(), &to_rh.rm(), tol, "transform-matrix4", "Transform::look_at_rh for Matrix4")?;
    agree(&t4l.rm(), &to_lh.rm(), tol, "transform-matrix4", "Transform::look_at_lh for Matrix4")?;
    let t3r: Matrix3<S> = Transform::<Point3<S>>::look_at_rh(eye, center, up);
    let t3l: Matrix3<S> = Transform::<Point3<S>>::look_at_lh(eye, center, up);
    agree(&t3r.rm(), &to_rh.rm().block(3), tol, "transform-matrix3", "Transform::look_at_rh for Matrix3")?;
    agree(&t3l.rm(), &to_lh.rm().block(3), tol, "transform-matrix3", "Transform::look_at_lh for Matrix3")?;
    let dqr: Decomposed<Vector3<S>, Quaternion<S>> = Transform::look_at_rh(eye, center, up);
    let dql: Decomposed<Vector3<S>, Quaternion<S>> = Transform::look_at_lh(eye, center, up);
    agree(&Matrix4::from(dqr).rm(), &to_rh.rm(), tol, "transform-decomposed-quaternion", "Decomposed<_,Quaternion>::look_at_rh")?;
    agree(&Matrix4::from(dql).rm(), &to_lh.rm(), tol, "transform-decomposed-quaternion", "Decomposed<_,Quaternion>::look_at_lh")?;
    let dbr: Decomposed<Vector3<S>, Basis3<S>> = Transform::look_at_rh(eye, center, up);
    let dbl: Decomposed<Vector3<S>, Basis3<S>> = Transform::look_at_lh(eye, center, up);
    agree(&Matrix4::from(dbr).rm(), &to_rh.rm(), tol, "transform-decomposed-basis3", "Decomposed<_,Basis3>::look_at_rh")?;
    agree(&Matrix4::from(dbl).rm(), &to_lh.rm(), tol, "transform-decomposed-basis3", "Decomposed<_,Basis3>::look_at_lh")?;
    // look_at is look_to of the difference, as a value and not merely up to rounding
    let dd = center - eye;
    ensure_r!(Matrix4::look_at_rh(eye, center, up) == Matrix4::look_to_rh(eye, dd, up), "look_at-is-look_to", "Matrix4::look_at_rh(eye, center, up) != look_to_rh(eye, center - eye, up)");
    ensure_r!(Matrix4::look_at_lh(eye, center, up) == Matrix4::look_to_lh(eye, dd, up), "look_at-is-look_to", "Matrix4::look_at_lh(eye, center, up) != look_to_lh(eye, center - eye, up)");
    ensure_r!(t4r == Matrix4::look_to_rh(eye, dd, up) && t4l == Matrix4::look_to_lh(eye, dd, up), "look_at-is-look_to", "Transform::look_at_* for Matrix4 != look_to_*(eye, center - eye, up)");
    let e0 = dqr.transform_point(eye);
    let te = tol * (eye.x.abs() + eye.y.abs() + eye.z.abs());
    ensure_r!(e0.x.abs() <= te && e0.y.abs() <= te && e0.z.abs() <= te, "decomposed-eye-not-to-origin", "Decomposed::look_at_rh sends the eye to {:?}", e0);
    let e0 = dbl.transform_point(eye);
    ensure_r!(e0.x.abs() <= te && e0.y.abs() <= te && e0.z.abs() <= te, "decomposed-eye-not-to-origin", "Decomposed::look_at_lh sends the eye to {:?}", e0);
    ensure_r!(dqr.scale == S::one() && dbl.scale == S::one(), "decomposed-scale", "look_at must not scale");
    Ok(())
}

fn exact_3d(d: &mut Draw) -> Outcome {
    // rational right-handed frame from a rational unit quaternion
    let uq = {
        let u = unit_quat::<Q>(d);
        let (o, z) = (Q::ONE, Q::ZERO);
        let k = d.pick(&[[o, z, z, z], [z, o, z, z], [z, z, o, z], [z, z, z, o]]);
        qmul(&u, &k)
    };
    let frame = qmat(&uq);
    let u = [frame.e[1][0], frame.e[1][1], frame.e[1][2]];
    let f = [frame.e[2][0], frame.e[2][1], frame.e[2][2]];
    let lam = Q::ratio(d.int(1, 12), d.int(1, 6));
    let alpha = Q::ratio(d.int(1, 12), d.int(1, 6));
    let beta = <Q as Sc>::gen(d);
    let dir = mk_v3(&scale3(&f, lam));
    let up = mk_v3(&add3(&scale3(&u, alpha), &scale3(&f, beta)));
    let eye = gp3::<Q>(d);
    d.note("eye", &eye);
    d.note("dir", &dir);
    d.note("up", &up);
    vcore::tryo!(all_entry_points(eye, dir, lam, up, Q::ONE, Q::ZERO));
    let nt = generic_entries(&v3(dir)) && generic_entries(&v3(up)) && all_nonzero(&[eye.x, eye.y, eye.z]) && beta != Q::ZERO;
    pass(if nt { "generic" } else { "degenerate" }, nt)
}

/// a length: ordinary, anywhere the squares stay finite, or 1 up to a relative 1e-12 .. 1e-3 ("already normalised", nearly)
fn f_len(d: &mut Draw, wide: bool) -> f64 {
    if wide {
        d.f64_log(1e-140, 1e140)
    } else if d.chance(1, 4) {
        1.0 + d.f64_slog(1e-12, 1e-3)
    } else {
        d.f64_log(1e-2, 1e2)
    }
}

fn f64_3d(d: &mut Draw) -> Outcome {
    let eye = Point3::from(f_vec3(d, -50.0, 50.0));
    let dn = f_unit3(d);
    // lengths over many orders of magnitude (as far as |dir|^2 and |up|^2 stay finite): the constructors
    // normalise each input before combining them, so the statement is scale-free
    let wide = d.chance(1, 3);
    let len = f_len(d, wide);
    let dir = Vector3::from(scale3(&dn, len));
    // up at least 0.05 rad away from +-dir
    let ang = d.f64_in(0.05, std::f64::consts::PI - 0.05);
    let p = {
        let helper = if dn[0].abs() < 0.9 { [1.0, 0.0, 0.0] } else { [0.0, 1.0, 0.0] };
        let a = fnormalize3(&cross3(&dn, &helper));
        let b = cross3(&dn, &a);
        let phi = d.f64_in(0.0, 2.0 * std::f64::consts::PI);
        [a[0] * phi.cos() + b[0] * phi.sin(), a[1] * phi.cos() + b[1] * phi.sin(), a[2] * phi.cos() + b[2] * phi.sin()]
    };
    let ul = f_len(d, wide);
    let up = Vector3::from([
        ul * (dn[0] * ang.cos() + p[0] * ang.sin()),
        ul * (dn[1] * ang.cos() + p[1] * ang.sin()),
        ul * (dn[2] * ang.cos() + p[2] * ang.sin()),
    ]);
    d.note("eye", &eye);
    d.note("dir", &dir);
    d.note("up", &up);
    d.note("angle(dir,up)", &ang);
    // the eye is looked at from a distance comparable to |d| in the look_at forms: keep eye + d meaningful
    let eye = if wide { Point3::new(eye.x * len.min(1e6), eye.y * len.min(1e6), eye.z * len.min(1e6)) } else { eye };
    // or an eye next to the origin, whatever the viewing distance (its squared length underflows; it is still not the origin)
    let eye = if d.chance(1, 5) { let k = d.f64_log(1e-300, 1e-100); Point3::new(eye.x * k, eye.y * k, eye.z * k) } else { eye };
    d.note("eye (final)", &eye);
    let tol = 1e-11 / ang.sin();
    vcore::tryo!(all_entry_points(eye, dir, dir.magnitude(), up, up.magnitude(), tol));
    pass(if wide { "wide-scale" } else if ang.sin() < 0.3 { "up-near-dir" } else { "generic" }, true)
}

/// up along a coordinate axis - the usual "y up" (or x, or z), of either sign and any power-of-two length - and a view
/// direction that is steep: 1e-12 .. 0.05 rad away from +-up. With an up vector that has a single non-zero component
/// the side vector dir x up is formed without any cancellation, so the frame is orthonormal to a few ulps however
/// steep the view is, and all entry points agree that closely. (The eye's components across the axis are kept at the
/// size of the direction's, so that eye + d and (eye + d) - eye round harmlessly for the look_at forms.)
macro_rules! steep_axis_up {
    ($fname:ident, $F:ty, $tol:expr) => {
        fn $fname(d: &mut Draw) -> Outcome {
            type F = $F;
            let k = d.below(3);
            let (i, j) = ((k + 1) % 3, (k + 2) % 3);
            let upl = (2.0f64).powi(d.int(-3, 3) as i32) * if d.bool() { 1.0 } else { -1.0 };
            let mut up = [0.0 as F; 3];
            up[k] = upl as F;
            let h = d.f64_log(1e-12, 0.05);
            let phi = d.f64_in(0.0, 2.0 * std::f64::consts::PI);
            let along = if d.bool() { 1.0 } else { -1.0 };
            let len = f_len(d, false);
            let mut dn = [0.0f64; 3];
            dn[k] = along * h.cos() * len;
            dn[i] = h.sin() * phi.cos() * len;
            dn[j] = h.sin() * phi.sin() * len;
            let dir = Vector3::new(dn[0] as F, dn[1] as F, dn[2] as F);
            let mut e = [0.0f64; 3];
            if !d.chance(1, 4) {
                e[k] = d.f64_in(-50.0, 50.0);
                e[i] = d.f64_in(-1.0, 1.0) * h.sin() * len;
                e[j] = d.f64_in(-1.0, 1.0) * h.sin() * len;
            }
            let eye = Point3::new(e[0] as F, e[1] as F, e[2] as F);
            let upv = Vector3::new(up[0], up[1], up[2]);
            d.note("eye", &eye);
            d.note("dir", &dir);
            d.note("up", &upv);
            d.note("angle(dir, +-up)", &h);
            vcore::tryo!(all_entry_points(eye, dir, dir.magnitude(), upv, upv.magnitude(), $tol));
            pass(if h < 1e-8 { "steeper-than-1e-8-rad" } else if h < 1e-4 { "1e-8-to-1e-4-rad" } else { "1e-4-to-0.05-rad" }, true)
        }
    };
}
steep_axis_up!(steep_axis_up_f64, f64, 1e-13);
steep_axis_up!(steep_axis_up_f32, f32, 1e-5);

fn exact_2d(d: &mut Draw) -> Outcome {
    let (c, s) = circle_point::<Q>(d);
    let lam = Q::ratio(d.int(1, 12), d.int(1, 6));
    let dir = Vector2::new(c * lam, s * lam);
    let up = gv2::<Q>(d);
    let flip = d.bool();
    d.note("dir", &dir);
    d.note("up", &up);
    let side = dir.perp_dot(up);
    let b1 = Vector2::new(c, s);
    let check = |m: Matrix2<Q>, who: &str| -> Result<(), Outcome> {
        ensure_r!(m.x == b1, "first-column", "{}: first column {:?}, expected d/|d| = {:?}", who, m.x, b1);
        ensure_r!(m.x.dot(m.y) == Q::ZERO && m.y.magnitude2() == Q::ONE, "not-orthonormal", "{}: columns not orthonormal: {:?}", who, m);
        Ok(())
    };
    if side != Q::ZERO {
        let m = Matrix2::look_at(dir, up);
        vcore::tryo!(check(m, "Matrix2::look_at"));
        ensure!(m.y.dot(up) >= Q::ZERO, "second-column-side", "Matrix2::look_at: second column {:?} is on the other side of up {:?}", m.y, up);
        let b: Basis2<Q> = Rotation::look_at(dir, up);
        ensure!(Matrix2::from(b) == m, "basis2-look_at", "Basis2::look_at differs from Matrix2::look_at");
    }
    let ms = Matrix2::look_at_stable(dir, flip);
    vcore::tryo!(check(ms, "Matrix2::look_at_stable"));
    // flip: the second column is the first turned clockwise
    let want = if flip { Vector2::new(b1.y, -b1.x) } else { Vector2::new(-b1.y, b1.x) };
    ensure!(ms.y == want, "look_at_stable-flip", "look_at_stable(d, {}): second column {:?}, expected {:?}", flip, ms.y, want);
    ensure!(Matrix2::from(Basis2::look_at_stable(dir, flip)) == ms, "basis2-look_at_stable", "Basis2::look_at_stable differs from Matrix2::look_at_stable");
    pass(if side == Q::ZERO { "up-parallel" } else if side > Q::ZERO { "up-left" } else { "up-right" }, side != Q::ZERO && c != Q::ZERO && s != Q::ZERO)
}

fn f64_2d(d: &mut Draw) -> Outcome {
    let phi = d.f64_in(-3.2, 3.2);
    // lengths over many orders of magnitude (as far as |dir|^2 and |up|^2 stay finite): the constructors
    // normalise each input before combining them, so the statement is scale-free
    let wide = d.chance(1, 3);
    let len = f_len(d, wide);
    let dir = Vector2::new(len * phi.cos(), len * phi.sin());
    let off = d.f64_in(0.05, std::f64::consts::PI - 0.05) * if d.bool() { 1.0 } else { -1.0 };
    let ul = f_len(d, false);
    let up = Vector2::new(ul * (phi + off).cos(), ul * (phi + off).sin());
    d.note("dir", &dir);
    d.note("up", &up);
    let m = Matrix2::look_at(dir, up);
    let b1 = dir / dir.magnitude();
    ensure!((m.x - b1).magnitude() <= 1e-14, "first-column", "first column {:?} vs d/|d| {:?}", m.x, b1);
    ensure!(m.x.dot(m.y).abs() <= 1e-14 && (m.y.magnitude() - 1.0).abs() <= 1e-14, "not-orthonormal", "columns not orthonormal: {:?}", m);
    ensure!(m.y.dot(up) >= 0.0, "second-column-side", "second column {:?} on the other side of up {:?}", m.y, up);
    let b: Basis2<f64> = Rotation::look_at(dir, up);
    ensure!(Matrix2::from(b) == m, "basis2-look_at", "Basis2::look_at differs from Matrix2::look_at");
    pass(if off > 0.0 { "up-left" } else { "up-right" }, true)
}

/// 2-D, an up vector of any size down to a few subnormal units: the side of d on which up lies is the sign of
/// d.x up.y - d.y up.x, which for a d with small integer components (times a power of two) and an up of a few units is
/// computed here exactly, in integers - the statement puts no lower limit on |up|
macro_rules! tiny_up_2d {
    ($fname:ident, $F:ty, $bottom:expr) => {
        fn $fname(d: &mut Draw) -> Outcome {
            type F = $F;
            let (dx, dy) = (d.int(-12, 12), d.int(-12, 12));
            let (dx, dy) = if dx == 0 && dy == 0 { (3, 4) } else { (dx, dy) };
            let (ux, uy) = (d.int(-4, 4), d.int(-4, 4));
            let side = dx * uy - dy * ux;
            let (ux, uy, side) = if side == 0 { (-dy, dx, dx * dx + dy * dy) } else { (ux, uy, side) };
            // up: a few units of the smallest subnormal, or of any power of two up to 1
            let ue = if d.chance(1, 2) { $bottom } else { d.int($bottom, 0) as i32 };
            // (d at least as large as its integer components, so that the two products d_i up_j are exact multiples of the unit)
            let de = d.int(0, 40) as i32;
            let two = |e: i32| -> F { (2.0 as F).powi(e / 2) * (2.0 as F).powi(e - e / 2) };
            let dir = Vector2::new(dx as F * two(de), dy as F * two(de));
            let up = Vector2::new(ux as F * two(ue), uy as F * two(ue));
            d.note("dir", &dir);
            d.note("up (integers times 2^e), e", &((ux, uy), ue));
            let m = Matrix2::look_at(dir, up);
            let n = ((dx * dx + dy * dy) as f64).sqrt();
            let b1 = (dx as f64 / n, dy as f64 / n);
            let tol = 8.0 * F::EPSILON as f64;
            ensure!((m.x.x as f64 - b1.0).abs() <= tol && (m.x.y as f64 - b1.1).abs() <= tol, "first-column", "first column {:?} vs d/|d| = {:?}", m.x, b1);
            ensure!(((m.x.x * m.y.x + m.x.y * m.y.y) as f64).abs() <= tol && ((m.y.x as f64).hypot(m.y.y as f64) - 1.0).abs() <= tol, "not-orthonormal", "columns not orthonormal: {:?}", m);
            let turn = m.x.x as f64 * m.y.y as f64 - m.x.y as f64 * m.y.x as f64;
            ensure!((turn > 0.0) == (side > 0), "second-column-side", "up = ({}, {}) * 2^{} lies to the {} of d = ({}, {}), but the second column {:?} is the first turned {}", ux, uy, ue, if side > 0 { "left" } else { "right" }, dx, dy, m.y, if turn > 0.0 { "left" } else { "right" });
            let b: Basis2<F> = Rotation::look_at(dir, up);
            ensure!(Matrix2::from(b) == m, "basis2-look_at", "Basis2::look_at differs from Matrix2::look_at");
            pass(if ue == $bottom { if side > 0 { "smallest-subnormal-up-left" } else { "smallest-subnormal-up-right" } } else if side > 0 { "up-left" } else { "up-right" }, true)
        }
    };
}
tiny_up_2d!(tiny_up_2d_f64, f64, -1074);
tiny_up_2d!(tiny_up_2d_f32, f32, -149);

pub fn property() -> Property {
    let mut s = Vec::new();
    macro_rules! add {
        ($name:expr, $scalar:expr, $f:expr, $q:expr, $t:expr, $len:expr, $req:expr, $rule:expr) => {
            s.push(SubCheck { name: $name, scalar: $scalar, quick: $q, thorough: $t, len: $len, f: $f, required: $req, rule: $rule, exhaustive: false });
        };
    }
    add!("look_3d-Q", "Q", exact_3d, 3000, 200_000, 48, &[("generic", 100)], "eye, dir, up each with non-zero (dir, up: pairwise distinct) components; up not perpendicular to dir");
    add!("look_3d-f64", "f64", f64_3d, 4000, 200_000, 64, &[("generic", 200), ("up-near-dir", 50), ("wide-scale", 150)], "every generated triple (up at least 0.05 rad from +-dir)");
    const STEEP: &[(&str, u32)] = &[("steeper-than-1e-8-rad", 100), ("1e-8-to-1e-4-rad", 100), ("1e-4-to-0.05-rad", 100)];
    add!("look_3d_steep_axis_up-f64", "f64", steep_axis_up_f64, 4000, 200_000, 48, STEEP, "every generated triple (up on a coordinate axis, dir 1e-12 .. 0.05 rad from +-up)");
    add!("look_3d_steep_axis_up-f32", "f32", steep_axis_up_f32, 4000, 200_000, 48, STEEP, "every generated triple (up on a coordinate axis, dir 1e-12 .. 0.05 rad from +-up)");
    add!("look_2d-Q", "Q", exact_2d, 4000, 200_000, 24, &[("up-left", 100), ("up-right", 100)], "up not parallel to dir; dir not axis-aligned");
    const TINY: &[(&str, u32)] = &[("smallest-subnormal-up-left", 100), ("smallest-subnormal-up-right", 100), ("up-left", 100), ("up-right", 100)];
    add!("look_2d_tiny_up-f64", "f64", tiny_up_2d_f64, 4000, 200_000, 24, TINY, "every generated pair (d with small integer components, up a few units of 2^e, e down to the smallest subnormal)");
    add!("look_2d_tiny_up-f32", "f32", tiny_up_2d_f32, 4000, 200_000, 24, TINY, "every generated pair (d with small integer components, up a few units of 2^e, e down to the smallest subnormal)");
    add!("look_2d-f64", "f64", f64_2d, 4000, 200_000, 24, &[("up-left", 100), ("up-right", 100)], "every generated pair");
    Property {
        id: "C09",
        title: "look_at / look_to build rigid view transforms with the documented handedness",
        subchecks: s,
        assumptions: &[
            "general position: dir != 0, up not parallel to dir (f64: at least 0.05 rad away; tolerance 1e-11 (1+|eye|+|d|+|up|)/sin(angle))",
            "steep views: with up on a coordinate axis the construction involves no cancellation, so the 0.05 rad limit does not apply: dir 1e-12 .. 0.05 rad from +-up, tolerance 1e-13 (f64) / 1e-5 (f32) relative to the entries, for every entry point",
            "Q tier: dir = lambda f, up = alpha u + beta f for a rational orthonormal frame (r,u,f) taken from a rational unit quaternion, so that every normalisation and the matrix->quaternion step inside cgmath is exact",
            "the deprecated Transform::look_at has no documented handedness and is not part of the claim; Matrix4::look_at / look_at_dir / Matrix3::look_at are compared with the functions their deprecation notes name",
        ],
        fuzz: false,
    }
}
