//! C12 — points as an affine space over vectors; homogeneous coordinates (Q, Fp, i64; f64 for float regimes).

use super::c03::Sn;
use vcore::engine::*;
use vcore::q::{Fp, Q};
use vcore::{ensure, ensure_eq};
use cgmath::prelude::*;
use cgmath::{Point1, Point2, Point3, Vector1, Vector2, Vector3, Vector4};

fn generic<S: Sn>(vs: &[&[S]]) -> bool {
    for v in vs {
        for (i, a) in v.iter().enumerate() {
            if *a == S::zero() {
                return false;
            }
            for b in &v[..i] {
                if *a == *b {
                    return false;
                }
            }
        }
    }
    true
}

macro_rules! dim_checks {
    ($modname:ident, $n:expr, $P:ident, $V:ident, [$($f:ident),+]) => {
        pub mod $modname {
            use super::*;
            fn pa<S: Copy>(p: $P<S>) -> Vec<S> { vec![$(p.$f),+] }
            fn va<S: Copy>(v: $V<S>) -> Vec<S> { vec![$(v.$f),+] }
            fn mkp<S: Copy>(a: &[S]) -> $P<S> { let mut i = 0; $P { $($f: { i += 1; a[i - 1] }),+ } }
            fn mkv<S: Copy>(a: &[S]) -> $V<S> { let mut i = 0; $V { $($f: { i += 1; a[i - 1] }),+ } }
            fn g<S: Sn>(d: &mut Draw) -> Vec<S> { (0..$n).map(|_| S::g(d)).collect() }
            fn g_nz<S: Sn>(d: &mut Draw) -> Vec<S> { (0..$n).map(|_| S::g_nz(d)).collect() }
            fn cmp<S: Sn>(a: &[S], b: &[S], f: impl Fn(S, S) -> S) -> Vec<S> { (0..a.len()).map(|i| f(a[i], b[i])).collect() }
            fn cms<S: Sn>(a: &[S], s: S, f: impl Fn(S, S) -> S) -> Vec<S> { a.iter().map(|x| f(*x, s)).collect() }

            pub fn affine<S: Sn>(d: &mut Draw) -> Outcome {
                let (p, q, v, w) = (g::<S>(d), g::<S>(d), g::<S>(d), g::<S>(d));
                d.note("p", &p);
                d.note("q", &q);
                d.note("v", &v);
                d.note("w", &w);
                let (cp, cq, cv, cw) = (mkp(&p), mkp(&q), mkv(&v), mkv(&w));
                ensure_eq!(pa(cp + cv), cmp(&p, &v, |x, y| x + y), "point+vector", "p + v per component");
                ensure_eq!(pa(cp - cv), cmp(&p, &v, |x, y| x - y), "point-vector", "p - v per component");
                ensure_eq!(va(cq - cp), cmp(&q, &p, |x, y| x - y), "point-point", "q - p per component");
                ensure_eq!((cp + cv) - cp, cv, "add-then-sub", "(p + v) - p = v");
                ensure_eq!(cp + (cq - cp), cq, "sub-then-add", "p + (q - p) = q");
                ensure_eq!((cp + cv) + cw, cp + (cv + cw), "assoc", "(p + v) + w = p + (v + w)");
                ensure_eq!(cp - cv, cp + (-cv), "sub-is-add-neg", "p - v = p + (-v)");
                ensure_eq!($P::from_vec(cp.to_vec()), cp, "from_vec-to_vec", "from_vec(to_vec(p))");
                ensure_eq!($P::from_vec(cv).to_vec(), cv, "to_vec-from_vec", "to_vec(from_vec(v))");
                ensure_eq!(va(cp.to_vec()), p.clone(), "to_vec", "to_vec components");
                ensure_eq!($P::<S>::origin().to_vec(), $V::<S>::zero(), "origin", "origin() is the zero vector");
                ensure_eq!(pa($P::<S>::origin()), vec![S::zero(); $n], "origin-components", "origin() components");
                let mut t = cp; t += cv;
                ensure_eq!(t, cp + cv, "add_assign", "p += v");
                let mut t = cp; t -= cv;
                ensure_eq!(t, cp - cv, "sub_assign", "p -= v");
                // reference operand forms
                ensure_eq!(&cp + cv, cp + cv, "ref-forms", "&p + v");
                ensure_eq!(cp + &cv, cp + cv, "ref-forms", "p + &v");
                ensure_eq!(&cp + &cv, cp + cv, "ref-forms", "&p + &v");
                ensure_eq!(&cp - cv, cp - cv, "ref-forms-sub", "&p - v");
                ensure_eq!(cp - &cv, cp - cv, "ref-forms-sub", "p - &v");
                ensure_eq!(&cp - &cv, cp - cv, "ref-forms-sub", "&p - &v");
                ensure_eq!(&cq - &cp, cq - cp, "ref-forms-pp", "&q - &p");
                ensure_eq!(cq - &cp, cq - cp, "ref-forms-pp", "q - &p");
                ensure_eq!(&cq - cp, cq - cp, "ref-forms-pp", "&q - p");
                // a point minus itself, and the same point through two routes
                ensure_eq!(cp - cp, $V::<S>::zero(), "point-minus-itself", "p - p = 0");
                ensure_eq!(cp.midpoint(cp), cp, "midpoint-of-equal-points", "midpoint(p, p) = p");
                let mut want = S::zero();
                for i in 0..$n { want = want + p[i] * v[i]; }
                ensure_eq!(EuclideanSpace::dot(cp, cv), want, "point-dot", "dot(p, v)");
                let nt = generic(&[&p, &q, &v, &w]) && p != q;
                pass(if nt { "generic" } else { "degenerate" }, nt)
            }

            pub fn componentwise<S: Sn>(d: &mut Draw) -> Outcome {
                let (p, q) = (g::<S>(d), g_nz::<S>(d));
                let (a, k) = (S::g(d), S::g_nz(d));
                d.note("p", &p);
                d.note("q(non-zero)", &q);
                d.note("a,k(non-zero)", &(a, k));
                let (cp, cq) = (mkp(&p), mkp(&q));
                ensure_eq!(pa(cp * a), cms(&p, a, |x, s| x * s), "mul-scalar", "p * a");
                ensure_eq!(pa(cp / k), cms(&p, k, |x, s| x / s), "div-scalar", "p / k");
                ensure_eq!(pa(&cp * a), cms(&p, a, |x, s| x * s), "mul-scalar-ref", "&p * a");
                ensure_eq!(pa(&cp / k), cms(&p, k, |x, s| x / s), "div-scalar-ref", "&p / k");
                let mut t = cp; t *= a;
                ensure_eq!(pa(t), cms(&p, a, |x, s| x * s), "mul_assign", "p *= a");
                let mut t = cp; t /= k;
                ensure_eq!(pa(t), cms(&p, k, |x, s| x / s), "div_assign", "p /= k");
                ensure_eq!(pa(cp.add_element_wise(cq)), cmp(&p, &q, |x, y| x + y), "add_element_wise", "add_element_wise(q)");
                ensure_eq!(pa(cp.sub_element_wise(cq)), cmp(&p, &q, |x, y| x - y), "sub_element_wise", "sub_element_wise(q)");
                ensure_eq!(pa(cp.mul_element_wise(cq)), cmp(&p, &q, |x, y| x * y), "mul_element_wise", "mul_element_wise(q)");
                ensure_eq!(pa(cp.div_element_wise(cq)), cmp(&p, &q, |x, y| x / y), "div_element_wise", "div_element_wise(q)");
                let mut t = cp; t.add_assign_element_wise(cq);
                ensure_eq!(pa(t), cmp(&p, &q, |x, y| x + y), "add_assign_element_wise", "add_assign_element_wise(q)");
                let mut t = cp; t.sub_assign_element_wise(cq);
                ensure_eq!(pa(t), cmp(&p, &q, |x, y| x - y), "sub_assign_element_wise", "sub_assign_element_wise(q)");
                let mut t = cp; t.mul_assign_element_wise(cq);
                ensure_eq!(pa(t), cmp(&p, &q, |x, y| x * y), "mul_assign_element_wise", "mul_assign_element_wise(q)");
                let mut t = cp; t.div_assign_element_wise(cq);
                ensure_eq!(pa(t), cmp(&p, &q, |x, y| x / y), "div_assign_element_wise", "div_assign_element_wise(q)");
                ensure_eq!(pa(cp.add_element_wise(a)), cms(&p, a, |x, s| x + s), "add_element_wise-scalar", "add_element_wise(a)");
                ensure_eq!(pa(cp.sub_element_wise(a)), cms(&p, a, |x, s| x - s), "sub_element_wise-scalar", "sub_element_wise(a)");
                ensure_eq!(pa(cp.mul_element_wise(a)), cms(&p, a, |x, s| x * s), "mul_element_wise-scalar", "mul_element_wise(a)");
                ensure_eq!(pa(cp.div_element_wise(k)), cms(&p, k, |x, s| x / s), "div_element_wise-scalar", "div_element_wise(k)");
                let mut t = cp; t.add_assign_element_wise(a);
                ensure_eq!(pa(t), cms(&p, a, |x, s| x + s), "add_assign_element_wise-scalar", "add_assign_element_wise(a)");
                let mut t = cp; t.sub_assign_element_wise(a);
                ensure_eq!(pa(t), cms(&p, a, |x, s| x - s), "sub_assign_element_wise-scalar", "sub_assign_element_wise(a)");
                let mut t = cp; t.mul_assign_element_wise(a);
                ensure_eq!(pa(t), cms(&p, a, |x, s| x * s), "mul_assign_element_wise-scalar", "mul_assign_element_wise(a)");
                let mut t = cp; t.div_assign_element_wise(k);
                ensure_eq!(pa(t), cms(&p, k, |x, s| x / s), "div_assign_element_wise-scalar", "div_assign_element_wise(k)");
                if S::HAS_REM {
                    ensure_eq!(pa(cp % k), cms(&p, k, |x, s| x % s), "rem-scalar", "p % k");
                    let mut t = cp; t %= k;
                    ensure_eq!(pa(t), cms(&p, k, |x, s| x % s), "rem_assign", "p %= k");
                    ensure_eq!(pa(cp.rem_element_wise(cq)), cmp(&p, &q, |x, y| x % y), "rem_element_wise", "rem_element_wise(q)");
                    ensure_eq!(pa(cp.rem_element_wise(k)), cms(&p, k, |x, s| x % s), "rem_element_wise-scalar", "rem_element_wise(k)");
                    let mut t = cp; t.rem_assign_element_wise(cq);
                    ensure_eq!(pa(t), cmp(&p, &q, |x, y| x % y), "rem_assign_element_wise", "rem_assign_element_wise(q)");
                    let mut t = cp; t.rem_assign_element_wise(k);
                    ensure_eq!(pa(t), cms(&p, k, |x, s| x % s), "rem_assign_element_wise-scalar", "rem_assign_element_wise(k)");
                }
                let nt = generic(&[&p, &q]) && a != S::zero() && a != S::one() && k != S::one();
                pass(if nt { "generic" } else { "degenerate" }, nt)
            }

            pub fn mid_centroid<S: Sn>(d: &mut Draw) -> Outcome {
                let (p, q) = (g::<S>(d), g::<S>(d));
                let len = d.int(1, 8) as usize;
                let mut pts: Vec<Vec<S>> = (0..len).map(|_| g::<S>(d)).collect();
                if d.chance(1, 20) {
                    // a long list: the drawn points repeated cyclically up to a length beyond any plausible block size
                    let total = d.int(1000, 2600) as usize;
                    pts = (0..total).map(|j| pts[j % len].clone()).collect();
                }
                let len = pts.len();
                d.note("p", &p);
                d.note("q", &q);
                d.note("points", &pts);
                let (cp, cq) = (mkp(&p), mkp(&q));
                let two = S::i(2);
                ensure_eq!(pa(cp.midpoint(cq)), cmp(&p, &q, |x, y| x + (y - x) / two), "midpoint", "midpoint(p,q) = p + (q-p)/2");
                let cps: Vec<$P<S>> = pts.iter().map(|a| mkp(a)).collect();
                let n = S::i(len as i64);
                let want: Vec<S> = (0..$n).map(|i| {
                    let mut s = S::zero();
                    for a in &pts { s = s + a[i]; }
                    s / n
                }).collect();
                ensure_eq!(pa($P::centroid(&cps)), want, "centroid", "centroid = (sum of position vectors) / n");
                let nt = generic(&[&p, &q]) && p != q && len >= 2;
                pass(if len == 1 { "single-point-list" } else if nt { "generic" } else { "degenerate" }, nt)
            }
        }
    };
}

dim_checks!(d1, 1, Point1, Vector1, [x]);
dim_checks!(d2, 2, Point2, Vector2, [x, y]);
dim_checks!(d3, 3, Point3, Vector3, [x, y, z]);

fn homogeneous<S: Sn>(d: &mut Draw) -> Outcome {
    let p = Point3::new(S::g(d), S::g(d), S::g(d));
    let k = S::g_nz(d);
    d.note("p", &p);
    d.note("k", &k);
    let h = p.to_homogeneous();
    ensure_eq!(h, Vector4::new(p.x, p.y, p.z, S::one()), "to_homogeneous", "to_homogeneous(p) = (x,y,z,1)");
    ensure_eq!(Point3::from_homogeneous(h), p, "from-to-homogeneous", "from_homogeneous(to_homogeneous(p))");
    ensure_eq!(Point3::from_homogeneous(h * k), p, "homogeneous-scale-invariant", "from_homogeneous(k * to_homogeneous(p)) = p");
    let w = S::g_nz(d);
    let g4 = Vector4::new(S::g(d), S::g(d), S::g(d), w);
    ensure_eq!(Point3::from_homogeneous(g4), Point3::new(g4.x / w, g4.y / w, g4.z / w), "from_homogeneous-divides-by-w", "from_homogeneous(x,y,z,w)");
    let nt = generic::<S>(&[&[p.x, p.y, p.z]]) && k != S::one();
    pass(if nt { "generic" } else { "degenerate" }, nt)
}

fn to_homogeneous_int<S: Sn>(d: &mut Draw) -> Outcome {
    let p = Point3::new(S::g(d), S::g(d), S::g(d));
    d.note("p", &p);
    ensure_eq!(p.to_homogeneous(), Vector4::new(p.x, p.y, p.z, S::one()), "to_homogeneous", "to_homogeneous(p) = (x,y,z,1)");
    ensure_eq!(Point3::from_homogeneous(p.to_homogeneous()), p, "from-to-homogeneous", "from_homogeneous(to_homogeneous(p))");
    let nt = generic::<S>(&[&[p.x, p.y, p.z]]);
    pass(if nt { "generic" } else { "degenerate" }, nt)
}


// ---- f64: the same clauses where an exact field cannot look (magnitudes far from 1, k within ulps of 1, long lists)
fn float3(d: &mut Draw) -> Outcome {
    const E: f64 = f64::EPSILON;
    let class = d.int(0, 3);
    // one magnitude per case, so that p, q, v are comparable and no clause leaves the normal range
    // (as wide as the statement's own quantities allow: sums of up to 520 such points and halves of differences stay
    // normal floats from 1e-290 to 1e300; only the homogeneous clause, which multiplies by k, uses a narrower band)
    let m = match class { 0 => 1.0, 1 => d.f64_log(1e-290, 1e-20), 2 => d.f64_log(1e20, 1e300), _ => d.f64_log(1e-3, 1e3) };
    let mut comp = |d: &mut Draw| m * if d.chance(1, 10) { d.int(-3, 3) as f64 } else { d.f64_in(-4.0, 4.0) };
    let p = Point3::new(comp(d), comp(d), comp(d));
    let q = Point3::new(comp(d), comp(d), comp(d));
    let v = Vector3::new(comp(d), comp(d), comp(d));
    d.note("p", &p);
    d.note("q", &q);
    d.note("v", &v);
    let near = |a: f64, b: f64, tol: f64| (a - b).abs() <= tol && a.is_finite();
    let (pa, qa, va) = ([p.x, p.y, p.z], [q.x, q.y, q.z], [v.x, v.y, v.z]);
    let arr = |p: Point3<f64>| [p.x, p.y, p.z];
    let arv = |p: Vector3<f64>| [p.x, p.y, p.z];
    for i in 0..3 {
        let s = pa[i].abs() + qa[i].abs() + va[i].abs();
        ensure!(near(arv((p + v) - p)[i], va[i], 4.0 * E * s), "float-add-sub", "(p+v)-p = v within rounding");
        ensure!(near(arr(p + (q - p))[i], qa[i], 4.0 * E * s), "float-sub-add", "p+(q-p) = q within rounding");
        ensure!(arr(p - v)[i] == arr(p + (-v))[i], "float-sub-neg", "p - v = p + (-v) exactly (negation is exact)");
        ensure!(near(arr(p.midpoint(q))[i], pa[i] / 2.0 + qa[i] / 2.0, 4.0 * E * s), "float-midpoint", "midpoint(p,q) = p + (q-p)/2 within rounding");
    }
    ensure!(Point3::from_vec(p.to_vec()) == p && Point3::<f64>::origin().to_vec() == Vector3::zero(), "float-to_vec", "to_vec/from_vec");
    // the point-vector dot acts component by component: sum of the products p_i v_i, also when the coordinates are near
    // the top of the range and the vector tiny (or the other way round), and when all components of v are equal
    {
        let big = d.f64_log(1e290, 1.7e308);
        let small = d.f64_log(1e-300, 1e-280);
        let uniform = d.bool();
        let s = |d: &mut Draw| if d.bool() { 1.0 } else { -1.0 };
        let pb = Point3::new(big * d.f64_in(0.5, 1.0) * s(d), big * d.f64_in(0.5, 1.0) * s(d), big * d.f64_in(0.5, 1.0) * s(d));
        let k = small * d.f64_in(0.5, 1.0) * s(d);
        let vb = if uniform { Vector3::new(k, k, k) } else { Vector3::new(k, small * d.f64_in(0.5, 1.0), -small * d.f64_in(0.5, 1.0)) };
        let (pb, vb) = if d.bool() { (pb, vb) } else { (Point3::from_vec(vb), pb.to_vec()) };
        let terms = [pb.x * vb.x, pb.y * vb.y, pb.z * vb.z];
        let want = terms[0] + terms[1] + terms[2];
        let mag = terms[0].abs() + terms[1].abs() + terms[2].abs();
        let got = EuclideanSpace::dot(pb, vb);
        ensure!((got - want).abs() <= 8.0 * E * mag, "float-point-dot", "dot({:?}, {:?}) = {:e}, sum of the component products = {:e}", pb, vb, got, want);
        let (p2, v2) = (cgmath::Point2::new(pb.x, pb.y), cgmath::Vector2::new(vb.x, vb.y));
        let got2 = EuclideanSpace::dot(p2, v2);
        ensure!((got2 - (terms[0] + terms[1])).abs() <= 8.0 * E * (terms[0].abs() + terms[1].abs()), "float-point-dot", "Point2 dot({:?}, {:?}) = {:e}", p2, v2, got2);
        // ordinary sizes, all components of v equal
        let (po, ko) = (Point3::new(comp(d), comp(d), comp(d)), d.f64_slog(1e-3, 1e3));
        let vo = Vector3::new(ko, ko, ko);
        let to = [po.x * ko, po.y * ko, po.z * ko];
        let goto_ = EuclideanSpace::dot(po, vo);
        ensure!((goto_ - (to[0] + to[1] + to[2])).abs() <= 8.0 * E * (to[0].abs() + to[1].abs() + to[2].abs()) + 1e-300, "float-point-dot-uniform", "dot({:?}, {:?}) = {:e}", po, vo, goto_);
    }
    // centroid of short and long lists
    let n = match d.int(0, 4) { 0 => d.int(1, 4), 1 => d.int(5, 40), 2 => d.int(41, 300), 3 => d.int(1000, 2600), _ => d.int(250, 520) } as usize;
    let mut pts = Vec::with_capacity(n);
    // long lists are built from a few drawn points repeated with exact sign/scale changes (keeps the draw vector short)
    let base: Vec<Point3<f64>> = (0..n.min(6)).map(|_| Point3::new(comp(d), comp(d), comp(d))).collect();
    for j in 0..n {
        let b = base[j % base.len()];
        let f = [1.0, -0.5, 2.0, 0.25, -1.0, 3.0, 0.75][(j / base.len()) % 7];
        pts.push(Point3::new(b.x * f, b.y * f, b.z * f));
    }
    d.note("n", &n);
    let c = arr(Point3::centroid(&pts));
    for i in 0..3 {
        // compensated reference sum
        let (mut s, mut comp_, mut abs) = (0.0f64, 0.0f64, 0.0f64);
        for pt in &pts {
            let x = arr(*pt)[i];
            let y = x - comp_;
            let t = s + y;
            comp_ = (t - s) - y;
            s = t;
            abs += x.abs();
        }
        let want = s / n as f64;
        ensure!(near(c[i], want, (n as f64 + 4.0) * E * abs / n as f64 + f64::MIN_POSITIVE), "float-centroid", "centroid = (sum of position vectors)/n within the rounding of an n-term sum");
    }
    // homogeneous coordinates: k far from 1 and within a few ulps of 1
    let k = match d.int(0, 3) {
        0 => f64::from_bits((1.0f64.to_bits() as i64 + d.int(-8, 8)) as u64),
        1 => d.f64_slog(1e-150, 1e-3),
        2 => d.f64_slog(1e3, 1e150),
        _ => d.f64_slog(0.1, 10.0),
    };
    d.note("k", &k);
    // bring the points of the homogeneous clause back into 1e-140..1e140 (exact power-of-two rescaling)
    let back_in = |x: f64| if m > 1e140 { x * (2.0f64).powi(-540) } else if m < 1e-140 { x * (2.0f64).powi(540) } else { x };
    let p = Point3::new(back_in(p.x), back_in(p.y), back_in(p.z));
    let pa = [p.x, p.y, p.z];
    let va = [back_in(va[0]), back_in(va[1]), back_in(va[2])];
    let h = p.to_homogeneous();
    ensure!(h.x.to_bits() == p.x.to_bits() && h.y.to_bits() == p.y.to_bits() && h.z.to_bits() == p.z.to_bits() && h.w == 1.0, "float-to_homogeneous", "to_homogeneous(p) = (x,y,z,1) exactly");
    ensure!(arr(Point3::from_homogeneous(h)) == pa, "float-from-to", "from_homogeneous(to_homogeneous(p)) = p exactly (w = 1)");
    let back = arr(Point3::from_homogeneous(h * k));
    for i in 0..3 {
        ensure!(near(back[i], pa[i], 4.0 * E * pa[i].abs()), "float-homogeneous-scale", "from_homogeneous(k * to_homogeneous(p)) = p within 4 eps relative");
    }
    let w = k;
    let g4 = Vector4::new(va[0], va[1], va[2], w);
    let fh = arr(Point3::from_homogeneous(g4));
    for i in 0..3 {
        ensure!(near(fh[i], va[i] / w, 4.0 * E * (va[i] / w).abs()), "float-from_homogeneous", "from_homogeneous(x,y,z,w) = (x,y,z)/w within 4 eps relative");
    }
    let kc = if (k - 1.0).abs() < 1e-14 { "k-within-ulps-of-1" } else if k.abs() < 1e-3 || k.abs() > 1e3 { "k-far-from-1" } else { "k-ordinary" };
    let _ = class;
    pass(kc, k != 1.0 && n >= 2)
}

const RULE: &str = "all components non-zero and pairwise distinct within each point/vector, p != q, k not in {0,1}, list length >= 2";

pub fn property() -> Property {
    let mut s: Vec<SubCheck> = Vec::new();
    const REQ: &[(&str, u32)] = &[("generic", 60)];
    macro_rules! add {
        ($name:expr, $scalar:expr, $f:expr, $q:expr, $t:expr, $len:expr) => {
            s.push(SubCheck { name: $name, scalar: $scalar, quick: $q, thorough: $t, len: $len, f: $f, required: REQ, rule: RULE, exhaustive: false });
        };
    }
    macro_rules! dim {
        ($m:ident, $tag:expr) => {
            add!(concat!("affine-", $tag, "-Q"), "Q", $m::affine::<Q>, 3000, 200_000, 48);
            add!(concat!("affine-", $tag, "-Fp"), "Fp", $m::affine::<Fp>, 2000, 100_000, 48);
            add!(concat!("affine-", $tag, "-i64"), "i64", $m::affine::<i64>, 3000, 200_000, 48);
            add!(concat!("componentwise-", $tag, "-Q"), "Q", $m::componentwise::<Q>, 3000, 200_000, 40);
            add!(concat!("componentwise-", $tag, "-Fp"), "Fp", $m::componentwise::<Fp>, 2000, 100_000, 40);
            add!(concat!("componentwise-", $tag, "-i64"), "i64", $m::componentwise::<i64>, 3000, 200_000, 40);
            add!(concat!("mid_centroid-", $tag, "-Q"), "Q", $m::mid_centroid::<Q>, 3000, 200_000, 120);
            add!(concat!("mid_centroid-", $tag, "-Fp"), "Fp", $m::mid_centroid::<Fp>, 2000, 100_000, 120);
            add!(concat!("mid_centroid-", $tag, "-i64"), "i64", $m::mid_centroid::<i64>, 2000, 100_000, 120);
        };
    }
    dim!(d1, "1");
    dim!(d2, "2");
    dim!(d3, "3");
    add!("homogeneous-Q", "Q", homogeneous::<Q>, 5000, 400_000, 32);
    add!("homogeneous-Fp", "Fp", homogeneous::<Fp>, 5000, 400_000, 32);
    add!("to_homogeneous-i64", "i64", to_homogeneous_int::<i64>, 2000, 100_000, 16);
    s.push(SubCheck { name: "float3-f64", scalar: "f64", quick: 3000, thorough: 400_000, len: 192, f: float3, required: &[("k-within-ulps-of-1", 100), ("k-far-from-1", 200), ("k-ordinary", 100)], rule: "k != 1 and a list of at least two points", exhaustive: false });
    Property {
        id: "C12",
        title: "Points form an affine space over vectors, with exact homogeneous coordinates",
        subchecks: s,
        assumptions: &[
            "fields: Q and Fp; the division-free clauses (and midpoint/centroid with the integer's own truncating division) also over i64 in +-1024",
            "homogeneous scale factors and divisors are non-zero by construction",
            "in Fp the list length n of centroid is invertible (n <= 8 < p)",
            "f64 tier (float3-f64): one magnitude per case from 1e-290..1e300 (1e-140..1e140 for the homogeneous clause, which multiplies by k) so that every quantity in the statement stays in the normal range; tolerances are rounding-only (4 eps relative per clause, n eps for an n-term sum); lists up to 2600 points; k over 1e+-150 and within 8 ulps of 1",
        ],
        fuzz: false,
    }
}
