//! C06 — angle / axis-angle constructors are proper right-handed rotations.

use vcore::engine::*;
use vcore::gen::*;
use vcore::q::Q;
use vcore::refs::*;
use vcore::{ensure, ensure_eq};
use cgmath::prelude::*;
use cgmath::{Basis2, Basis3, Deg, Matrix2, Matrix3, Matrix4, Point2, Point3, Quaternion, Rad};
use cgmath::{Rotation, Rotation2, Rotation3, Vector2, Vector3};

fn exact_3d(d: &mut Draw) -> Outcome {
    let a = unit_vec3::<Q>(d);
    let t1 = named_angle(d, 0);
    let t2 = named_angle(d, 1);
    let t12 = named_sum(&t1, &t2);
    let v = gv3::<Q>(d);
    let p = gp3::<Q>(d);
    d.note("axis", &a);
    d.note("angle t1 (sin,cos)", &(t1.s, t1.c));
    d.note("angle t2 (sin,cos)", &(t2.s, t2.c));
    d.note("v", &v);
    let axis = mk_v3(&a);
    let va = v3(v);
    let want = rodrigues(&a, t1.s, t1.c, &va);
    let ang = Rad(t1.theta);

    let m3 = Matrix3::from_axis_angle(axis, ang);
    let m4 = Matrix4::from_axis_angle(axis, ang);
    let b3: Basis3<Q> = Rotation3::from_axis_angle(axis, ang);
    let qt: Quaternion<Q> = Rotation3::from_axis_angle(axis, ang);
    ensure_eq!(v3(m3 * v), want, "matrix3-rodrigues", "Matrix3::from_axis_angle(a,t) * v vs Rodrigues");
    ensure_eq!(v3((m4 * v.extend(Q::ZERO)).truncate()), want, "matrix4-rodrigues", "Matrix4::from_axis_angle(a,t) * (v,0)");
    ensure_eq!(v3(b3.rotate_vector(v)), want, "basis3-rodrigues", "Basis3::from_axis_angle(a,t).rotate_vector(v)");
    ensure_eq!(v3(qt * v), want, "quaternion-rodrigues", "Quaternion::from_axis_angle(a,t) * v");
    ensure_eq!(m4.rm(), m3.rm().embed(4), "matrix4-embeds-matrix3", "Matrix4::from_axis_angle = Matrix3 embedded");
    // the other ways of applying the same rotation, and of asking for it
    {
        use cgmath::Transform;
        ensure_eq!(v3(Transform::<Point3<Q>>::transform_vector(&m4, v)), want, "matrix4-transform_vector", "Matrix4::from_axis_angle(a,t).transform_vector(v)");
        ensure_eq!(v3(Transform::<Point3<Q>>::transform_vector(&m3, v)), want, "matrix3-transform_vector", "Matrix3::from_axis_angle(a,t).transform_vector(v)");
        ensure_eq!(v3(qt.rotate_vector(v)), want, "quaternion-rotate_vector", "Quaternion::from_axis_angle(a,t).rotate_vector(v)");
        ensure_eq!(v3(&m3 * &v), want, "matrix3-ref-mul", "&Matrix3 * &v");
        ensure_eq!(v3(&qt * &v), want, "quaternion-ref-mul", "&Quaternion * &v");
    }
    ensure_eq!(m3 * axis, axis, "fixes-axis", "R(a,t) a = a");
    ensure_eq!((m3 * m3.transpose()).rm(), RM::ident(3), "orthonormal", "R R^T = I");
    ensure_eq!(m3.determinant(), Q::ONE, "det+1", "det R = +1");
    ensure_eq!(qt.magnitude2(), Q::ONE, "quaternion-unit", "|q|^2 = 1");

    // composition about a common axis: angles add
    let s12 = Rad(t12.theta);
    ensure_eq!(m3 * Matrix3::from_axis_angle(axis, Rad(t2.theta)), Matrix3::from_axis_angle(axis, s12), "matrix3-angles-add", "R(a,t1) R(a,t2) = R(a,t1+t2)");
    ensure_eq!(m4 * Matrix4::from_axis_angle(axis, Rad(t2.theta)), Matrix4::from_axis_angle(axis, s12), "matrix4-angles-add", "Matrix4: R(a,t1) R(a,t2) = R(a,t1+t2)");
    let b2: Basis3<Q> = Rotation3::from_axis_angle(axis, Rad(t2.theta));
    let b12: Basis3<Q> = Rotation3::from_axis_angle(axis, s12);
    ensure_eq!(b3 * b2, b12, "basis3-angles-add", "Basis3: angles add");
    let q2: Quaternion<Q> = Rotation3::from_axis_angle(axis, Rad(t2.theta));
    let q12: Quaternion<Q> = Rotation3::from_axis_angle(axis, s12);
    ensure_eq!(qt * q2, q12, "quaternion-angles-add", "Quaternion: angles add (half angles add)");

    // inverse and points
    ensure_eq!(qt * Rotation::invert(&qt), Quaternion::one(), "quaternion-invert", "q * invert(q) = one()");
    ensure_eq!(b3 * Rotation::invert(&b3), Basis3::one(), "basis3-invert", "b * invert(b) = one()");
    ensure_eq!(qt.rotate_point(p), Point3::origin() + qt.rotate_vector(p - Point3::origin()), "quaternion-rotate_point", "rotate_point(p) = origin + rotate_vector(p - origin)");
    ensure_eq!(b3.rotate_point(p), Point3::origin() + b3.rotate_vector(p - Point3::origin()), "basis3-rotate_point", "Basis3 rotate_point");

    let nt = generic_entries(&a) && t1.s != Q::ZERO && t1.c != Q::ZERO && t1.s.abs_() != t1.c.abs_() && generic_entries(&va);
    pass(if nt { "generic" } else { "degenerate" }, nt)
}

fn exact_axes(d: &mut Draw) -> Outcome {
    let t = named_angle(d, 0);
    let v = gv3::<Q>(d);
    d.note("angle (sin,cos)", &(t.s, t.c));
    d.note("v", &v);
    let ang = Rad(t.theta);
    let (ux, uy, uz) = (Vector3::<Q>::unit_x(), Vector3::<Q>::unit_y(), Vector3::<Q>::unit_z());
    let refs = [rot_x(t.s, t.c), rot_y(t.s, t.c), rot_z(t.s, t.c)];
    // Matrix3
    let m = [Matrix3::from_angle_x(ang), Matrix3::from_angle_y(ang), Matrix3::from_angle_z(ang)];
    let g = [Matrix3::from_axis_angle(ux, ang), Matrix3::from_axis_angle(uy, ang), Matrix3::from_axis_angle(uz, ang)];
    let names = ["x", "y", "z"];
    for i in 0..3 {
        ensure_eq!(m[i].rm(), refs[i], "matrix3-from_angle-table", "Matrix3::from_angle_{} vs right-handed reference", names[i]);
        ensure_eq!(m[i], g[i], "matrix3-from_angle-vs-axis_angle", "Matrix3::from_angle_{} vs from_axis_angle(unit_{})", names[i], names[i]);
    }
    let m = [Matrix4::from_angle_x(ang), Matrix4::from_angle_y(ang), Matrix4::from_angle_z(ang)];
    let g = [Matrix4::from_axis_angle(ux, ang), Matrix4::from_axis_angle(uy, ang), Matrix4::from_axis_angle(uz, ang)];
    for i in 0..3 {
        ensure_eq!(m[i].rm(), refs[i].embed(4), "matrix4-from_angle-table", "Matrix4::from_angle_{} vs reference", names[i]);
        ensure_eq!(m[i], g[i], "matrix4-from_angle-vs-axis_angle", "Matrix4::from_angle_{} vs from_axis_angle", names[i]);
    }
    let b: [Basis3<Q>; 3] = [Rotation3::from_angle_x(ang), Rotation3::from_angle_y(ang), Rotation3::from_angle_z(ang)];
    let g: [Basis3<Q>; 3] = [Rotation3::from_axis_angle(ux, ang), Rotation3::from_axis_angle(uy, ang), Rotation3::from_axis_angle(uz, ang)];
    for i in 0..3 {
        ensure_eq!(Matrix3::from(b[i]).rm(), refs[i], "basis3-from_angle-table", "Basis3::from_angle_{} vs reference", names[i]);
        ensure_eq!(b[i], g[i], "basis3-from_angle-vs-axis_angle", "Basis3::from_angle_{} vs from_axis_angle", names[i]);
    }
    let q: [Quaternion<Q>; 3] = [Rotation3::from_angle_x(ang), Rotation3::from_angle_y(ang), Rotation3::from_angle_z(ang)];
    let g: [Quaternion<Q>; 3] = [Rotation3::from_axis_angle(ux, ang), Rotation3::from_axis_angle(uy, ang), Rotation3::from_axis_angle(uz, ang)];
    for i in 0..3 {
        ensure_eq!(q[i], g[i], "quaternion-from_angle-vs-axis_angle", "Quaternion::from_angle_{} vs from_axis_angle", names[i]);
        ensure_eq!(v3(q[i] * v).to_vec(), refs[i].mulv(&v3(v)), "quaternion-from_angle-action", "Quaternion::from_angle_{} acting on v", names[i]);
    }
    let nt = t.s != Q::ZERO && t.c != Q::ZERO && t.s.abs_() != t.c.abs_() && generic_entries(&v3(v));
    pass(if nt { "generic" } else { "degenerate" }, nt)
}

fn exact_2d(d: &mut Draw) -> Outcome {
    let t1 = named_angle(d, 0);
    let t2 = named_angle(d, 1);
    let t12 = named_sum(&t1, &t2);
    let v = gv2::<Q>(d);
    let p = gp2::<Q>(d);
    d.note("t1 (sin,cos)", &(t1.s, t1.c));
    d.note("t2 (sin,cos)", &(t2.s, t2.c));
    d.note("v", &v);
    let m = Matrix2::from_angle(Rad(t1.theta));
    let b: Basis2<Q> = Rotation2::from_angle(Rad(t1.theta));
    let (ex, ey) = (Vector2::<Q>::unit_x(), Vector2::<Q>::unit_y());
    ensure_eq!(m * ex, Vector2::new(t1.c, t1.s), "matrix2-ex", "Matrix2::from_angle(t) (1,0) = (cos t, sin t)");
    ensure_eq!(m * ey, Vector2::new(-t1.s, t1.c), "matrix2-ey", "Matrix2::from_angle(t) (0,1) = (-sin t, cos t)");
    ensure_eq!(b.rotate_vector(ex), Vector2::new(t1.c, t1.s), "basis2-ex", "Basis2::from_angle(t) (1,0)");
    ensure_eq!(b.rotate_vector(ey), Vector2::new(-t1.s, t1.c), "basis2-ey", "Basis2::from_angle(t) (0,1)");
    ensure_eq!(Matrix2::from(b), m, "basis2-matrix", "Matrix2::from(Basis2::from_angle(t))");
    ensure_eq!(*b.as_ref(), m, "basis2-as_ref", "Basis2::as_ref()");
    ensure_eq!(b.rotate_vector(v), Vector2::new(t1.c * v.x - t1.s * v.y, t1.s * v.x + t1.c * v.y), "basis2-action", "Basis2 rotation of a generic vector");
    let m2 = Matrix2::from_angle(Rad(t2.theta));
    ensure_eq!(m * m2, Matrix2::from_angle(Rad(t12.theta)), "matrix2-angles-add", "R(t1) R(t2) = R(t1+t2)");
    let b2: Basis2<Q> = Rotation2::from_angle(Rad(t2.theta));
    let b12: Basis2<Q> = Rotation2::from_angle(Rad(t12.theta));
    ensure_eq!(b * b2, b12, "basis2-angles-add", "Basis2: angles add");
    ensure_eq!(b * Rotation::invert(&b), Basis2::one(), "basis2-invert", "b * invert(b) = one()");
    ensure_eq!(b.rotate_point(p), Point2::origin() + b.rotate_vector(p - Point2::origin()), "basis2-rotate_point", "rotate_point(p) = origin + rotate_vector(p - origin)");
    ensure_eq!(m.determinant(), Q::ONE, "matrix2-det", "det = +1");
    let nt = t1.s != Q::ZERO && t1.c != Q::ZERO && t1.s.abs_() != t1.c.abs_() && generic_entries(&v2(v));
    pass(if nt { "generic" } else { "degenerate" }, nt)
}

fn f64_3d(d: &mut Draw) -> Outcome {
    // a generic unit axis, or one a hair (1e-11 .. 1e-4) off a coordinate axis: below 1.5e-8 the dominant component of
    // the normalised axis is exactly +-1.0 although the axis is not the coordinate axis
    let a = if d.chance(1, 6) {
        let k = d.below(3);
        let mut v = [0.0f64; 3];
        v[k] = if d.bool() { 1.0 } else { -1.0 };
        for i in 0..3 {
            if i != k && d.chance(2, 3) {
                v[i] = d.f64_slog(1e-11, 1e-4);
            }
        }
        fnormalize3(&v)
    } else {
        f_unit3(d)
    };
    let use_deg = d.bool();
    let gen_t = |d: &mut Draw| match d.int(0, 6) {
        0 => d.f64_slog(1e-14, 1e-2),
        1 => (d.int(-12, 12) as f64) * std::f64::consts::FRAC_PI_2 + d.f64_slog(1e-14, 1e-3),
        // many turns: sin/cos of the float angle itself are what the statement names, whatever its size
        2 => d.f64_slog(20.0, 1e15),
        // exactly the float nearest to a multiple of a quarter turn, either sign
        3 => (d.int(-12, 12) as f64) * std::f64::consts::FRAC_PI_2,
        _ => d.f64_in(-20.0, 20.0),
    };
    let t = gen_t(d);
    let t2 = if t.abs() > 20.0 { d.f64_in(-20.0, 20.0) } else { gen_t(d) };
    let v = Vector3::from(f_vec3(d, -10.0, 10.0));
    d.note("axis", &a);
    d.note("angle(rad), given as Deg?", &(t, use_deg));
    d.note("v", &v);
    let axis = Vector3::from(a);
    let want = Vector3::from(rodrigues(&a, t.sin(), t.cos(), &v3(v)));
    // a Deg argument reaches the trigonometric functions through one rounded multiplication: 2 eps |t| in the angle
    let conv = if use_deg { 4.0 * f64::EPSILON * t.abs() } else { 0.0 };
    let tol = (1e-12 + conv) * (1.0 + v.magnitude());
    // (an exact quarter-turn multiple is handed over as the exact number of degrees)
    let q4 = t / std::f64::consts::FRAC_PI_2;
    let deg = if q4 == q4.round() && q4.abs() <= 12.0 { Deg(q4 * 90.0) } else { Deg(t * 180.0 / std::f64::consts::PI) };
    let (m3, m4, b3, qt): (Matrix3<f64>, Matrix4<f64>, Basis3<f64>, Quaternion<f64>) = if use_deg {
        (Matrix3::from_axis_angle(axis, deg), Matrix4::from_axis_angle(axis, deg), Rotation3::from_axis_angle(axis, deg), Rotation3::from_axis_angle(axis, deg))
    } else {
        (Matrix3::from_axis_angle(axis, Rad(t)), Matrix4::from_axis_angle(axis, Rad(t)), Rotation3::from_axis_angle(axis, Rad(t)), Rotation3::from_axis_angle(axis, Rad(t)))
    };
    let pt = Point3::from_vec(v);
    for (name, got) in [
        ("matrix3-rodrigues-f64", m3 * v),
        ("matrix4-rodrigues-f64", (m4 * v.extend(0.0)).truncate()),
        ("basis3-rodrigues-f64", b3.rotate_vector(v)),
        ("quaternion-rodrigues-f64", qt * v),
        ("quaternion-rotate_vector-f64", qt.rotate_vector(v)),
        ("quaternion-rotate_point-f64", qt.rotate_point(pt).to_vec()),
        ("basis3-rotate_point-f64", b3.rotate_point(pt).to_vec()),
        ("matrix4-transform_point-f64", cgmath::Transform::<Point3<f64>>::transform_point(&m4, pt).to_vec()),
        ("matrix4-transform_vector-f64", cgmath::Transform::<Point3<f64>>::transform_vector(&m4, v)),
        ("matrix3-transform_point-f64", cgmath::Transform::<Point3<f64>>::transform_point(&m3, pt).to_vec()),
    ] {
        let e = (got - want).magnitude();
        if !(e <= tol) {
            return Outcome::Fail { sig: name, msg: format!("differs from Rodrigues' formula by {:e} (tolerance {:e})", e, tol) };
        }
    }
    // "maps every v": also a v whose largest component lies in the upper half of the top binade (above MAX/2, the others
    // at most a tenth of MAX), turned through a small angle so that every quantity of Rodrigues' formula is a finite number
    {
        let ts = d.f64_slog(1e-3, 0.1);
        let k = d.below(3);
        let mut w = [0.0f64; 3];
        for i in 0..3 {
            w[i] = if i == k { f64::MAX * (0.5 + 0.05 * d.unit()) } else { f64::MAX * 0.1 * d.unit() } * if d.bool() { 1.0 } else { -1.0 };
        }
        d.note("small angle, top-binade vector", &(ts, w));
        let wv = Vector3::from(w);
        let wp = Point3::from_vec(wv);
        let wantw = rodrigues(&a, ts.sin(), ts.cos(), &w);
        let (sm3, sm4, sb3, sq): (Matrix3<f64>, Matrix4<f64>, Basis3<f64>, Quaternion<f64>) =
            (Matrix3::from_axis_angle(axis, Rad(ts)), Matrix4::from_axis_angle(axis, Rad(ts)), Rotation3::from_axis_angle(axis, Rad(ts)), Rotation3::from_axis_angle(axis, Rad(ts)));
        let tolw = 1e-12 * w[k].abs();
        for (name, got) in [
            ("matrix3-rodrigues-top-binade-f64", sm3 * wv),
            ("matrix4-rodrigues-top-binade-f64", (sm4 * wv.extend(0.0)).truncate()),
            ("basis3-rodrigues-top-binade-f64", sb3.rotate_vector(wv)),
            ("quaternion-rodrigues-top-binade-f64", sq * wv),
            ("quaternion-rotate_vector-top-binade-f64", sq.rotate_vector(wv)),
            ("quaternion-rotate_point-top-binade-f64", sq.rotate_point(wp).to_vec()),
            ("basis3-rotate_point-top-binade-f64", sb3.rotate_point(wp).to_vec()),
        ] {
            let e = (got.x - wantw[0]).abs().max((got.y - wantw[1]).abs()).max((got.z - wantw[2]).abs());
            if !(e <= tolw) {
                return Outcome::Fail { sig: name, msg: format!("a vector with a component above MAX/2, turned by {:e} rad: {:?}, Rodrigues' formula gives {:?}", ts, got, wantw) };
            }
        }
    }
    // axis constructors (Rad and Deg)
    let refs = [rot_x(t.sin(), t.cos()), rot_y(t.sin(), t.cos()), rot_z(t.sin(), t.cos())];
    let ms: [Matrix3<f64>; 3] = if use_deg {
        [Matrix3::from_angle_x(deg), Matrix3::from_angle_y(deg), Matrix3::from_angle_z(deg)]
    } else {
        [Matrix3::from_angle_x(Rad(t)), Matrix3::from_angle_y(Rad(t)), Matrix3::from_angle_z(Rad(t))]
    };
    let qs: [Quaternion<f64>; 3] = if use_deg {
        [Rotation3::from_angle_x(deg), Rotation3::from_angle_y(deg), Rotation3::from_angle_z(deg)]
    } else {
        [Rotation3::from_angle_x(Rad(t)), Rotation3::from_angle_y(Rad(t)), Rotation3::from_angle_z(Rad(t))]
    };
    for i in 0..3 {
        let e = ms[i].rm().max_abs_diff(&refs[i]);
        ensure!(e <= 1e-12 + conv, "matrix3-from_angle-f64", "Matrix3::from_angle_{} differs from the reference by {:e}", ["x", "y", "z"][i], e);
        let e = Matrix3::from(qs[i]).rm().max_abs_diff(&refs[i]);
        ensure!(e <= 1e-12 + conv, "quaternion-from_angle-f64", "Quaternion::from_angle_{} differs from the reference by {:e}", ["x", "y", "z"][i], e);
    }
    // the same constructors of the other two representations, against the Matrix3 ones (Rad and Deg)
    {
        let m4s: [Matrix4<f64>; 3] = if use_deg { [Matrix4::from_angle_x(deg), Matrix4::from_angle_y(deg), Matrix4::from_angle_z(deg)] } else { [Matrix4::from_angle_x(Rad(t)), Matrix4::from_angle_y(Rad(t)), Matrix4::from_angle_z(Rad(t))] };
        let b3s: [Basis3<f64>; 3] = if use_deg { [Rotation3::from_angle_x(deg), Rotation3::from_angle_y(deg), Rotation3::from_angle_z(deg)] } else { [Rotation3::from_angle_x(Rad(t)), Rotation3::from_angle_y(Rad(t)), Rotation3::from_angle_z(Rad(t))] };
        for i in 0..3 {
            let e = m4s[i].rm().max_abs_diff(&refs[i].embed(4));
            ensure!(e <= 1e-12 + conv, "matrix4-from_angle-f64", "Matrix4::from_angle_{} differs from the reference (embedded) by {:e}", ["x", "y", "z"][i], e);
            let e = Matrix3::from(b3s[i]).rm().max_abs_diff(&refs[i]);
            ensure!(e <= 1e-12 + conv, "basis3-from_angle-f64", "Basis3::from_angle_{} differs from the reference by {:e}", ["x", "y", "z"][i], e);
        }
    }
    // rotate_point(p) = origin + rotate_vector(p - origin) for points of any size, down to the subnormal range
    {
        let e = d.int(-1060, 60) as i32;
        let sc = |x: f64| x * (2.0f64).powi(e / 2) * (2.0f64).powi(e - e / 2);
        let p = Point3::new(sc(v.x), sc(v.y), sc(v.z));
        let big = p.x.abs().max(p.y.abs()).max(p.z.abs());
        for (name, rp, rv) in [("Quaternion", qt.rotate_point(p), qt.rotate_vector(p.to_vec())), ("Basis3", b3.rotate_point(p), b3.rotate_vector(p.to_vec()))] {
            ensure!((rp.x - rv.x).abs() <= 4.0 * f64::EPSILON * big && (rp.y - rv.y).abs() <= 4.0 * f64::EPSILON * big && (rp.z - rv.z).abs() <= 4.0 * f64::EPSILON * big, "rotate_point-small-f64",
                "{}::rotate_point({:?}) = {:?} but rotate_vector of its position vector is {:?}", name, p, rp, rv);
        }
    }
    // composition about a common axis
    let q2: Quaternion<f64> = Rotation3::from_axis_angle(axis, Rad(t2));
    let q12: Quaternion<f64> = Rotation3::from_axis_angle(axis, Rad(t + t2));
    let e = ((qt * q2) * v - q12 * v).magnitude();
    // t + t2 is rounded once: eps |t + t2| in the angle
    ensure!(e <= 4.0 * tol + 2.0 * f64::EPSILON * (t + t2).abs() * (1.0 + v.magnitude()), "angles-add-f64", "R(a,t1)R(a,t2) vs R(a,t1+t2) differ by {:e} on v", e);
    let nt = t.sin().abs() > 1e-3 && t.cos().abs() > 1e-3 && a.iter().all(|c| c.abs() > 1e-3);
    // any finite angle gives a rotation: at magnitudes where a value comparison is meaningless (the radian measure of a
    // huge Deg is only known to whole turns) the result must still be finite, orthonormal and proper
    {
        let huge = d.f64_slog(1e290, f64::MAX);
        let (hm3, hq, hb3, hm4, hm2): (Matrix3<f64>, Quaternion<f64>, Basis3<f64>, Matrix4<f64>, Matrix2<f64>) = if d.bool() {
            (Matrix3::from_axis_angle(axis, Deg(huge)), Rotation3::from_axis_angle(axis, Deg(huge)), Rotation3::from_angle_y(Deg(huge)), Matrix4::from_angle_x(Deg(huge)), Matrix2::from_angle(Deg(huge)))
        } else {
            (Matrix3::from_axis_angle(axis, Rad(huge)), Rotation3::from_axis_angle(axis, Rad(huge)), Rotation3::from_angle_y(Rad(huge)), Matrix4::from_angle_x(Rad(huge)), Matrix2::from_angle(Rad(huge)))
        };
        let e = (hm3 * hm3.transpose()).rm().max_abs_diff(&RM::ident(3));
        ensure!(e <= 1e-12 && (hm3.determinant() - 1.0).abs() <= 1e-12, "huge-angle-matrix3", "from_axis_angle with an angle of {:e}: R R^T - I = {:e}, det = {}", huge, e, hm3.determinant());
        ensure!((hq.magnitude() - 1.0).abs() <= 1e-12, "huge-angle-quaternion", "from_axis_angle with an angle of {:e}: |q| = {}", huge, hq.magnitude());
        let mb: Matrix3<f64> = hb3.into();
        ensure!((mb * mb.transpose()).rm().max_abs_diff(&RM::ident(3)) <= 1e-12, "huge-angle-basis3", "Basis3::from_angle_y with an angle of {:e} is not orthonormal", huge);
        ensure!((hm4 * hm4.transpose()).rm().max_abs_diff(&RM::ident(4)) <= 1e-12, "huge-angle-matrix4", "Matrix4::from_angle_x with an angle of {:e} is not orthonormal", huge);
        ensure!((hm2 * hm2.transpose()).rm().max_abs_diff(&RM::ident(2)) <= 1e-12 && (hm2.determinant() - 1.0).abs() <= 1e-12, "huge-angle-matrix2", "Matrix2::from_angle with an angle of {:e} is not a rotation", huge);
    }
    pass(if use_deg { "deg" } else { "rad" }, nt)
}

fn f64_2d(d: &mut Draw) -> Outcome {
    let use_deg = d.bool();
    let t = match d.int(0, 6) {
        0 => d.f64_slog(1e-14, 1e-2),
        1 => (d.int(-12, 12) as f64) * std::f64::consts::FRAC_PI_2 + d.f64_slog(1e-14, 1e-3),
        2 => d.f64_slog(20.0, 1e15),
        3 => (d.int(-12, 12) as f64) * std::f64::consts::FRAC_PI_2,
        _ => d.f64_in(-20.0, 20.0),
    };
    d.note("angle(rad), given as Deg?", &(t, use_deg));
    let deg = Deg(t * 180.0 / std::f64::consts::PI);
    let tol2 = 1e-12 + if use_deg { 4.0 * f64::EPSILON * t.abs() } else { 0.0 };
    let (m, b): (Matrix2<f64>, Basis2<f64>) =
        if use_deg { (Matrix2::from_angle(deg), Rotation2::from_angle(deg)) } else { (Matrix2::from_angle(Rad(t)), Rotation2::from_angle(Rad(t))) };
    let (s, c) = (t.sin(), t.cos());
    let ex = m * Vector2::unit_x();
    let ey = m * Vector2::unit_y();
    ensure!((ex - Vector2::new(c, s)).magnitude() <= tol2, "matrix2-ex-f64", "(1,0) -> {:?}, expected ({}, {})", ex, c, s);
    ensure!((ey - Vector2::new(-s, c)).magnitude() <= tol2, "matrix2-ey-f64", "(0,1) -> {:?}, expected ({}, {})", ey, -s, c);
    let bx = b.rotate_vector(Vector2::unit_x());
    ensure!((bx - Vector2::new(c, s)).magnitude() <= tol2, "basis2-ex-f64", "Basis2 (1,0) -> {:?}", bx);
    // rotate_point(p) = origin + rotate_vector(p - origin) for points of any size, down to the subnormal range: a point
    // next to the origin is still not the origin
    {
        let e = d.int(-1060, 60) as i32;
        let sc = |x: f64| x * (2.0f64).powi(e / 2) * (2.0f64).powi(e - e / 2);
        let p = Point2::new(sc(d.f64_in(-10.0, 10.0)), sc(d.f64_in(-10.0, 10.0)));
        let (rp, rv) = (b.rotate_point(p), b.rotate_vector(p.to_vec()));
        let big = p.x.abs().max(p.y.abs());
        ensure!((rp.x - rv.x).abs() <= 4.0 * f64::EPSILON * big && (rp.y - rv.y).abs() <= 4.0 * f64::EPSILON * big, "basis2-rotate_point-f64",
            "Basis2::rotate_point({:?}) = {:?} but rotate_vector of its position vector is {:?}", p, rp, rv);
        let mv = m * p.to_vec();
        ensure!((rv.x - mv.x).abs() <= 4.0 * f64::EPSILON * big && (rv.y - mv.y).abs() <= 4.0 * f64::EPSILON * big, "basis2-rotate_vector-f64", "Basis2::rotate_vector({:?}) = {:?}, Matrix2 * v = {:?}", p.to_vec(), rv, mv);
    }
    pass(if use_deg { "deg" } else { "rad" }, s.abs() > 1e-3 && c.abs() > 1e-3)
}

/// native floats: r * invert(r) = invert(r) * r = one() for every rotation value r - a constructor's output, or what the
/// library's own composition makes of up to 2600 such outputs (about a common axis, or about several): the product of
/// rotations is the rotation r the clause speaks of, rounding drift and all, and invert(r) is its inverse, not that of
/// an idealised r
macro_rules! invert_composed {
    ($fname:ident, $F:ty) => {
        fn $fname(d: &mut Draw) -> Outcome {
            type F = $F;
            let n = match d.int(0, 4) {
                0 => 1,
                1 => d.int(2, 12),
                2 => d.int(13, 300),
                _ => d.int(301, 2600),
            } as usize;
            let common = d.bool();
            let axes: Vec<Vector3<F>> = (0..3).map(|_| { let a = f_unit3(d); Vector3::new(a[0] as F, a[1] as F, a[2] as F).normalize() }).collect();
            let angs: Vec<F> = (0..4).map(|_| if d.chance(1, 4) { (d.int(-360, 360) as F).to_radians() } else { d.f64_in(-3.2, 3.2) as F }).collect();
            let v = Vector3::new(d.f64_in(-10.0, 10.0) as F, d.f64_in(-10.0, 10.0) as F, d.f64_in(-10.0, 10.0) as F);
            d.note("factors, common axis?", &(n, common));
            d.note("axes", &axes);
            d.note("angles (rad), used cyclically", &angs);
            let ax = |j: usize| if common { axes[0] } else { axes[j % 3] };
            let qs: Vec<Quaternion<F>> = (0..n).map(|j| Rotation3::from_axis_angle(ax(j), Rad(angs[j % 4]))).collect();
            let bs: Vec<Basis3<F>> = (0..n).map(|j| Rotation3::from_axis_angle(ax(j), Rad(angs[j % 4]))).collect();
            let b2s: Vec<Basis2<F>> = (0..n).map(|j| Rotation2::from_angle(Rad(angs[j % 4]))).collect();
            let folded: (Quaternion<F>, Basis3<F>, Basis2<F>) =
                (qs.iter().fold(Quaternion::one(), |a, x| a * *x), bs.iter().fold(Basis3::one(), |a, x| a * *x), b2s.iter().fold(Basis2::one(), |a, x| a * *x));
            // n-ary composition as the Rotation trait requires it (iter::Product over values, and over references), fed from
            // sized, unsized (size_hint lower bound 0) and generator iterators: each is the composition the fold spells out
            let spelling = d.int(0, 5);
            let (q, b, b2): (Quaternion<F>, Basis3<F>, Basis2<F>) = match spelling {
                0 => folded,
                1 => (qs.iter().product(), bs.iter().product(), b2s.iter().product()),
                2 => (qs.iter().cloned().product(), bs.iter().cloned().product(), b2s.iter().cloned().product()),
                3 => (qs.iter().filter(|_| true).product(), bs.iter().filter(|_| true).product(), b2s.iter().filter(|_| true).product()),
                4 => (qs.iter().cloned().filter(|_| true).product(), bs.iter().cloned().filter(|_| true).product(), b2s.iter().cloned().filter(|_| true).product()),
                _ => {
                    let (mut i, mut j, mut k) = (0usize, 0usize, 0usize);
                    (std::iter::from_fn(|| { i += 1; qs.get(i - 1).cloned() }).product(),
                     std::iter::from_fn(|| { j += 1; bs.get(j - 1).cloned() }).product(),
                     std::iter::from_fn(|| { k += 1; b2s.get(k - 1).cloned() }).product())
                }
            };
            {
                let ptol = (n as F + 8.0) * 8.0 * F::EPSILON;
                let e = (q.s - folded.0.s).abs().max((q.v.x - folded.0.v.x).abs()).max((q.v.y - folded.0.v.y).abs()).max((q.v.z - folded.0.v.z).abs());
                ensure!(e <= ptol, "quaternion-product-is-composition", "Product spelling {} of {} quaternion rotations differs from their left-to-right composition by {:e}", spelling, n, e);
                let (m, mf): (Matrix3<F>, Matrix3<F>) = (b.into(), folded.1.into());
                let e = m.rm().max_abs_diff(&mf.rm());
                ensure!(e <= ptol, "basis3-product-is-composition", "Product spelling {} of {} Basis3 rotations differs from their left-to-right composition by {:e}", spelling, n, e);
                let (m, mf): (Matrix2<F>, Matrix2<F>) = (b2.into(), folded.2.into());
                let e = m.rm().max_abs_diff(&mf.rm());
                ensure!(e <= ptol, "basis2-product-is-composition", "Product spelling {} of {} Basis2 rotations differs from their left-to-right composition by {:e}", spelling, n, e);
            }
            let tol = 64.0 * F::EPSILON;
            let vl = v.x.abs() + v.y.abs() + v.z.abs();
            // quaternion
            let qi = Rotation::invert(&q);
            for (name, pr) in [("q * invert(q)", q * qi), ("invert(q) * q", qi * q)] {
                let e = (pr.s - 1.0).abs().max(pr.v.x.abs()).max(pr.v.y.abs()).max(pr.v.z.abs());
                ensure!(e <= tol, "quaternion-invert", "{} differs from one() by {:e} for the product of {} rotations (|q| = {:?})", name, e, n, q.magnitude());
            }
            // (q * v is the rotation formula only for unit q, so "invert undoes rotate_vector" is not claimed of a drifted
            // quaternion - the clause is about the product of the two values)
            // Basis3
            let bi = Rotation::invert(&b);
            for (name, pr) in [("b * invert(b)", b * bi), ("invert(b) * b", bi * b)] {
                let m: Matrix3<F> = pr.into();
                let e = m.rm().max_abs_diff(&RM::ident(3));
                ensure!(e <= tol, "basis3-invert", "{} differs from one() by {:e} for the product of {} rotations", name, e, n);
            }
            let back = bi.rotate_vector(b.rotate_vector(v));
            ensure!((back - v).magnitude() <= 4.0 * tol * vl, "basis3-invert-undoes", "invert(b) does not undo b on v: off by {:e}", (back - v).magnitude());
            // Basis2
            let b2i = Rotation::invert(&b2);
            for (name, pr) in [("b * invert(b)", b2 * b2i), ("invert(b) * b", b2i * b2)] {
                let m: Matrix2<F> = pr.into();
                let e = m.rm().max_abs_diff(&RM::ident(2));
                ensure!(e <= tol, "basis2-invert", "{} differs from one() by {:e} for the product of {} plane rotations", name, e, n);
            }
            let v2 = Vector2::new(v.x, v.y);
            let back = b2i.rotate_vector(b2.rotate_vector(v2));
            ensure!((back - v2).magnitude() <= 4.0 * tol * vl, "basis2-invert-undoes", "invert(b) does not undo b on v: off by {:e}", (back - v2).magnitude());
            pass(if n == 1 { "constructor-output" } else if n <= 12 { "2-to-12-factors" } else if n <= 300 { "13-to-300-factors" } else { "301-to-2600-factors" }, true)
        }
    };
}
invert_composed!(invert_composed_f64, f64);
invert_composed!(invert_composed_f32, f32);

const RULE: &str = "sin t and cos t both non-zero with |sin t| != |cos t|; axis with three distinct non-zero components; generic vector";

pub fn property() -> Property {
    let mut s = Vec::new();
    macro_rules! add {
        ($name:expr, $scalar:expr, $f:expr, $q:expr, $t:expr, $len:expr, $req:expr) => {
            s.push(SubCheck { name: $name, scalar: $scalar, quick: $q, thorough: $t, len: $len, f: $f, required: $req, rule: RULE, exhaustive: false });
        };
    }
    add!("axis_angle-Q", "Q", exact_3d, 4000, 250_000, 48, &[("generic", 100)]);
    add!("from_angle_xyz-Q", "Q", exact_axes, 4000, 250_000, 24, &[("generic", 200)]);
    add!("from_angle_2d-Q", "Q", exact_2d, 4000, 250_000, 32, &[("generic", 200)]);
    add!("axis_angle-f64", "f64", f64_3d, 6000, 400_000, 112, &[("rad", 200), ("deg", 200)]);
    add!("from_angle_2d-f64", "f64", f64_2d, 4000, 200_000, 32, &[("rad", 200), ("deg", 200)]);
    const INV: &[(&str, u32)] = &[("constructor-output", 100), ("2-to-12-factors", 100), ("13-to-300-factors", 100), ("301-to-2600-factors", 200)];
    add!("invert_composed-f64", "f64", invert_composed_f64, 400, 20_000, 80, INV);
    add!("invert_composed-f32", "f32", invert_composed_f32, 400, 20_000, 80, INV);
    Property {
        id: "C06",
        title: "Angle and axis-angle constructors give proper right-handed rotations",
        subchecks: s,
        assumptions: &[
            "axes are exactly unit (rational points of the sphere) in Q and normalised in f64; non-unit axes are outside the statement",
            "Q tier: angles are *named* — a registry maps the rational name theta to an exact rational point (cos, sin) of the unit circle and theta/2 to its half-angle pair, so every identity following from sin^2+cos^2=1 and the angle-addition formulas is decided with ==",
            "f64 tier: real sin/cos from libm evaluated on the float angle itself; |t| <= 20 rad, tiny angles, neighbourhoods of quarter-turn multiples, and many-turn angles up to 1e15 rad; tolerance 1e-12 (1+|v|), plus 4 eps |t| when the angle is handed over as Deg (one rounded conversion); catches a wrong angle being passed (missing half, Deg/Rad confusion)",
        ],
        fuzz: false,
    }
}
