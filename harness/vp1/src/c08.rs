//! C08 — transforms compose, invert and convert to matrices consistently.

use vcore::engine::*;
use vcore::gen::*;
use vcore::q::{Fp, Q};
use vcore::refs::*;
use vcore::{ensure, ensure_eq, ensure_eq_r, ensure_r};
use cgmath::prelude::*;
use cgmath::{Basis2, Basis3, Decomposed, Matrix3, Matrix4, Point2, Point3, Quaternion, Rad, Rotation2, Transform, Vector2, Vector3};
use std::fmt::Debug;

type DQ<S> = Decomposed<Vector3<S>, Quaternion<S>>;
type DB3<S> = Decomposed<Vector3<S>, Basis3<S>>;
type DB2<S> = Decomposed<Vector2<S>, Basis2<S>>;

fn gscale<S: Sc>(d: &mut Draw) -> S {
    if d.chance(1, 8) {
        S::zero()
    } else {
        S::gen_nz(d)
    }
}
fn unit_q<S: Sc>(d: &mut Draw) -> Quaternion<S> {
    let u = unit_quat::<S>(d);
    let (o, z) = (S::one(), S::zero());
    let k = d.pick(&[[o, z, z, z], [z, o, z, z], [z, z, o, z], [z, z, z, o]]);
    mk_q(&qmul(&u, &k))
}
fn g_dq<S: Sc>(d: &mut Draw) -> DQ<S> {
    Decomposed { scale: gscale(d), rot: unit_q(d), disp: gv3(d) }
}
fn g_db3<S: Sc>(d: &mut Draw) -> DB3<S> {
    Decomposed { scale: gscale(d), rot: Basis3::from(unit_q::<S>(d)), disp: gv3(d) }
}
fn g_db2(d: &mut Draw, id: i64) -> DB2<Q> {
    let a = named_angle(d, id);
    Decomposed { scale: gscale::<Q>(d), rot: Rotation2::from_angle(Rad(a.theta)), disp: gv2(d) }
}
/// n x n matrix, now and then exactly singular
fn g_lin<S: Sc>(d: &mut Draw, n: usize) -> RM<S> {
    let mut m = grm::<S>(d, n);
    if d.chance(1, 6) {
        let k = d.below(n);
        let coef: Vec<S> = (0..n).map(|_| S::gen(d)).collect();
        for r in 0..n {
            let mut s = S::zero();
            for c in 0..n {
                if c != k {
                    s = s + m.e[c][r] * coef[c];
                }
            }
            m.e[k][r] = s;
        }
    }
    m
}
fn g_affine4<S: Sc>(d: &mut Draw) -> Matrix4<S> {
    let mut m = g_lin::<S>(d, 3).embed(4);
    for r in 0..3 {
        m.e[3][r] = S::gen(d);
    }
    mk_m4(&m)
}
fn g_affine3<S: Sc>(d: &mut Draw) -> Matrix3<S> {
    let mut m = g_lin::<S>(d, 2).embed(3);
    for r in 0..2 {
        m.e[2][r] = S::gen(d);
    }
    mk_m3(&m)
}

fn one_like<T: num_traits::One>(_: &T) -> T {
    T::one()
}

/// the laws every Transform implementation must satisfy; `affine`: vectors clauses apply
fn laws<S, P, T>(s: &T, t: &T, p: P, v: P::Diff, affine: bool, invertible: bool, who: &str) -> Result<(), Outcome>
where
    S: Sc,
    P: EuclideanSpace<Scalar = S> + Debug + PartialEq,
    P::Diff: Debug + PartialEq + Copy,
    T: Transform<P> + Copy + Debug + PartialEq,
{
    let c = s.concat(t);
    ensure_eq_r!(c.transform_point(p), s.transform_point(t.transform_point(p)), "concat-point", "{}: concat(s,t)(p) vs s(t(p))", who);
    let mut cs = *s;
    cs.concat_self(t);
    ensure_eq_r!(cs, c, "concat_self", "{}: concat_self vs concat", who);
    let one = T::one();
    ensure_eq_r!(one.transform_point(p), p, "one-point", "{}: one() moves a point", who);
    ensure_eq_r!(one.transform_vector(v), v, "one-vector", "{}: one() changes a vector", who);
    // the identity through One's provided methods, and as a neutral element of every composition form
    {
        let mut r = *t;
        num_traits::One::set_one(&mut r);
        ensure_eq_r!(r, one, "set_one", "{}: set_one() does not give one()", who);
        ensure_eq_r!(r.transform_point(p), p, "set_one-point", "{}: a transform reset with set_one() moves a point", who);
        ensure_r!(num_traits::One::is_one(&one) && num_traits::One::is_one(&r), "is_one", "{}: one().is_one() is false", who);
        ensure_eq_r!(num_traits::One::is_one(t), *t == one, "is_one-iff", "{}: is_one() differs from == one()", who);
        ensure_eq_r!(t.concat(&one), *t, "one-right-neutral", "{}: concat(t, one()) != t", who);
        ensure_eq_r!(one.concat(t), *t, "one-left-neutral", "{}: concat(one(), t) != t", who);
        let mut r = *t;
        r.concat_self(&one);
        ensure_eq_r!(r, *t, "one-neutral-concat_self", "{}: t.concat_self(one()) != t", who);
        let mut r = one;
        r.concat_self(t);
        ensure_eq_r!(r, *t, "one-neutral-concat_self-left", "{}: one().concat_self(t) != t", who);
    }
    if affine {
        ensure_eq_r!(c.transform_vector(v), s.transform_vector(t.transform_vector(v)), "concat-vector", "{}: concat(s,t)(v) vs s(t(v))", who);
        ensure_eq_r!(
            t.transform_point(p) - t.transform_point(P::origin()),
            t.transform_vector(p - P::origin()),
            "vector-ignores-displacement",
            "{}: T(p) - T(origin) vs T_vec(p - origin)",
            who
        );
    }
    let inv = t.inverse_transform();
    ensure_r!(inv.is_some() == invertible, "inverse-presence", "{}: inverse_transform() is {} but the transform is {}", who,
        if inv.is_some() { "Some" } else { "None" }, if invertible { "invertible" } else { "singular" });
    let iv = t.inverse_transform_vector(v);
    ensure_r!(iv.is_some() == invertible, "inverse-vector-presence", "{}: inverse_transform_vector() is {} but the transform is {}", who,
        if iv.is_some() { "Some" } else { "None" }, if invertible { "invertible" } else { "singular" });
    if let Some(i) = inv {
        ensure_eq_r!(i.transform_point(t.transform_point(p)), p, "inverse-undoes-point", "{}: inv(T(p))", who);
        ensure_eq_r!(t.transform_point(i.transform_point(p)), p, "inverse-right-point", "{}: T(inv(p))", who);
        ensure_eq_r!(iv, Some(i.transform_vector(v)), "inverse_transform_vector", "{}: inverse_transform_vector(v) vs inverse_transform().transform_vector(v)", who);
        if affine {
            ensure_eq_r!(i.transform_vector(t.transform_vector(v)), v, "inverse-undoes-vector", "{}: inv(T(v))", who);
            ensure_eq_r!(t.transform_vector(i.transform_vector(v)), v, "inverse-right-vector", "{}: T(inv(v))", who);
        }
    }
    Ok(())
}

/// Decomposed-only clauses: `*`, displacement independence, conversion to a matrix
macro_rules! decomposed_extra {
    ($s:expr, $t:expr, $p:expr, $v:expr, $M:ident, $P:ty, $ext_p:expr, $who:expr) => {{
        let (s, t, p, v) = ($s, $t, $p, $v);
        ensure_eq!(s * t, s.concat(&t), "mul-is-concat", "{}: s * t vs concat", $who);
        let mut moved = t;
        moved.disp = moved.disp + moved.disp + v;
        ensure_eq!(moved.transform_vector(v), t.transform_vector(v), "vector-ignores-displacement", "{}: transform_vector depends on disp", $who);
        // explicit form: rot(scale * p) + disp
        ensure_eq!(t.transform_point(p), t.rot.rotate_point(p * t.scale) + t.disp, "point-formula", "{}: T(p) = rot(scale p) + disp", $who);
        ensure_eq!(t.transform_vector(v), t.rot.rotate_vector(v * t.scale), "vector-formula", "{}: T(v) = rot(scale v)", $who);
        let (ms, mt) = ($M::from(s), $M::from(t));
        let hp = $ext_p(p);
        ensure_eq!(mt * hp, $ext_p(t.transform_point(p)), "matrix-applies", "{}: M(D) (p,1) vs (D(p),1)", $who);
        ensure_eq!(Transform::<$P>::transform_point(&mt, p), t.transform_point(p), "matrix-transform-point", "{}: M(D).transform_point(p) vs D(p)", $who);
        ensure_eq!(Transform::<$P>::transform_vector(&mt, v), t.transform_vector(v), "matrix-transform-vector", "{}: M(D).transform_vector(v) vs D(v)", $who);
        ensure_eq!($M::from(s.concat(&t)), ms * mt, "matrix-composes", "{}: M(s t) = M(s) M(t)", $who);
        ensure_eq!($M::from(one_like(&t)), $M::identity(), "matrix-of-one", "{}: M(one()) = I", $who);
        if let Some(i) = t.inverse_transform() {
            ensure_eq!(Some($M::from(i)), mt.invert(), "matrix-inverts", "{}: M(D^-1) = M(D)^-1", $who);
        } else {
            ensure!(mt.invert().is_none(), "matrix-inverts", "{}: D is singular but M(D) inverts", $who);
        }
    }};
}

fn dq_exact<S: Sc>(d: &mut Draw) -> Outcome {
    let (s, t) = (g_dq::<S>(d), g_dq::<S>(d));
    let (p, v) = (gp3::<S>(d), gv3::<S>(d));
    d.note("s", &s);
    d.note("t", &t);
    d.note("p,v", &(p, v));
    vcore::tryo!(laws::<S, Point3<S>, DQ<S>>(&s, &t, p, v, true, t.scale != S::zero(), "Decomposed<Vector3,Quaternion>"));
    let one: DQ<S> = one_like(&s);
    ensure_eq!(one, Decomposed { scale: S::one(), rot: Quaternion::one(), disp: Vector3::zero() }, "one-fields", "one() fields");
    decomposed_extra!(s, t, p, v, Matrix4, Point3<S>, |p: Point3<S>| p.to_homogeneous(), "Decomposed<Vector3,Quaternion>");
    let nt = s.scale != S::zero() && s.scale != S::one() && t.scale != S::zero() && s.rot * t.rot != t.rot * s.rot && all_nonzero(&v3(t.disp));
    pass(if t.scale == S::zero() { "zero-scale" } else if nt { "generic" } else { "degenerate" }, nt)
}

fn db3_exact<S: Sc>(d: &mut Draw) -> Outcome {
    let (s, t) = (g_db3::<S>(d), g_db3::<S>(d));
    let (p, v) = (gp3::<S>(d), gv3::<S>(d));
    d.note("s", &s);
    d.note("t", &t);
    d.note("p,v", &(p, v));
    vcore::tryo!(laws::<S, Point3<S>, DB3<S>>(&s, &t, p, v, true, t.scale != S::zero(), "Decomposed<Vector3,Basis3>"));
    decomposed_extra!(s, t, p, v, Matrix4, Point3<S>, |p: Point3<S>| p.to_homogeneous(), "Decomposed<Vector3,Basis3>");
    let nt = s.scale != S::zero() && s.scale != S::one() && t.scale != S::zero() && s.rot * t.rot != t.rot * s.rot && all_nonzero(&v3(t.disp));
    pass(if t.scale == S::zero() { "zero-scale" } else if nt { "generic" } else { "degenerate" }, nt)
}

fn db2_exact(d: &mut Draw) -> Outcome {
    let (s, t) = (g_db2(d, 0), g_db2(d, 1));
    let (p, v) = (gp2::<Q>(d), gv2::<Q>(d));
    d.note("s", &s);
    d.note("t", &t);
    d.note("p,v", &(p, v));
    vcore::tryo!(laws::<Q, Point2<Q>, DB2<Q>>(&s, &t, p, v, true, t.scale != Q::ZERO, "Decomposed<Vector2,Basis2>"));
    decomposed_extra!(s, t, p, v, Matrix3, Point2<Q>, |p: Point2<Q>| Vector3::new(p.x, p.y, Q::ONE), "Decomposed<Vector2,Basis2>");
    let nt = s.scale != Q::ZERO && s.scale != Q::ONE && t.scale != Q::ZERO && all_nonzero(&v2(t.disp));
    pass(if t.scale == Q::ZERO { "zero-scale" } else if nt { "generic" } else { "degenerate" }, nt)
}

fn m4_exact<S: Sc>(d: &mut Draw) -> Outcome {
    let kind = d.int(0, 5);
    let projective = kind <= 2;
    // kind 2: an affine matrix times a scalar k (bottom row exactly (0,0,0,k)): still the same map on points after the
    // homogeneous divide, a different one on vectors, so it is handled like a projective matrix
    let scaled = kind == 2;
    let (s, t) = if scaled {
        let (ks, kt) = (S::gen_nz(d), S::gen_nz(d));
        (g_affine4::<S>(d) * ks, g_affine4::<S>(d) * kt)
    } else if projective {
        (mk_m4(&g_lin::<S>(d, 4)), mk_m4(&g_lin::<S>(d, 4)))
    } else {
        (g_affine4::<S>(d), g_affine4::<S>(d))
    };
    let (p, v) = (gp3::<S>(d), gv3::<S>(d));
    d.note("s", &s);
    d.note("t", &t);
    d.note("p,v", &(p, v));
    let det = t.rm().det();
    vcore::tryo!(laws::<S, Point3<S>, Matrix4<S>>(&s, &t, p, v, !projective, det != S::zero(), "Matrix4"));
    let nt = s.rm().block(3).all_nonzero() && t.rm().block(3).all_nonzero();
    if scaled {
        // the points clause in closed form: (k [A d; 0 1]) p = A p + d
        let a = t.rm();
        let kk = a.e[3][3];
        let pa = [p.x, p.y, p.z];
        let want: Vec<S> = (0..3).map(|r| (a.e[0][r] * pa[0] + a.e[1][r] * pa[1] + a.e[2][r] * pa[2] + a.e[3][r]) / kk).collect();
        let got = t.transform_point(p);
        ensure_eq!(vec![got.x, got.y, got.z], want, "scaled-affine-point", "(k [A d; 0 1]) applied to a point is A p + d");
    }
    pass(if det == S::zero() { "singular" } else if scaled { "affine-times-scalar" } else if projective { "projective" } else if nt { "affine-generic" } else { "affine-sparse" }, nt)
}

fn m3_exact<S: Sc>(d: &mut Draw) -> Outcome {
    // as a 2-D transform: affine, affine times a scalar, or - for the point clauses - fully projective (a generic 3x3
    // matrix, half of the time with its last column set to (0,0,1): no translation, but a bottom row that still makes
    // the homogeneous coordinate of an image differ from 1)
    let kind = d.int(0, 5);
    let scaled = kind == 0;
    let projective = kind == 1 || kind == 2;
    let proj = |d: &mut Draw| -> Matrix3<S> {
        let mut m = g_lin::<S>(d, 3);
        if d.bool() {
            m.e[2][0] = S::zero();
            m.e[2][1] = S::zero();
            m.e[2][2] = S::one();
        }
        mk_m3(&m)
    };
    let (s, t) = if scaled { (g_affine3::<S>(d) * S::gen_nz(d), g_affine3::<S>(d) * S::gen_nz(d)) } else if projective { (if d.bool() { proj(d) } else { g_affine3::<S>(d) }, proj(d)) } else { (g_affine3::<S>(d), g_affine3::<S>(d)) };
    let (p, v) = (gp2::<S>(d), gv2::<S>(d));
    d.note("2-D s", &s);
    d.note("2-D t", &t);
    let det = t.rm().det();
    vcore::tryo!(laws::<S, Point2<S>, Matrix3<S>>(&s, &t, p, v, !scaled && !projective, det != S::zero(), "Matrix3 as Transform<Point2>"));
    if projective {
        // the documented action on a point: M (x, y, 1) divided by its third coordinate
        let a = t.rm();
        let w = a.e[0][2] * p.x + a.e[1][2] * p.y + a.e[2][2];
        if w != S::zero() {
            let want: Vec<S> = (0..2).map(|r| (a.e[0][r] * p.x + a.e[1][r] * p.y + a.e[2][r]) / w).collect();
            let got = t.transform_point(p);
            ensure_eq!(vec![got.x, got.y], want, "projective-point-2d", "a projective Matrix3 applied to a 2-D point is M (x,y,1) divided by its third coordinate");
        }
    }
    if scaled && det != S::zero() {
        let a = t.rm();
        let kk = a.e[2][2];
        let want: Vec<S> = (0..2).map(|r| (a.e[0][r] * p.x + a.e[1][r] * p.y + a.e[2][r]) / kk).collect();
        let got = t.transform_point(p);
        ensure_eq!(vec![got.x, got.y], want, "scaled-affine-point-2d", "(k [A d; 0 1]) applied to a 2-D point is A p + d");
    }
    // as a 3-D linear transform
    let (s3, t3) = (mk_m3(&g_lin::<S>(d, 3)), mk_m3(&g_lin::<S>(d, 3)));
    let (p3, w3) = (gp3::<S>(d), gv3::<S>(d));
    d.note("3-D s", &s3);
    d.note("3-D t", &t3);
    let det3 = t3.rm().det();
    vcore::tryo!(laws::<S, Point3<S>, Matrix3<S>>(&s3, &t3, p3, w3, true, det3 != S::zero(), "Matrix3 as Transform<Point3>"));
    let nt = t.rm().block(2).all_nonzero() && t3.rm().all_nonzero();
    pass(if det == S::zero() || det3 == S::zero() { "singular" } else if projective { "projective-2d" } else if nt { "generic" } else { "sparse" }, nt)
}

// ---- f64: the scale threshold ---------------------------------------------------------------------

fn scale_threshold_f64(d: &mut Draw) -> Outcome {
    let sign = if d.bool() { 1.0 } else { -1.0 };
    let (scale, cls): (f64, &'static str) = match d.int(0, 9) {
        0 => (0.0, "zero"),
        1 => (-0.0, "zero"),
        2 => (sign * d.pick(&[1e-300, 1e-30, 5e-324]), "negligible"),
        3 => (sign * d.f64_log(1e-12, 1e-6), "negligible"),
        4 => (sign * 1e-6 * (1.0 + d.f64_log(1e-9, 1.0)), "just-above"),
        5 => (sign * d.f64_log(2e-6, 1e-3), "small"),
        // a scale so large that its reciprocal is a subnormal number: still a finite, invertible scale
        6 => (sign * d.f64_log(1e300, 1.7e308), "huge"),
        _ => (sign * d.f64_log(1e-3, 50.0), "ordinary"),
    };
    let u = f_unit_quat(d);
    let disp = Vector3::from(f_vec3(d, -10.0, 10.0));
    // (points and vectors small enough for their images to be finite)
    let k = if cls == "huge" { 1e-300 } else { 1.0 };
    let p = Point3::from(f_vec3(d, -10.0, 10.0)) * k;
    let v = Vector3::from(f_vec3(d, -10.0, 10.0)) * k;
    d.note("scale", &scale);
    d.note("rot", &u);
    d.note("disp,p,v", &(disp, p, v));
    let which = d.bool();
    macro_rules! go {
        ($t:expr, $who:expr) => {{
            let t = $t;
            let inv = t.inverse_transform();
            let iv = t.inverse_transform_vector(v);
            if scale == 0.0 {
                ensure!(inv.is_none(), "zero-scale-inverts", "{}: scale 0 must not invert", $who);
                ensure!(iv.is_none(), "zero-scale-inverts-vector", "{}: scale 0 must not invert a vector", $who);
            } else if scale.abs() > 1e-6 {
                ensure!(inv.is_some(), "refuses-to-invert", "{}: |scale| = {:e} > 1e-6 must invert", $who, scale.abs());
                ensure!(iv.is_some(), "refuses-to-invert-vector", "{}: |scale| = {:e} > 1e-6 must invert a vector", $who, scale.abs());
            }
            ensure!(inv.is_some() == iv.is_some(), "inverse-vector-presence", "{}: inverse_transform and inverse_transform_vector disagree on invertibility", $who);
            if let Some(i) = inv {
                let e = f64::EPSILON;
                // vectors: pure rotation and scaling, no cancellation
                let back = i.transform_vector(t.transform_vector(v));
                // (a subnormal reciprocal scale keeps fewer bits)
                let e = if cls == "huge" { 1e-6 } else { e };
                let tolv = 64.0 * e * v.magnitude();
                ensure!((back - v).magnitude() <= tolv, "inverse-undoes-vector", "{}: inv(T(v)) misses v by {:e} (scale {:e})", $who, (back - v).magnitude(), scale);
                let direct = iv.unwrap();
                let want = i.transform_vector(v);
                ensure!((direct - want).magnitude() <= 64.0 * e * want.magnitude(), "inverse_transform_vector", "{}: inverse_transform_vector vs inverse_transform().transform_vector", $who);
                // inverse_transform_vector is linear in its argument: a power of two times v gives that power of two times
                // the result - up into the top binade (|scale| >= 16 leaves v/scale room for any rotation) and down to
                // the last few subnormal units (|scale| < 1 makes v/scale the larger of the two)
                let m = v.x.abs().max(v.y.abs()).max(v.z.abs());
                if m > 0.0 && scale.abs() > 1e-6 && cls != "huge" {
                    // (applied in two steps: 2^e itself need not be a finite number)
                    let sc = |x: Vector3<f64>, e: i32| x * (2.0f64).powi(e / 2) * (2.0f64).powi(e - e / 2);
                    let sc1 = |x: f64, e: i32| x * (2.0f64).powi(e / 2) * (2.0f64).powi(e - e / 2);
                    if scale.abs() >= 16.0 {
                        let e = 1023 - m.log2().floor() as i32;
                        let e = if sc1(m, e).is_finite() { e } else { e - 1 };
                        let vs = sc(v, e);
                        let got = t.inverse_transform_vector(vs).unwrap();
                        let want = sc(direct, e);
                        let err = (got.x - want.x).abs().max((got.y - want.y).abs()).max((got.z - want.z).abs());
                        ensure!(err <= 64.0 * f64::EPSILON * (sc1(m, e) / scale.abs()), "inverse_transform_vector-top-binade", "{}: inverse_transform_vector of a vector in the top binade is {:?}, 2^{} times that of the vector scaled down is {:?} (scale {:e})", $who, got, e, want, scale);
                    }
                    if scale.abs() < 1.0 {
                        let e = -1071 - m.log2().floor() as i32 + d.int(0, 3) as i32;
                        let vs = sc(v, e);
                        let up = sc(vs, 600);
                        let got = t.inverse_transform_vector(vs).unwrap();
                        let want = sc(t.inverse_transform_vector(up).unwrap(), -600);
                        let unit = (2.0f64).powi(-1074);
                        let err = (got.x - want.x).abs().max((got.y - want.y).abs()).max((got.z - want.z).abs());
                        ensure!(err <= 64.0 * unit, "inverse_transform_vector-subnormal", "{}: inverse_transform_vector of the subnormal vector {:?} is {:?}; computed 2^600 times larger and scaled back it is {:?} (off by {} units of 2^-1074; scale {:e})", $who, vs, got, want, err / unit, scale);
                    }
                }
                // points: cancellation of disp/scale
                let back = i.transform_point(t.transform_point(p));
                let tolp = 256.0 * e * (p.to_vec().magnitude() + disp.magnitude() / scale.abs() + 1e-300);
                ensure!((back - p).magnitude() <= tolp, "inverse-undoes-point", "{}: inv(T(p)) misses p by {:e} (tolerance {:e}, scale {:e})", $who, (back - p).magnitude(), tolp, scale);
                if scale.abs() > 1e-6 {
                    let fwd = t.transform_point(i.transform_point(p));
                    let tolf = 256.0 * e * (p.to_vec().magnitude() + disp.magnitude() + 1.0);
                    ensure!((fwd - p).magnitude() <= tolf, "inverse-right-point", "{}: T(inv(p)) misses p by {:e}", $who, (fwd - p).magnitude());
                }
            }
        }};
    }
    if which {
        go!(Decomposed { scale, rot: mk_q(&u), disp }, "Decomposed<Vector3,Quaternion>");
    } else {
        go!(Decomposed { scale, rot: Basis3::from(mk_q(&u)), disp }, "Decomposed<Vector3,Basis3>");
    }
    pass(cls, true)
}


/// f64: a matrix with a tiny but non-zero determinant is still inverted, and the matrix of a
/// Decomposed transform inverts to the matrix of its inverse
fn matrix_small_det_f64(d: &mut Draw) -> Outcome {
    let sign = if d.bool() { 1.0 } else { -1.0 };
    let (scale, cls): (f64, &'static str) = match d.int(0, 5) {
        // s^3 between 2^-1050 and 2^-1026: a subnormal determinant - tiny, but not zero, and the inverse (scale 2^342 ..
        // 2^350) is an ordinary matrix
        5 => (sign * (2.0f64).powi(-(d.int(342, 350) as i32)), "subnormal-determinant"),
        0 => (sign * d.f64_log(1e-50, 1e-6), "minute"),
        1 => (sign * d.f64_log(1e-6, 1e-3), "small"),
        2 => (sign * 1e-6 * (1.0 + d.f64_log(1e-9, 1.0)), "just-above-1e-6"),
        _ => (sign * d.f64_log(1e-3, 50.0), "ordinary"),
    };
    let u = f_unit_quat(d);
    let disp = Vector3::from(f_vec3(d, -10.0, 10.0));
    let p = Point3::from(f_vec3(d, -10.0, 10.0));
    let v = Vector3::from(f_vec3(d, -10.0, 10.0));
    d.note("scale", &scale);
    d.note("rot", &u);
    d.note("disp,p,v", &(disp, p, v));
    // (a determinant down there keeps 52 - (-1022 - log2 det) of its bits, and the inverse inherits that)
    let e = if cls == "subnormal-determinant" { f64::EPSILON + 64.0 * (2.0f64).powi(-1074) / scale.abs().powi(3) / 1024.0 } else { f64::EPSILON };
    let dec = Decomposed { scale, rot: mk_q(&u), disp };
    let m4 = Matrix4::from(dec);
    let m3 = Matrix3::from(mk_q(&u)) * scale;
    // the determinants are s^3 (times 1 for the homogeneous row): non-zero, far from underflow
    ensure!(m4.determinant() != 0.0 && m3.determinant() != 0.0, "harness-det-underflow", "constructed determinant underflowed: {:e}", m4.determinant());
    let i4 = Transform::<Point3<f64>>::inverse_transform(&m4);
    ensure!(i4.is_some(), "matrix4-refuses-to-invert", "Matrix4 with determinant {:e} != 0 must invert (scale {:e})", m4.determinant(), scale);
    ensure!(Transform::<Point3<f64>>::inverse_transform_vector(&m4, v).is_some(), "matrix4-refuses-to-invert-vector", "Matrix4::inverse_transform_vector is None for determinant {:e}", m4.determinant());
    let i3 = Transform::<Point3<f64>>::inverse_transform(&m3);
    ensure!(i3.is_some(), "matrix3-refuses-to-invert", "Matrix3 with determinant {:e} != 0 must invert", m3.determinant());
    ensure!(m4.invert().is_some() && m3.invert().is_some(), "invert-refuses", "invert() is None for a non-zero determinant");
    let i4 = i4.unwrap();
    let back = Transform::<Point3<f64>>::transform_point(&i4, Transform::<Point3<f64>>::transform_point(&m4, p));
    let tolp = 1024.0 * e * (p.to_vec().magnitude() + disp.magnitude() / scale.abs() + 1e-300);
    ensure!((back - p).magnitude() <= tolp, "matrix4-inverse-undoes-point", "Matrix4: inv(T(p)) misses p by {:e} (tolerance {:e}, scale {:e})", (back - p).magnitude(), tolp, scale);
    let backv = i3.unwrap() * (m3 * v);
    ensure!((backv - v).magnitude() <= 1024.0 * e * v.magnitude(), "matrix3-inverse-undoes-vector", "Matrix3: inv(T(v)) misses v by {:e}", (backv - v).magnitude());
    // converting to a matrix commutes with inverting (where the Decomposed inverse must exist)
    if scale.abs() > 1e-6 {
        let di = match dec.inverse_transform() {
            Some(x) => x,
            None => return Outcome::Fail { sig: "refuses-to-invert", msg: format!("Decomposed with |scale| = {:e} > 1e-6 must invert", scale.abs()) },
        };
        let md = Matrix4::from(di).rm();
        let mi = i4.rm();
        let big = (0..4).flat_map(|c| (0..4).map(move |r| (c, r))).fold(0.0f64, |a, (c, r)| a.max(md.e[c][r].abs()));
        let diff = md.max_abs_diff(&mi);
        ensure!(diff <= 1e-9 * big, "matrix-inverts-f64", "M(D^-1) and M(D)^-1 differ by {:e} (largest entry {:e})", diff, big);
    }
    // 2-D
    let th = d.f64_in(-3.0, 3.0);
    let d2: DB2<f64> = Decomposed { scale, rot: Rotation2::from_angle(Rad(th)), disp: Vector2::new(disp.x, disp.y) };
    let m2d = Matrix3::from(d2);
    let i2 = Transform::<Point2<f64>>::inverse_transform(&m2d);
    ensure!(i2.is_some(), "matrix3-2d-refuses-to-invert", "Matrix3 (2-D) with determinant {:e} != 0 must invert", m2d.determinant());
    let p2 = Point2::new(p.x, p.y);
    let back = Transform::<Point2<f64>>::transform_point(&i2.unwrap(), Transform::<Point2<f64>>::transform_point(&m2d, p2));
    ensure!((back - p2).magnitude() <= tolp, "matrix3-2d-inverse-undoes-point", "Matrix3 (2-D): inv(T(p)) misses p by {:e}", (back - p2).magnitude());
    pass(cls, true)
}


/// native floats: a Matrix3 that is exactly singular by structure (one column +-2^k times another, generic inexact entries)
/// has a zero determinant - every pair of Leibniz terms that cancels is the same float product twice - and so no inverse
/// transform, through either of its Transform impls, for points or for vectors
macro_rules! matrix3_singular {
    ($fname:ident, $F:ty) => {
        fn $fname(d: &mut Draw) -> Outcome {
            type F = $F;
            let mut t = RM::<F>::from_fn(3, |_, _| 0.0);
            for c in 0..3 {
                for r in 0..3 {
                    t.e[c][r] = match d.int(0, 5) {
                        0 => d.pick(&[0.1, 0.3, 1.0 / 3.0, 0.7, -0.1, 1e-3, 2.5, -7.0, 1e5]) as F,
                        1 => d.int(-9, 9) as F,
                        _ => d.f64_slog(1e-3, 1e3) as F,
                    };
                }
            }
            let (i, mut j) = (d.below(3), d.below(3));
            if i == j {
                j = (i + 1) % 3;
            }
            let k = (2.0 as F).powi(d.int(-3, 3) as i32) * if d.bool() { 1.0 } else { -1.0 };
            for r in 0..3 {
                t.e[j][r] = k * t.e[i][r];
            }
            d.note("M", &t);
            d.note("dependent columns, factor", &((i, j), k));
            let m = mk_m3(&t);
            let v3 = Vector3::new(d.f64_in(-10.0, 10.0) as F, d.f64_in(-10.0, 10.0) as F, d.f64_in(-10.0, 10.0) as F);
            let i3 = Transform::<Point3<F>>::inverse_transform(&m);
            ensure!(i3.is_none(), "singular-matrix3-inverts", "Matrix3 (3-D transform) with column {} = {} * column {} has inverse_transform() = {:?}", j, k, i, i3);
            ensure!(Transform::<Point3<F>>::inverse_transform_vector(&m, v3).is_none(), "singular-matrix3-inverts-vector", "Matrix3 (3-D transform), exactly singular: inverse_transform_vector is Some");
            let i2 = Transform::<Point2<F>>::inverse_transform(&m);
            ensure!(i2.is_none(), "singular-matrix3-2d-inverts", "Matrix3 (2-D transform) with column {} = {} * column {} has inverse_transform() = {:?}", j, k, i, i2);
            ensure!(Transform::<Point2<F>>::inverse_transform_vector(&m, Vector2::new(v3.x, v3.y)).is_none(), "singular-matrix3-2d-inverts-vector", "Matrix3 (2-D transform), exactly singular: inverse_transform_vector is Some");
            pass(["columns-0-1", "columns-0-2", "columns-1-2"][i.min(j) + i.max(j) - 1], true)
        }
    };
}
matrix3_singular!(matrix3_singular_f64, f64);
matrix3_singular!(matrix3_singular_f32, f32);

// ---- f64: composing matrix transforms when one factor is (nearly) the identity -------------------------------------------

/// concat, concat_self and * are one and the same product, entry by entry, also when the right factor differs from the
/// identity by 1e-30 .. 1e-3 only and the left factor is huge or tiny; and the composition acts like the factors in turn
fn matrix_compose_f64(d: &mut Draw) -> Outcome {
    let n = d.int(3, 4) as usize;
    let two_d = n == 3 && d.bool();
    let big = d.f64_slog(1e-20, 1e20);
    let mut ts = RM::<f64>::ident(n);
    let lin = if two_d { 2 } else { 3.min(n) };
    for c in 0..lin {
        for r in 0..lin {
            ts.e[c][r] = if c == r { big } else if d.chance(1, 3) { big * d.f64_in(-1.0, 1.0) } else { 0.0 };
        }
    }
    if two_d || n == 4 {
        for r in 0..n - 1 {
            ts.e[n - 1][r] = if d.bool() { 0.0 } else { d.f64_slog(1e-3, 1e3) };
        }
    }
    let kind = d.int(0, 2);
    let mut tt = RM::<f64>::ident(n);
    let rows = if two_d || n == 4 { n - 1 } else { n };
    match kind {
        0 => {
            for _ in 0..d.int(1, 3) {
                let (c, r) = (d.below(n), d.below(rows));
                tt.e[c][r] += d.f64_slog(1e-30, 1e-3);
            }
        }
        1 => {}
        _ => {
            for c in 0..n {
                for r in 0..rows {
                    tt.e[c][r] = d.f64_slog(1e-3, 1e3);
                }
            }
        }
    }
    d.note("s", &ts);
    d.note("t", &tt);
    let want = ts.mul(&tt);
    let scale = ts.map(|x| x.abs()).mul(&tt.map(|x| x.abs()));
    let p: Vec<f64> = (0..3).map(|_| if d.chance(1, 3) { 0.0 } else { d.f64_slog(1e-20, 1e3) }).collect();
    d.note("p", &p);
    macro_rules! go {
        ($mk:ident, $P:ty, $pt:expr, $who:expr) => {{
            let (s_, t_) = ($mk(&ts), $mk(&tt));
            let prod = (s_ * t_).rm();
            let conc = Transform::<$P>::concat(&s_, &t_).rm();
            let mut cs = s_;
            Transform::<$P>::concat_self(&mut cs, &t_);
            for c in 0..n {
                for r in 0..n {
                    let tol = 8.0 * f64::EPSILON * scale.e[c][r] + 1e-300;
                    ensure!((prod.e[c][r] - want.e[c][r]).abs() <= tol, "compose-product-f64", "{}: (s*t)[{}][{}] = {:e}, reference {:e}", $who, c, r, prod.e[c][r], want.e[c][r]);
                    ensure!((conc.e[c][r] - want.e[c][r]).abs() <= tol, "compose-concat-f64", "{}: concat(s,t)[{}][{}] = {:e}, reference {:e}", $who, c, r, conc.e[c][r], want.e[c][r]);
                    ensure!((cs.rm().e[c][r] - want.e[c][r]).abs() <= tol, "compose-concat_self-f64", "{}: s.concat_self(t)[{}][{}] = {:e}, reference {:e}", $who, c, r, cs.rm().e[c][r], want.e[c][r]);
                }
            }
            // applied to a point: concat(s,t)(p) against s(t(p)), each component to the rounding of its own sum
            let pt: $P = $pt;
            let a1 = Transform::<$P>::transform_point(&Transform::<$P>::concat(&s_, &t_), pt);
            let a2 = Transform::<$P>::transform_point(&s_, Transform::<$P>::transform_point(&t_, pt));
            (a1, a2)
        }};
    }
    let tolp = |mag: f64| 32.0 * f64::EPSILON * mag + 1e-300;
    if two_d {
        let (a1, a2) = go!(mk_m3, Point2<f64>, Point2::new(p[0], p[1]), "Matrix3 as a 2-D transform");
        let mag: Vec<f64> = (0..2).map(|r| (0..3).map(|c| scale.e[c][r] * [p[0].abs(), p[1].abs(), 1.0][c]).sum()).collect();
        ensure!((a1.x - a2.x).abs() <= tolp(mag[0]) && (a1.y - a2.y).abs() <= tolp(mag[1]), "compose-applies-f64", "Matrix3 (2-D): concat(s,t)(p) = {:?} but s(t(p)) = {:?}", a1, a2);
    } else if n == 3 {
        let (a1, a2) = go!(mk_m3, Point3<f64>, Point3::new(p[0], p[1], p[2]), "Matrix3 as a 3-D transform");
        let mag: Vec<f64> = (0..3).map(|r| (0..3).map(|c| scale.e[c][r] * p[c].abs()).sum()).collect();
        ensure!((a1.x - a2.x).abs() <= tolp(mag[0]) && (a1.y - a2.y).abs() <= tolp(mag[1]) && (a1.z - a2.z).abs() <= tolp(mag[2]), "compose-applies-f64", "Matrix3 (3-D): concat(s,t)(p) = {:?} but s(t(p)) = {:?}", a1, a2);
    } else {
        let (a1, a2) = go!(mk_m4, Point3<f64>, Point3::new(p[0], p[1], p[2]), "Matrix4");
        let mag: Vec<f64> = (0..3).map(|r| (0..4).map(|c| scale.e[c][r] * [p[0].abs(), p[1].abs(), p[2].abs(), 1.0][c]).sum()).collect();
        ensure!((a1.x - a2.x).abs() <= tolp(mag[0]) && (a1.y - a2.y).abs() <= tolp(mag[1]) && (a1.z - a2.z).abs() <= tolp(mag[2]), "compose-applies-f64", "Matrix4: concat(s,t)(p) = {:?} but s(t(p)) = {:?}", a1, a2);
    }
    pass(["right-factor-nearly-identity", "right-factor-identity", "right-factor-generic"][kind as usize], true)
}

pub fn property() -> Property {
    let mut s = Vec::new();
    macro_rules! add {
        ($name:expr, $scalar:expr, $f:expr, $q:expr, $t:expr, $len:expr, $req:expr, $rule:expr) => {
            s.push(SubCheck { name: $name, scalar: $scalar, quick: $q, thorough: $t, len: $len, f: $f, required: $req, rule: $rule, exhaustive: false });
        };
    }
    const RD: &str = "scales not in {0,1}, the two rotations do not commute, displacement with all components non-zero";
    const RQ: &[(&str, u32)] = &[("generic", 100), ("zero-scale", 50)];
    add!("decomposed_quaternion-Q", "Q", dq_exact::<Q>, 3000, 200_000, 96, RQ, RD);
    add!("decomposed_quaternion-Fp", "Fp", dq_exact::<Fp>, 3000, 200_000, 128, RQ, RD);
    add!("decomposed_basis3-Q", "Q", db3_exact::<Q>, 3000, 200_000, 96, RQ, RD);
    add!("decomposed_basis3-Fp", "Fp", db3_exact::<Fp>, 3000, 200_000, 128, RQ, RD);
    add!("decomposed_basis2-Q", "Q", db2_exact, 3000, 200_000, 64, RQ, "scales not in {0,1}, displacement with all components non-zero");
    add!("matrix4-Q", "Q", m4_exact::<Q>, 3000, 200_000, 192, &[("affine-generic", 100), ("projective", 100), ("affine-times-scalar", 80), ("singular", 50)], "linear parts with all entries non-zero");
    add!("matrix4-Fp", "Fp", m4_exact::<Fp>, 3000, 200_000, 192, &[("affine-generic", 100), ("projective", 100), ("affine-times-scalar", 80), ("singular", 50)], "linear parts with all entries non-zero");
    add!("matrix3-Q", "Q", m3_exact::<Q>, 3000, 200_000, 320, &[("generic", 100), ("projective-2d", 100), ("singular", 50)], "linear parts with all entries non-zero");
    add!("matrix3-Fp", "Fp", m3_exact::<Fp>, 3000, 200_000, 320, &[("generic", 100), ("projective-2d", 100), ("singular", 50)], "linear parts with all entries non-zero");
    const SING: &[(&str, u32)] = &[("columns-0-1", 200), ("columns-0-2", 200), ("columns-1-2", 200)];
    add!("matrix3_singular-f64", "f64", matrix3_singular_f64, 4000, 200_000, 72, SING, "every generated matrix (one column an exact power-of-two multiple of another; generic inexact entries)");
    add!("matrix3_singular-f32", "f32", matrix3_singular_f32, 4000, 200_000, 72, SING, "every generated matrix (one column an exact power-of-two multiple of another; generic inexact entries)");
    add!("matrix_compose-f64", "f64", matrix_compose_f64, 6000, 400_000, 128, &[("right-factor-nearly-identity", 200), ("right-factor-identity", 100), ("right-factor-generic", 200)], "every generated pair of affine matrices");
    add!("scale_threshold-f64", "f64", scale_threshold_f64, 10000, 500_000, 96,
        &[("zero", 100), ("negligible", 100), ("just-above", 50), ("small", 50), ("huge", 50), ("ordinary", 150)], "every generated transform; scale classes zero / negligible / just above 1e-6 / small / ordinary required");
    add!("matrix_small_determinant-f64", "f64", matrix_small_det_f64, 8000, 400_000, 96,
        &[("subnormal-determinant", 80), ("minute", 100), ("small", 100), ("just-above-1e-6", 100), ("ordinary", 150)], "every generated transform; determinant classes subnormal / minute / small / just above the Decomposed threshold / ordinary required");
    Property {
        id: "C08",
        title: "Transforms compose, invert and convert to matrices consistently",
        subchecks: s,
        assumptions: &[
            "rotations are exactly unit (rational unit quaternions, Basis3 from them, Basis2 from named angles)",
            "matrix impls: the vector clauses (composition on vectors, displacement independence) are asserted for affine matrices only (last row 0..0 1), which is what Transform documents; fully projective 4x4 matrices are used for the point clauses; a case whose homogeneous w becomes 0 is discarded (division by zero taints)",
            "exact tiers: inverse_transform() must be None iff scale == 0 / Leibniz determinant == 0",
            "f64: for 0 < |scale| <= 1e-6 either None or a correct inverse is accepted, as the statement says; correctness tolerances are conditioning-derived (eps (|p| + |disp|/|scale|))",
        ],
        fuzz: false,
    }
}
