//! C04 — Hamilton algebra and rotation by unit quaternions (exact tiers Q and Fp).

use vcore::engine::*;
use vcore::gen::*;
use vcore::q::{Fp, Q};
use vcore::refs::*;
use vcore::{ensure, ensure_eq};
use cgmath::prelude::*;
use cgmath::{Quaternion, Rotation, Vector3};

fn qgeneric<S: Sc>(qs: &[&RQ<S>]) -> bool {
    qs.iter().all(|q| all_nonzero(&q[..]))
}

/// ring laws of arbitrary quaternions
fn algebra<S: Sc>(d: &mut Draw) -> Outcome {
    let (p, q, r) = (gquat::<S>(d), gquat::<S>(d), gquat::<S>(d));
    let (a, k) = (S::gen(d), S::gen_nz(d));
    d.note("p", &p);
    d.note("q", &q);
    d.note("r", &r);
    d.note("a,k", &(a, k));
    let (rp, rq_, rr) = (rq(&p), rq(&q), rq(&r));
    // product vs the left-multiplication-matrix reference, all operand forms
    let want = mk_q(&qmul(&rp, &rq_));
    ensure_eq!(p * q, want, "product", "p * q vs reference Hamilton product");
    ensure_eq!(&p * q, want, "product-ref-lhs", "&p * q");
    ensure_eq!(p * &q, want, "product-ref-rhs", "p * &q");
    ensure_eq!(&p * &q, want, "product-ref-both", "&p * &q");
    ensure_eq!((p * q) * r, p * (q * r), "associative", "(pq)r = p(qr)");
    ensure_eq!(p * (q + r), p * q + p * r, "distributive-left", "p(q+r)");
    ensure_eq!((p + q) * r, p * r + q * r, "distributive-right", "(p+q)r");
    let one = Quaternion::<S>::one();
    ensure_eq!(rq(&one), [S::one(), S::zero(), S::zero(), S::zero()], "one", "one() components");
    ensure_eq!(p * one, p, "one-right", "p * 1");
    ensure_eq!(one * p, p, "one-left", "1 * p");
    let zero = Quaternion::<S>::zero();
    ensure_eq!(rq(&zero), [S::zero(); 4], "zero", "zero() components");
    ensure_eq!(p + zero, p, "zero-identity", "p + 0");
    ensure_eq!(rq(&p.conjugate()), qconj(&rp), "conjugate", "conjugate(p) components");
    ensure_eq!((p * q).conjugate(), q.conjugate() * p.conjugate(), "conjugate-antihomomorphism", "conj(pq) = conj(q)conj(p)");
    ensure_eq!((p * q).magnitude2(), p.magnitude2() * q.magnitude2(), "norm-multiplicative", "|pq|^2 = |p|^2|q|^2");
    ensure_eq!(p.magnitude2(), qnorm2(&rp), "magnitude2", "magnitude2 vs sum of squares");
    ensure_eq!(p.dot(q), dotn(&rp, &rq_), "dot", "dot(p,q) vs sum of products");
    // component-wise operations
    let f = |g: &dyn Fn(usize) -> S| mk_q(&[g(0), g(1), g(2), g(3)]);
    ensure_eq!(p + q, f(&|i| rp[i] + rq_[i]), "add", "p + q");
    ensure_eq!(p - q, f(&|i| rp[i] - rq_[i]), "sub", "p - q");
    ensure_eq!(-p, f(&|i| -rp[i]), "neg", "-p");
    ensure_eq!(p * a, f(&|i| rp[i] * a), "mul-scalar", "p * a");
    ensure_eq!(p / k, f(&|i| rp[i] / k), "div-scalar", "p / k");
    // folds
    let list = [p, q, r];
    let s: Quaternion<S> = list.iter().sum();
    ensure_eq!(s, ((zero + p) + q) + r, "sum-refs", "Sum over references");
    let s: Quaternion<S> = list.iter().cloned().sum();
    ensure_eq!(s, ((zero + p) + q) + r, "sum-values", "Sum over values");
    let m: Quaternion<S> = list.iter().product();
    ensure_eq!(m, ((one * p) * q) * r, "product-refs", "Product over references");
    let m: Quaternion<S> = list.iter().cloned().product();
    ensure_eq!(m, ((one * p) * q) * r, "product-values", "Product over values");
    // inverse
    let n2 = qnorm2(&rp);
    if n2 != S::zero() {
        let inv = Rotation::invert(&p);
        ensure_eq!(p * inv, one, "inverse-right", "p * invert(p)");
        ensure_eq!(inv * p, one, "inverse-left", "invert(p) * p");
    }
    let nt = qgeneric(&[&rp, &rq_, &rr]);
    pass(if nt { "generic" } else { "degenerate" }, nt)
}

/// q * v for arbitrary q, and the rotation laws for exactly unit p, q
fn rotation<S: Sc>(d: &mut Draw) -> Outcome {
    let q = gquat::<S>(d);
    let v = gv3::<S>(d);
    let up = unit_quat::<S>(d);
    let uq = unit_quat::<S>(d);
    d.note("q(arbitrary)", &q);
    d.note("v", &v);
    d.note("unit p [w,x,y,z]", &up);
    d.note("unit q [w,x,y,z]", &uq);
    let two = S::i(2);
    // arbitrary q: q*v = v + 2 qv x (qv x v + s v)
    let qv = [q.v.x, q.v.y, q.v.z];
    let va = v3(v);
    let inner = add3(&cross3(&qv, &va), &scale3(&va, q.s));
    let want = add3(&va, &scale3(&cross3(&qv, &inner), two));
    ensure_eq!(v3(q * v), want, "q*v-formula", "q * v vs v + 2 qv x (qv x v + s v)");
    ensure_eq!(v3(&q * v), want, "q*v-ref-lhs", "&q * v");
    ensure_eq!(v3(q * &v), want, "q*v-ref-rhs", "q * &v");
    ensure_eq!(v3(&q * &v), want, "q*v-ref-both", "&q * &v");
    ensure_eq!(q.rotate_vector(v), q * v, "rotate_vector", "rotate_vector vs *");
    let pt = cgmath::Point3::from_vec(v);
    ensure_eq!(q.rotate_point(pt).to_vec(), q * v, "rotate_point", "rotate_point vs *");
    // unit quaternions
    ensure_eq!(qnorm2(&up), S::one(), "harness-unit", "generator must produce exactly unit quaternions");
    let (p, u) = (mk_q(&up), mk_q(&uq));
    let rv = u * v;
    ensure_eq!(v3(rv), qrot(&uq, &va), "unit-sandwich", "unit q: q*v = vector part of q (0,v) conj(q)");
    ensure_eq!(rv.magnitude2(), v.magnitude2(), "unit-preserves-length", "|q*v|^2 = |v|^2");
    ensure_eq!((p * u) * v, p * (u * v), "unit-composition", "(pq)*v = p*(q*v)");
    ensure_eq!(Rotation::invert(&u), u.conjugate(), "unit-inverse-is-conjugate", "invert(unit q) = conjugate");
    ensure_eq!(Rotation::invert(&u) * (u * v), v, "unit-undo", "invert(q)*(q*v) = v");
    let nt = qgeneric(&[&rq(&q), &up, &uq]) && generic_entries(&va);
    pass(if nt { "generic" } else { "degenerate" }, nt)
}

const RULE: &str = "all four components of every quaternion non-zero; vector components non-zero and pairwise distinct";

pub fn property() -> Property {
    let mut s = Vec::new();
    macro_rules! add {
        ($name:expr, $scalar:expr, $f:expr, $q:expr, $t:expr, $len:expr, $req:expr) => {
            s.push(SubCheck { name: $name, scalar: $scalar, quick: $q, thorough: $t, len: $len, f: $f, required: $req, rule: RULE, exhaustive: false });
        };
    }
    add!("algebra-Q", "Q", algebra::<Q>, 5000, 400_000, 64, &[("generic", 200)]);
    add!("algebra-Fp", "Fp", algebra::<Fp>, 5000, 400_000, 64, &[("generic", 200)]);
    add!("rotation-Q", "Q", rotation::<Q>, 5000, 400_000, 64, &[("generic", 100)]);
    add!("rotation-Fp", "Fp", rotation::<Fp>, 5000, 400_000, 64, &[("generic", 200)]);
    Property {
        id: "C04",
        title: "Quaternions obey Hamilton's algebra and unit quaternions act as rotations",
        subchecks: s,
        assumptions: &[
            "exactly unit quaternions are constructed as p^2/|p|^2 (every rational unit quaternion except -1 arises this way)",
            "the reference product is the 4x4 left-multiplication matrix form, independent of the expression in the source",
        ],
        fuzz: false,
    }
}
