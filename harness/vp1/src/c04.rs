//! C04 — Hamilton algebra and rotation by unit quaternions (exact tiers Q and Fp).

use vcore::engine::*;
use vcore::gen::*;
use vcore::q::{Fp, Q};
use vcore::refs::*;
use vcore::{ensure, ensure_eq};
use cgmath::prelude::*;
use cgmath::{Quaternion, Rotation, Vector3};

fn qgeneric<S: Sc>(qs: &[&RQ<S>]) -> bool {
    qs.iter().all(|q| all_nonzero(&q[..]))
}

fn zero_q<S: Sc>() -> Quaternion<S> {
    Quaternion::<S>::zero()
}

/// ring laws of arbitrary quaternions
fn algebra<S: Sc>(d: &mut Draw) -> Outcome {
    let p = gquat::<S>(d);
    // now and then repeated factors (p * p, (p*p)*r)
    let q = if d.chance(1, 8) { p } else { gquat::<S>(d) };
    let r = if d.chance(1, 16) { p } else { gquat::<S>(d) };
    let (a, k) = (S::gen(d), S::gen_nz(d));
    d.note("p", &p);
    d.note("q", &q);
    d.note("r", &r);
    d.note("a,k", &(a, k));
    let (rp, rq_, rr) = (rq(&p), rq(&q), rq(&r));
    // product vs the left-multiplication-matrix reference, all operand forms
    let want = mk_q(&qmul(&rp, &rq_));
    ensure_eq!(p * q, want, "product", "p * q vs reference Hamilton product");
    ensure_eq!(&p * q, want, "product-ref-lhs", "&p * q");
    ensure_eq!(p * &q, want, "product-ref-rhs", "p * &q");
    ensure_eq!(&p * &q, want, "product-ref-both", "&p * &q");
    ensure_eq!((p * q) * r, p * (q * r), "associative", "(pq)r = p(qr)");
    ensure_eq!(p * (q + r), p * q + p * r, "distributive-left", "p(q+r)");
    ensure_eq!((p + q) * r, p * r + q * r, "distributive-right", "(p+q)r");
    let one = Quaternion::<S>::one();
    ensure_eq!(rq(&one), [S::one(), S::zero(), S::zero(), S::zero()], "one", "one() components");
    {
        use num_traits::{One, Zero};
        ensure!(one.is_one() && zero_q::<S>().is_zero(), "is_one-is_zero", "one().is_one(), zero().is_zero()");
        ensure_eq!(p.is_one(), rp == [S::one(), S::zero(), S::zero(), S::zero()], "is_one", "p.is_one() iff p = (1; 0,0,0)");
        let mut m = p;
        m.set_one();
        ensure_eq!(m, one, "set_one", "set_one()");
        let mut m = p;
        m.set_zero();
        ensure_eq!(rq(&m), [S::zero(); 4], "set_zero", "set_zero()");
    }
    ensure_eq!(p * one, p, "one-right", "p * 1");
    ensure_eq!(one * p, p, "one-left", "1 * p");
    let zero = Quaternion::<S>::zero();
    ensure_eq!(rq(&zero), [S::zero(); 4], "zero", "zero() components");
    ensure_eq!(p + zero, p, "zero-identity", "p + 0");
    ensure_eq!(rq(&p.conjugate()), qconj(&rp), "conjugate", "conjugate(p) components");
    ensure_eq!((p * q).conjugate(), q.conjugate() * p.conjugate(), "conjugate-antihomomorphism", "conj(pq) = conj(q)conj(p)");
    ensure_eq!((p * q).magnitude2(), p.magnitude2() * q.magnitude2(), "norm-multiplicative", "|pq|^2 = |p|^2|q|^2");
    ensure_eq!(p.magnitude2(), qnorm2(&rp), "magnitude2", "magnitude2 vs sum of squares");
    ensure_eq!(p.dot(q), dotn(&rp, &rq_), "dot", "dot(p,q) vs sum of products");
    // component-wise operations
    let f = |g: &dyn Fn(usize) -> S| mk_q(&[g(0), g(1), g(2), g(3)]);
    ensure_eq!(p + q, f(&|i| rp[i] + rq_[i]), "add", "p + q");
    ensure_eq!(p - q, f(&|i| rp[i] - rq_[i]), "sub", "p - q");
    ensure_eq!(-p, f(&|i| -rp[i]), "neg", "-p");
    ensure_eq!(p * a, f(&|i| rp[i] * a), "mul-scalar", "p * a");
    ensure_eq!(p / k, f(&|i| rp[i] / k), "div-scalar", "p / k");
    // the same operations through their other entry points: operands by reference, in place
    ensure_eq!(&p + &q, f(&|i| rp[i] + rq_[i]), "add-ref-ref", "&p + &q");
    ensure_eq!(p + &q, f(&|i| rp[i] + rq_[i]), "add-val-ref", "p + &q");
    ensure_eq!(&p + q, f(&|i| rp[i] + rq_[i]), "add-ref-val", "&p + q");
    ensure_eq!(&p - &q, f(&|i| rp[i] - rq_[i]), "sub-ref-ref", "&p - &q");
    ensure_eq!(p - &q, f(&|i| rp[i] - rq_[i]), "sub-val-ref", "p - &q");
    ensure_eq!(&p - q, f(&|i| rp[i] - rq_[i]), "sub-ref-val", "&p - q");
    ensure_eq!(-&p, f(&|i| -rp[i]), "neg-ref", "-&p");
    ensure_eq!(&p * a, f(&|i| rp[i] * a), "mul-scalar-ref", "&p * a");
    ensure_eq!(&p / k, f(&|i| rp[i] / k), "div-scalar-ref", "&p / k");
    let mut m = p;
    m += q;
    ensure_eq!(m, f(&|i| rp[i] + rq_[i]), "add_assign", "p += q");
    let mut m = p;
    m -= q;
    ensure_eq!(m, f(&|i| rp[i] - rq_[i]), "sub_assign", "p -= q");
    let mut m = p;
    m *= a;
    ensure_eq!(m, f(&|i| rp[i] * a), "mul_assign-scalar", "p *= a");
    let mut m = p;
    m /= k;
    ensure_eq!(m, f(&|i| rp[i] / k), "div_assign-scalar", "p /= k");
    // distributivity with the sum formed in place
    let mut sum = q;
    sum += r;
    ensure_eq!(p * sum, p * q + p * r, "distributive-in-place-sum", "p(q += r) = pq + pr");
    // conjugate twice, from_sv / new agree on the component order
    ensure_eq!(p.conjugate().conjugate(), p, "conjugate-involution", "conj(conj(p)) = p");
    ensure_eq!(Quaternion::from_sv(rp[0], Vector3::new(rp[1], rp[2], rp[3])), Quaternion::new(rp[0], rp[1], rp[2], rp[3]), "from_sv-vs-new", "from_sv(s, v) = new(s, x, y, z)");
    // folds
    let list = [p, q, r];
    let s: Quaternion<S> = list.iter().sum();
    ensure_eq!(s, ((zero + p) + q) + r, "sum-refs", "Sum over references");
    let s: Quaternion<S> = list.iter().cloned().sum();
    ensure_eq!(s, ((zero + p) + q) + r, "sum-values", "Sum over values");
    let m: Quaternion<S> = list.iter().product();
    ensure_eq!(m, ((one * p) * q) * r, "product-refs", "Product over references");
    let m: Quaternion<S> = list.iter().cloned().product();
    ensure_eq!(m, ((one * p) * q) * r, "product-values", "Product over values");
    ensure_eq!(list[..1].iter().sum::<Quaternion<S>>(), p, "sum-single", "sum of one quaternion");
    ensure_eq!(list.iter().filter(|_| true).sum::<Quaternion<S>>(), ((zero + p) + q) + r, "sum-unsized-refs", "Sum over a filtered iterator");
    ensure_eq!(list.iter().cloned().filter(|_| true).sum::<Quaternion<S>>(), ((zero + p) + q) + r, "sum-unsized-values", "Sum over a filtered iterator of values");
    ensure_eq!(list.iter().filter(|_| true).product::<Quaternion<S>>(), ((one * p) * q) * r, "product-unsized-refs", "Product over a filtered iterator");
    ensure_eq!(list.iter().cloned().filter(|_| true).product::<Quaternion<S>>(), ((one * p) * q) * r, "product-unsized-values", "Product over a filtered iterator of values");
    ensure_eq!(list[..1].iter().product::<Quaternion<S>>(), p, "product-single", "product of one quaternion");
    ensure_eq!(list[..0].iter().sum::<Quaternion<S>>(), zero, "sum-empty", "empty sum");
    ensure_eq!(list[..0].iter().product::<Quaternion<S>>(), one, "product-empty", "empty product");
    // inverse
    let n2 = qnorm2(&rp);
    if n2 != S::zero() {
        let inv = Rotation::invert(&p);
        ensure_eq!(p * inv, one, "inverse-right", "p * invert(p)");
        ensure_eq!(inv * p, one, "inverse-left", "invert(p) * p");
    }
    let nt = qgeneric(&[&rp, &rq_, &rr]);
    pass(if nt { "generic" } else { "degenerate" }, nt)
}

/// q * v for arbitrary q, and the rotation laws for exactly unit p, q
fn rotation<S: Sc>(d: &mut Draw) -> Outcome {
    let q = gquat::<S>(d);
    let v = gv3::<S>(d);
    let up = unit_quat::<S>(d);
    let uq = unit_quat::<S>(d);
    d.note("q(arbitrary)", &q);
    d.note("v", &v);
    d.note("unit p [w,x,y,z]", &up);
    d.note("unit q [w,x,y,z]", &uq);
    let two = S::i(2);
    // arbitrary q: q*v = v + 2 qv x (qv x v + s v)
    let qv = [q.v.x, q.v.y, q.v.z];
    let va = v3(v);
    let inner = add3(&cross3(&qv, &va), &scale3(&va, q.s));
    let want = add3(&va, &scale3(&cross3(&qv, &inner), two));
    ensure_eq!(v3(q * v), want, "q*v-formula", "q * v vs v + 2 qv x (qv x v + s v)");
    ensure_eq!(v3(&q * v), want, "q*v-ref-lhs", "&q * v");
    ensure_eq!(v3(q * &v), want, "q*v-ref-rhs", "q * &v");
    ensure_eq!(v3(&q * &v), want, "q*v-ref-both", "&q * &v");
    ensure_eq!(q.rotate_vector(v), q * v, "rotate_vector", "rotate_vector vs *");
    let pt = cgmath::Point3::from_vec(v);
    ensure_eq!(q.rotate_point(pt).to_vec(), q * v, "rotate_point", "rotate_point vs *");
    // unit quaternions
    ensure_eq!(qnorm2(&up), S::one(), "harness-unit", "generator must produce exactly unit quaternions");
    let (p, u) = (mk_q(&up), mk_q(&uq));
    let rv = u * v;
    ensure_eq!(v3(rv), qrot(&uq, &va), "unit-sandwich", "unit q: q*v = vector part of q (0,v) conj(q)");
    ensure_eq!(rv.magnitude2(), v.magnitude2(), "unit-preserves-length", "|q*v|^2 = |v|^2");
    ensure_eq!((p * u) * v, p * (u * v), "unit-composition", "(pq)*v = p*(q*v)");
    ensure_eq!(Rotation::invert(&u), u.conjugate(), "unit-inverse-is-conjugate", "invert(unit q) = conjugate");
    ensure_eq!(Rotation::invert(&u) * (u * v), v, "unit-undo", "invert(q)*(q*v) = v");
    let nt = qgeneric(&[&rq(&q), &up, &uq]) && generic_entries(&va);
    pass(if nt { "generic" } else { "degenerate" }, nt)
}


/// f64: product and rotation against the reference with a rounding-only tolerance, on regimes the
/// exact tiers cannot represent: quaternions within rounding of +-1, tiny vector parts, wide
/// magnitudes, repeated factors
fn product_f64(d: &mut Draw) -> Outcome {
    let class = d.int(0, 3);
    let gen = |d: &mut Draw, class: i64| -> [f64; 4] {
        match class {
            0 => [d.f64_slog(1e-3, 1e3), d.f64_slog(1e-3, 1e3), d.f64_slog(1e-3, 1e3), d.f64_slog(1e-3, 1e3)],
            1 => {
                // unit, rotation by a tiny angle, either sign
                let th = d.f64_log(1e-14, 1e-2);
                let a = f_unit3(d);
                let sg = if d.bool() { 1.0 } else { -1.0 };
                fnormalize4(&[sg * (th / 2.0).cos(), sg * (th / 2.0).sin() * a[0], sg * (th / 2.0).sin() * a[1], sg * (th / 2.0).sin() * a[2]])
            }
            2 => [d.f64_slog(1e-100, 1e100), d.f64_slog(1e-100, 1e100), d.f64_slog(1e-100, 1e100), d.f64_slog(1e-100, 1e100)],
            _ => f_unit_quat(d),
        }
    };
    let p = gen(d, class);
    let cq_ = d.int(0, 3);
    let q = if d.chance(1, 5) { p } else { gen(d, cq_) };
    let v = f_vec3(d, -10.0, 10.0);
    d.note("p [w,x,y,z]", &p);
    d.note("q [w,x,y,z]", &q);
    d.note("v", &v);
    let (cp, cq) = (mk_q(&p), mk_q(&q));
    let want = qmul(&p, &q);
    let got = rq(&(cp * cq));
    // each component is a sum of four products
    let ap: [f64; 4] = [p[0].abs(), p[1].abs(), p[2].abs(), p[3].abs()];
    let aq: [f64; 4] = [q[0].abs(), q[1].abs(), q[2].abs(), q[3].abs()];
    let bound = (ap[0] + ap[1] + ap[2] + ap[3]) * (aq[0] + aq[1] + aq[2] + aq[3]);
    for i in 0..4 {
        ensure!((got[i] - want[i]).abs() <= 8.0 * f64::EPSILON * bound + 1e-300, "product-f64", "component {} of p*q is {:e}, reference {:e}", i, got[i], want[i]);
    }
    // q * v against the documented formula evaluated by the reference
    let qv = [q[1], q[2], q[3]];
    let inner = add3(&cross3(&qv, &v), &scale3(&v, q[0]));
    let wantv = add3(&v, &scale3(&cross3(&qv, &inner), 2.0));
    let gotv = v3(cq * Vector3::from(v));
    let n2 = qnorm2(&q);
    let vb = (1.0 + 4.0 * n2) * (v[0].abs() + v[1].abs() + v[2].abs());
    for i in 0..3 {
        ensure!((gotv[i] - wantv[i]).abs() <= 16.0 * f64::EPSILON * vb + 1e-300, "q*v-f64", "component {} of q*v is {:e}, reference {:e} (q = {:?})", i, gotv[i], wantv[i], q);
    }
    // q * invert(q) = invert(q) * q = one() for every q != 0, whatever its size
    if qnorm2(&q) > 0.0 && qnorm2(&q).is_finite() {
        let inv = cgmath::Rotation::invert(&cq);
        for (name, prod) in [("q*invert(q)", cq * inv), ("invert(q)*q", inv * cq)] {
            let r = rq(&prod);
            ensure!((r[0] - 1.0).abs() <= 32.0 * f64::EPSILON && r[1].abs() <= 32.0 * f64::EPSILON && r[2].abs() <= 32.0 * f64::EPSILON && r[3].abs() <= 32.0 * f64::EPSILON,
                "inverse-f64", "{} = {:?} for q = {:?} (|q|^2 = {:e})", name, r, q, qnorm2(&q));
        }
    }
    // Product / Sum over lists are the plain left folds - also for quaternions that are unit only *nearly* (scaled by
    // 1 + 1e-12 .. 1e-4), where nothing may be "corrected"
    {
        let delta = d.f64_slog(1e-12, 1e-4);
        let near = fnormalize4(&p);
        let nq = mk_q(&[near[0] * (1.0 + delta), near[1] * (1.0 + delta), near[2] * (1.0 + delta), near[3] * (1.0 + delta)]);
        d.note("nearly unit quaternion", &nq);
        for list in [vec![nq], vec![nq, cq], vec![cp, nq, cq], vec![nq, nq, nq, nq]] {
            let mut fp = Quaternion::<f64>::one();
            let mut fs = Quaternion::<f64>::zero();
            for x in &list {
                fp = fp * *x;
                fs = fs + *x;
            }
            let (pv, pr): (Quaternion<f64>, Quaternion<f64>) = (list.iter().cloned().product(), list.iter().product());
            let (sv, sr): (Quaternion<f64>, Quaternion<f64>) = (list.iter().cloned().sum(), list.iter().sum());
            let same = |x: &Quaternion<f64>, y: &Quaternion<f64>| rq(x).iter().zip(rq(y).iter()).all(|(a, b)| a.to_bits() == b.to_bits() || (a.is_nan() && b.is_nan()));
            ensure!(same(&pv, &fp) && same(&pr, &fp), "product-fold-f64", "Product over {} quaternions is {:?} / {:?}, the left fold from one() gives {:?}", list.len(), pv, pr, fp);
            ensure!(same(&sv, &fs) && same(&sr, &fs), "sum-fold-f64", "Sum over {} quaternions is {:?} / {:?}, the left fold from zero() gives {:?}", list.len(), sv, sr, fs);
        }
        // a nearly unit quaternion is still inverted exactly: q * invert(q) = 1
        let inv = cgmath::Rotation::invert(&nq);
        let r = rq(&(nq * inv));
        ensure!((r[0] - 1.0).abs() <= 32.0 * f64::EPSILON && r[1].abs() + r[2].abs() + r[3].abs() <= 32.0 * f64::EPSILON, "inverse-near-unit-f64", "q * invert(q) = {:?} for the nearly unit q = {:?}", r, nq);
        // and rotates like the formula says (no renormalisation on the way)
        let qa = rq(&nq);
        let qv = [qa[1], qa[2], qa[3]];
        let inner = add3(&cross3(&qv, &v), &scale3(&v, qa[0]));
        let wantv = add3(&v, &scale3(&cross3(&qv, &inner), 2.0));
        let gotv = v3(nq * Vector3::from(v));
        for i in 0..3 {
            ensure!((gotv[i] - wantv[i]).abs() <= 64.0 * f64::EPSILON * (v[0].abs() + v[1].abs() + v[2].abs()) + 1e-300, "q*v-near-unit-f64", "component {} of q*v is {:e}, reference {:e} for the nearly unit q", i, gotv[i], wantv[i]);
        }
    }
    // the norm and the inverse at every scale at which |q|^2 is still a finite, normal number: scaling by a power of two
    // is exact, so |2^k q|^2 = 4^k |q|^2 bit for bit and (2^k q) * invert(2^k q) = 1 to rounding, for |k| up to 500
    {
        let base = fnormalize4(&p);
        let k = d.int(-500, 500) as i32;
        let sc = (2.0f64).powi(k);
        let sq = mk_q(&[base[0] * sc, base[1] * sc, base[2] * sc, base[3] * sc]);
        let m2 = mk_q(&base).magnitude2();
        let want = m2 * sc * sc;
        ensure!(sq.magnitude2().to_bits() == want.to_bits(), "magnitude2-scaled-f64", "|2^{} q|^2 = {:e}, expected 4^{} |q|^2 = {:e}", k, sq.magnitude2(), k, want);
        ensure!(sq.magnitude().to_bits() == (mk_q(&base).magnitude() * sc).to_bits() || (sq.magnitude() - mk_q(&base).magnitude() * sc).abs() <= 2.0 * f64::EPSILON * sc, "magnitude-scaled-f64", "|2^{} q| = {:e}", k, sq.magnitude());
        ensure!(sq.dot(sq).to_bits() == sq.magnitude2().to_bits(), "magnitude2-vs-dot-f64", "magnitude2 != dot(q,q) for q scaled by 2^{}", k);
        let inv = cgmath::Rotation::invert(&sq);
        let r = rq(&(sq * inv));
        ensure!((r[0] - 1.0).abs() <= 32.0 * f64::EPSILON && r[1].abs() + r[2].abs() + r[3].abs() <= 32.0 * f64::EPSILON, "inverse-scaled-f64", "q * invert(q) = {:?} for q of magnitude 2^{}", r, k);
        // norm multiplicativity with one factor huge and the other tiny
        let other = mk_q(&[q[0] / sc, q[1] / sc, q[2] / sc, q[3] / sc]);
        if class != 2 && cq_ != 2 && other.magnitude2().is_normal() {
            let lhs = (sq * other).magnitude2();
            let rhs = sq.magnitude2() * other.magnitude2();
            ensure!(lhs.is_finite() && (lhs - rhs).abs() <= 4096.0 * f64::EPSILON * rhs.abs(), "norm-multiplicative-scaled-f64", "|pq|^2 = {:e} but |p|^2 |q|^2 = {:e} (p of magnitude 2^{}, q of magnitude 2^-{})", lhs, rhs, k, k);
        }
    }
    // division by a scalar is division of each component, whatever the divisor's size (its reciprocal may not exist as a
    // float although every quotient does); and a quaternion whose squared norm is subnormal still has its inverse
    {
        let div = match d.int(0, 3) {
            0 => f64::from_bits(d.int(1, 1 << 40) as u64),
            1 => d.f64_slog(1e-307, 1e-290),
            2 => d.f64_slog(1e290, 1e307),
            _ => d.f64_slog(1e-3, 1e3),
        } * if d.bool() { 1.0 } else { -1.0 };
        let num = if div.abs() < 1e-200 { mk_q(&[p[0] * 1e-300, p[1] * 1e-300, p[2] * 1e-300, p[3] * 1e-300]) } else { cp };
        let na = rq(&num);
        let got = rq(&(num / div));
        let gotr = rq(&(&num / div));
        let mut ip = num;
        ip /= div;
        for i in 0..4 {
            let want = na[i] / div;
            ensure!(got[i].to_bits() == want.to_bits() || (got[i].is_nan() && want.is_nan()), "div-scalar-f64", "component {} of q / {:e} is {:e}, q_i / k = {:e}", i, div, got[i], want);
            ensure!(gotr[i].to_bits() == got[i].to_bits() || got[i].is_nan(), "div-scalar-ref-f64", "&q / k differs from q / k in component {}", i);
            ensure!(rq(&ip)[i].to_bits() == got[i].to_bits() || got[i].is_nan(), "div_assign-scalar-f64", "q /= k differs from q / k in component {}", i);
        }
        // |q|^2 between 2^-1060 and 2^-1024: subnormal, but not zero, and conj(q)/|q|^2 is an ordinary finite quaternion
        let base = fnormalize4(&p);
        let k = -(d.int(513, 528) as i32);
        let sc = (2.0f64).powi(k);
        let sq = mk_q(&[base[0] * sc, base[1] * sc, base[2] * sc, base[3] * sc]);
        if sq.magnitude2() > 0.0 {
            let inv = cgmath::Rotation::invert(&sq);
            let r = rq(&(sq * inv));
            // the squared norm keeps 52 - (1022 + 2k) of its bits down there
            let lost = (2.0f64).powi(-(52 - ((-2 * k) - 1022)).max(1));
            ensure!(r.iter().all(|x| x.is_finite()) && (r[0] - 1.0).abs() <= 8.0 * lost && r[1].abs() + r[2].abs() + r[3].abs() <= 8.0 * lost, "inverse-tiny-f64", "q * invert(q) = {:?} for q of magnitude 2^{} (|q|^2 = {:e})", r, k, sq.magnitude2());
        }
    }
    // q * v is linear in v: multiplying v by a power of two multiplies the result by it, exactly - all the way up to the
    // top binade, as long as every quantity of the statement's own formula (v, qv x v + s v, qv x (..), twice that, the
    // sum) is a finite number there
    let mut top = "";
    {
        let uq = match d.int(0, 3) {
            0 => [1.0, 0.0, 0.0, 0.0],
            1 => [-1.0, 0.0, 0.0, 0.0],
            2 => gen(d, 1),
            _ => fnormalize4(&p),
        };
        let m = v[0].abs().max(v[1].abs()).max(v[2].abs());
        if m > 0.0 && uq.iter().all(|x| x.is_finite()) {
            // the largest component lands in [2^1023, 2^1024), or a few binades below
            let e = 1023 - m.log2().floor() as i32 - d.pick(&[0i64, 0, 0, 1, 2, 40]) as i32;
            let e = if m * (2.0f64).powi(e / 2) * (2.0f64).powi(e - e / 2) == f64::INFINITY { e - 1 } else { e };
            let up = |x: f64| x * (2.0f64).powi(e / 2) * (2.0f64).powi(e - e / 2);
            let vs = [up(v[0]), up(v[1]), up(v[2])];
            let qv = [uq[1], uq[2], uq[3]];
            let inner = add3(&cross3(&qv, &vs), &scale3(&vs, uq[0]));
            let c = cross3(&qv, &inner);
            let res = add3(&vs, &scale3(&c, 2.0));
            let fin = |t: &[f64; 3]| t.iter().all(|x| x.is_finite());
            // (the cross products' two terms are formed separately: bound them by the products of the largest entries)
            let big = |a: &[f64; 3], b: &[f64; 3]| 2.0 * a.iter().fold(0.0f64, |s, x| s.max(x.abs())) * b.iter().fold(0.0f64, |s, x| s.max(x.abs()));
            if fin(&vs) && fin(&inner) && fin(&c) && fin(&res) && fin(&scale3(&c, 2.0)) && big(&qv, &vs).is_finite() && big(&qv, &inner).is_finite() && (2.0 * big(&qv, &inner)).is_finite() {
                let cu = mk_q(&uq);
                let small = v3(cu * Vector3::from(v));
                let got = v3(cu * Vector3::from(vs));
                let gotr = v3(cu.rotate_vector(Vector3::from(vs)));
                d.note("unit q, v scaled into the top binades", &(uq, vs));
                for i in 0..3 {
                    let want = up(small[i]);
                    ensure!(got[i].is_finite() && (got[i] - want).abs() <= 8.0 * f64::EPSILON * up(m), "q*v-scale-covariance-f64", "component {} of q * (2^{} v) is {:e}, 2^{} (q * v) = {:e} (q = {:?}, v = {:?})", i, e, got[i], e, want, uq, v);
                    ensure!(gotr[i].to_bits() == got[i].to_bits(), "rotate_vector-f64", "rotate_vector differs from * in component {} for a vector in the top binades", i);
                }
                top = "+top-binade-vector";
            }
        }
    }
    // scalar on the left (primitive floats only) and the remaining scalar forms: exact per component
    let k = if class == 2 { 1.5 } else { d.f64_slog(1e-3, 1e3) };
    let left = rq(&(k * cp));
    let leftr = rq(&(k * &cp));
    let ldiv = rq(&(k / cp));
    let rem = rq(&(cp % k));
    let mut inplace = cp;
    inplace %= k;
    for i in 0..4 {
        ensure!(left[i].to_bits() == (k * p[i]).to_bits() && leftr[i].to_bits() == left[i].to_bits(), "scalar-left-mul-f64", "component {} of k * p is {:e}, k * p_i = {:e}", i, left[i], k * p[i]);
        ensure!(ldiv[i].to_bits() == (k / p[i]).to_bits(), "scalar-left-div-f64", "component {} of k / p is {:e}, k / p_i = {:e}", i, ldiv[i], k / p[i]);
        ensure!(rem[i].to_bits() == (p[i] % k).to_bits() && rq(&inplace)[i].to_bits() == rem[i].to_bits(), "rem-f64", "component {} of p % k is {:e}, p_i % k = {:e}", i, rem[i], p[i] % k);
    }
    let _ = top;
    pass(match (class, top.is_empty()) {
        (0, true) => "generic", (1, true) => "near-one", (2, true) => "wide-magnitudes", (_, true) => "unit",
        (0, false) => "generic+top-binade-vector", (1, false) => "near-one+top-binade-vector", (2, false) => "wide-magnitudes+top-binade-vector", (_, false) => "unit+top-binade-vector",
    }, true)
}

const RULE: &str = "all four components of every quaternion non-zero; vector components non-zero and pairwise distinct";

pub fn property() -> Property {
    let mut s = Vec::new();
    macro_rules! add {
        ($name:expr, $scalar:expr, $f:expr, $q:expr, $t:expr, $len:expr, $req:expr) => {
            s.push(SubCheck { name: $name, scalar: $scalar, quick: $q, thorough: $t, len: $len, f: $f, required: $req, rule: RULE, exhaustive: false });
        };
    }
    add!("algebra-Q", "Q", algebra::<Q>, 5000, 400_000, 64, &[("generic", 200)]);
    add!("algebra-Fp", "Fp", algebra::<Fp>, 5000, 400_000, 64, &[("generic", 200)]);
    add!("rotation-Q", "Q", rotation::<Q>, 5000, 400_000, 64, &[("generic", 100)]);
    add!("rotation-Fp", "Fp", rotation::<Fp>, 5000, 400_000, 96, &[("generic", 200)]);
    add!("product_rotation-f64", "f64", product_f64, 8000, 500_000, 128, &[("generic+top-binade-vector", 50), ("near-one+top-binade-vector", 50), ("wide-magnitudes+top-binade-vector", 50), ("unit+top-binade-vector", 50)]);
    Property {
        id: "C04",
        title: "Quaternions obey Hamilton's algebra and unit quaternions act as rotations",
        subchecks: s,
        assumptions: &[
            "exactly unit quaternions are constructed as p^2/|p|^2 (every rational unit quaternion except -1 arises this way)",
            "the reference product is the 4x4 left-multiplication matrix form, independent of the expression in the source",
        ],
        fuzz: false,
    }
}
