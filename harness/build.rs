fn main(){}
