pub mod runner;
pub mod props {
    use vcore::engine::Property;
    pub fn all() -> Vec<Property> {
        let mut v = Vec::new();
        v.extend(vp1::all());
        v.extend(vp2::all());
        v.extend(vp3::all());
        v.extend(vp4::all());
        v.extend(vp5::all());
        v.extend(vp6::all());
        v.sort_by_key(|p| p.id);
        v
    }
    pub fn by_id(id: &str) -> Option<Property> {
        all().into_iter().find(|p| p.id == id)
    }
}

/// Entry point of the coverage-guided target (`/verif/fuzz`, libFuzzer).
/// byte 0 selects the property (among those marked `fuzz`, or the one named by VCHECK_FUZZ_PROP),
/// byte 1 the sub-check, the rest is the raw u32 vector (little endian, zero padded).
/// A non-listed oracle failure writes a replay file and aborts, so that libFuzzer saves the input.
pub fn fuzz_one(data: &[u8]) {
    use std::sync::OnceLock;
    use vcore::engine::*;
    static STATE: OnceLock<(Vec<Property>, Findings)> = OnceLock::new();
    let (plist, findings) = STATE.get_or_init(|| {
        // libfuzzer-sys aborts on every panic; the sub-checks need to observe required panics
        install_silent_panic_hook();
        let only = std::env::var("VCHECK_FUZZ_PROP").ok();
        let mut v: Vec<Property> = props::all().into_iter().filter(|p| match &only {
            Some(id) => p.id == id,
            None => p.fuzz,
        }).collect();
        if v.is_empty() {
            v = props::all();
        }
        (v, Findings::load(&format!("{}/known_findings.json", runner::VERIF_DIR)))
    });
    if data.len() < 2 {
        return;
    }
    let p = &plist[data[0] as usize % plist.len()];
    let sc = &p.subchecks[data[1] as usize % p.subchecks.len()];
    let raw = bytes_to_raw(&data[2..], sc.len);
    let r = exec_case(sc, &raw, false);
    if let Outcome::Fail { sig, msg } = r.outcome {
        if findings.is_known(p.id, sc.name, sig).is_some() {
            return;
        }
        let rec = exec_case(sc, &raw, true);
        let f = Failure { subcheck: sc.name.to_string(), raw, sig: sig.to_string(), msg: msg.clone(), notes: rec.notes };
        let path = write_replay(&format!("{}/replays", runner::VERIF_DIR), p.id, &f);
        eprintln!("FUZZ-FAILURE property={} subcheck={} signature={} replay={}\n  {}", p.id, sc.name, sig, path, msg);
        std::process::abort();
    }
}

pub fn bytes_to_raw(data: &[u8], len: usize) -> Vec<u32> {
    let mut raw = vec![0u32; len];
    for (i, ch) in data.chunks(4).take(len).enumerate() {
        let mut b = [0u8; 4];
        b[..ch.len()].copy_from_slice(ch);
        raw[i] = u32::from_le_bytes(b);
    }
    raw
}

pub fn raw_to_bytes(prop_index: u8, sub_index: u8, raw: &[u32]) -> Vec<u8> {
    let mut out = vec![prop_index, sub_index];
    for r in raw {
        out.extend_from_slice(&r.to_le_bytes());
    }
    out
}
