pub mod runner;
pub mod props {
    use vcore::engine::Property;
    pub fn all() -> Vec<Property> {
        let mut v = Vec::new();
        v.extend(vp1::all());
        v.extend(vp2::all());
        v.extend(vp3::all());
        v.extend(vp4::all());
        v.extend(vp5::all());
        v.extend(vp6::all());
        v.sort_by_key(|p| p.id);
        v
    }
    pub fn by_id(id: &str) -> Option<Property> {
        all().into_iter().find(|p| p.id == id)
    }
}
