//! Property-level orchestration: run every sub-check (in parallel), aggregate, write evidence,
//! print VIOLATION / KNOWN-FINDING lines, decide the exit code.

use vcore::engine::*;
use serde_json::{json, Value};
use std::collections::BTreeMap;
use std::time::Instant;

pub const VERIF_DIR: &str = "/verif";
pub const DEFAULT_SEED: u64 = 0x5EED_C0DE;
/// multiplier applied to every sub-check's base quick count
pub const QUICK_SCALE: u32 = 12;

pub struct RunOpts {
    pub tier: String,
    pub seed: u64,
    pub only: Option<String>,
    pub write_evidence: bool,
    /// multiply case counts (used by soak runs)
    pub scale: f64,
}

pub struct RunResult {
    pub exit: i32,
}

fn shards_for(tier: &str) -> u32 {
    if tier == "thorough" {
        4
    } else {
        1
    }
}

pub fn run_property(p: &Property, opts: &RunOpts) -> RunResult {
    let t0 = Instant::now();
    let findings = Findings::load(&format!("{}/known_findings.json", VERIF_DIR));
    let thorough = opts.tier == "thorough";
    let shards = shards_for(&opts.tier);

    // 1. corpus replay (saved regression / boundary cases)
    let mut corpus_replayed = 0u64;
    let mut violations: Vec<(String, Failure)> = Vec::new();
    let corpus_dir = format!("{}/corpus/{}", VERIF_DIR, p.id);
    if let Ok(rd) = std::fs::read_dir(&corpus_dir) {
        let mut files: Vec<_> = rd.filter_map(|e| e.ok()).map(|e| e.path()).collect();
        files.sort();
        for f in files {
            if f.extension().map_or(true, |e| e != "json") {
                continue;
            }
            let path = f.to_string_lossy().to_string();
            if let Ok((_, sub, raw)) = read_replay(&path) {
                if let Some(sc) = p.subchecks.iter().find(|s| s.name == sub) {
                    corpus_replayed += 1;
                    let r = exec_case(sc, &raw, true);
                    if let Outcome::Fail { sig, msg } = r.outcome {
                        if findings.is_known(p.id, sc.name, sig).is_none() {
                            violations.push((
                                path.clone(),
                                Failure {
                                    subcheck: sub.clone(),
                                    raw,
                                    sig: sig.to_string(),
                                    msg,
                                    notes: r.notes,
                                },
                            ));
                        }
                    }
                }
            }
        }
    }

    // 2. generated search, sub-checks x shards in parallel
    let subs: Vec<&SubCheck> = p
        .subchecks
        .iter()
        .filter(|s| opts.only.as_ref().map_or(true, |o| o.split(',').any(|o| s.name == o || s.name.starts_with(o))))
        .collect();
    if subs.is_empty() {
        eprintln!("INCONCLUSIVE property={} no sub-check matches --only {:?}", p.id, opts.only);
        return RunResult { exit: 2 };
    }
    let jobs: Vec<(usize, u32)> =
        (0..subs.len()).flat_map(|i| (0..shards).map(move |s| (i, s))).collect();
    let next = std::sync::atomic::AtomicUsize::new(0);
    let results = std::sync::Mutex::new(Vec::<(usize, SubReport)>::new());
    let nthreads = std::thread::available_parallelism().map(|n| n.get()).unwrap_or(8).min(jobs.len().max(1));
    std::thread::scope(|scope| {
        for _ in 0..nthreads {
            scope.spawn(|| loop {
                let j = next.fetch_add(1, std::sync::atomic::Ordering::SeqCst);
                if j >= jobs.len() {
                    break;
                }
                let (i, shard) = jobs[j];
                let sc = subs[i];
                // quick = fixed work, a few seconds per property; thorough = the per-sub-check deep counts
                let base = if thorough { sc.thorough } else { sc.quick.saturating_mul(QUICK_SCALE) };
                let cases = (((base as f64) * opts.scale / shards as f64).ceil() as u32).max(1);
                let rep = run_subcheck(p.id, sc, opts.seed, shard, cases, &findings);
                results.lock().unwrap().push((i, rep));
            });
        }
    });
    let mut merged: BTreeMap<usize, SubReport> = BTreeMap::new();
    let mut rs = results.into_inner().unwrap();
    rs.sort_by_key(|(i, _)| *i);
    for (i, rep) in rs {
        match merged.get_mut(&i) {
            Some(m) => m.merge(rep),
            None => {
                merged.insert(i, rep);
            }
        }
    }

    // 3. aggregate
    let mut evaluations = 0u64;
    let mut distinct = 0u64;
    let mut configs = 0u64;
    let mut per_sub = serde_json::Map::new();
    let mut samples: Vec<Value> = Vec::new();
    let mut inconclusive: Vec<String> = Vec::new();
    let mut known_lines: Vec<String> = Vec::new();
    let mut all_exhaustive = !subs.is_empty();

    for (i, rep) in merged.iter() {
        let sc = subs[*i];
        evaluations += rep.evaluations;
        distinct += rep.nontrivial.len() as u64;
        configs += rep.configs;
        all_exhaustive &= sc.exhaustive;
        let discards = rep.discard_total();
        if let Some(n) = rep.discards.iter().find(|(k, _)| k.starts_with("HARNESS")).map(|(_, v)| *v) {
            inconclusive.push(format!("{}: {} cases exhausted the draw vector (len {})", sc.name, n, sc.len));
        }
        if rep.evaluations >= 200 && discards * 5 > rep.evaluations {
            inconclusive.push(format!(
                "{}: discard rate {}/{} above 20% ({:?})",
                sc.name, discards, rep.evaluations, rep.discards
            ));
        }
        if rep.failure.is_none() {
            for (class, per_mille) in sc.required {
                let got = rep.classes.get(*class).copied().unwrap_or(0);
                let need = (rep.evaluations * (*per_mille as u64)) / 1000;
                if rep.evaluations >= 200 && got < need.max(1) {
                    inconclusive.push(format!(
                        "{}: generator reached class '{}' only {} times in {} cases (need {})",
                        sc.name, class, got, rep.evaluations, need
                    ));
                }
            }
        }
        // samples: re-run the first stored raw vector of each class with recording on
        for (class, raws) in rep.sample_raws.iter() {
            if samples.len() >= 40 {
                break;
            }
            if let Some(raw) = raws.first() {
                let r = exec_case(sc, raw, true);
                samples.push(json!({
                    "subcheck": sc.name,
                    "class": class,
                    "scalar": sc.scalar,
                    "decoded": notes_json(&r.notes),
                    "raw_prefix": raw.iter().take(12).collect::<Vec<_>>(),
                }));
            }
        }
        for (sig, n) in rep.known_hits.iter() {
            if let Some(f) = findings.is_known(p.id, sc.name, sig) {
                known_lines.push(format!(
                    "KNOWN-FINDING: property={} subcheck={} signature={} hits={} {}",
                    p.id, sc.name, sig, n, f.what
                ));
            }
        }
        if let Some(f) = rep.failure.clone() {
            if f.sig == "abort" {
                inconclusive.push(format!("{}: {}", sc.name, f.msg));
            } else {
                let path = write_replay(&format!("{}/replays", VERIF_DIR), p.id, &f);
                violations.push((path, f));
            }
        }
        per_sub.insert(
            sc.name.to_string(),
            json!({
                "scalar": sc.scalar,
                "evaluations": rep.evaluations,
                "distinct_nontrivial": rep.nontrivial.len(),
                "configurations_covered": rep.configs,
                "classes": rep.classes,
                "required_classes_per_mille": sc.required.iter().map(|(c, m)| (c.to_string(), *m)).collect::<std::collections::BTreeMap<String, u32>>(),
                "draw_vector_len": sc.len,
                "max_draws_used": rep.max_consumed,
                "discards": rep.discards,
                "known_finding_hits": rep.known_hits,
                "nontrivial_rule": sc.rule,
                "exhaustive_sweep_per_case": sc.exhaustive,
                "wall_s": (rep.wall_s * 1000.0).round() / 1000.0,
            }),
        );
    }

    // known findings are reported even when the search happened not to hit them this time
    for f in findings.all.iter().filter(|f| f.status == "known" && f.property == p.id) {
        if !known_lines.iter().any(|l| l.contains(&format!("signature={}", f.signature))) {
            known_lines.push(format!(
                "KNOWN-FINDING: property={} subcheck={} signature={} hits=0 {}",
                p.id, f.subcheck, f.signature, f.what
            ));
        }
    }

    let wall = t0.elapsed().as_secs_f64();
    let rule = format!(
        "cases are fixed-length u32 vectors from proptest (seeded, shrinkable) decoded by construction into the \
         inputs of each sub-check; a case counts as non-trivial by the per-sub-check rule listed under per_subcheck \
         (nontrivial_rule) and as distinct by a 64-bit hash of its decoded draw values; distinct_nontrivial is the \
         sum over sub-checks of the sizes of those hash sets"
    );
    if opts.write_evidence {
        let ev = json!({
            "property_id": p.id,
            "tier": if thorough { "thorough" } else { "quick" },
            "seed": opts.seed as i64,
            "level": "exploration",
            "coverage": {
                "evaluations": evaluations + corpus_replayed,
                "distinct_nontrivial": distinct,
                "rule": rule,
                "samples": samples,
                "exhaustive": all_exhaustive,
                "configurations_covered": configs,
                "corpus_replayed": corpus_replayed,
                "per_subcheck": Value::Object(per_sub),
                "inconclusive": inconclusive,
            },
            "assumptions": p.assumptions,
            "wall_s": (wall * 1000.0).round() / 1000.0,
            "violations": violations.len(),
        });
        let _ = std::fs::create_dir_all(format!("{}/evidence", VERIF_DIR));
        let path = format!("{}/evidence/{}.json", VERIF_DIR, p.id);
        if let Err(e) = std::fs::write(&path, serde_json::to_string_pretty(&ev).unwrap()) {
            eprintln!("cannot write {}: {}", path, e);
            return RunResult { exit: 2 };
        }
    }

    for l in &known_lines {
        println!("{}", l);
    }
    if !violations.is_empty() {
        for (path, f) in &violations {
            println!("VIOLATION property={} replay={}", p.id, path);
            println!("  subcheck={} signature={}", f.subcheck, f.sig);
            println!("  {}", f.msg);
            for (k, v) in f.notes.iter().take(24) {
                println!("    {} = {}", k, v);
            }
        }
        return RunResult { exit: 1 };
    }
    if !inconclusive.is_empty() {
        for l in &inconclusive {
            println!("INCONCLUSIVE property={} {}", p.id, l);
        }
        return RunResult { exit: 2 };
    }
    println!(
        "OK property={} tier={} seed={} subchecks={} evaluations={} distinct_nontrivial={} wall_s={:.2}",
        p.id,
        opts.tier,
        opts.seed,
        subs.len(),
        evaluations,
        distinct,
        wall
    );
    RunResult { exit: 0 }
}

/// `--replay FILE`: run one saved vector through the plain function (no library involved)
pub fn replay(p: &Property, path: &str) -> i32 {
    let findings = Findings::load(&format!("{}/known_findings.json", VERIF_DIR));
    let (_, sub, raw) = match read_replay(path) {
        Ok(x) => x,
        Err(e) => {
            eprintln!("replay: {}", e);
            return 2;
        }
    };
    let sc = match p.subchecks.iter().find(|s| s.name == sub) {
        Some(s) => s,
        None => {
            eprintln!("replay: property {} has no sub-check '{}'", p.id, sub);
            return 2;
        }
    };
    let r = exec_case(sc, &raw, true);
    for (k, v) in &r.notes {
        println!("    {} = {}", k, v);
    }
    match r.outcome {
        Outcome::Fail { sig, msg } => {
            if let Some(f) = findings.is_known(p.id, sc.name, sig) {
                println!("KNOWN-FINDING: property={} subcheck={} signature={} {}", p.id, sc.name, sig, f.what);
                return 0;
            }
            println!("VIOLATION property={} replay={}", p.id, path);
            println!("  subcheck={} signature={}", sc.name, sig);
            println!("  {}", msg);
            1
        }
        Outcome::Pass { class, .. } => {
            println!("OK replay passes (class {})", class);
            0
        }
        Outcome::Discard(why) => {
            println!("OK replay discarded ({})", why);
            0
        }
    }
}
