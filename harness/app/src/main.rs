use vcore::engine::install_silent_panic_hook;
use vcheck::props;
use vcheck::runner::{replay, run_property, RunOpts, DEFAULT_SEED};

fn usage() -> ! {
    eprintln!("usage: vcheck --prop <ID> [--tier quick|thorough] [--seed N] [--only SUBCHECK] [--replay FILE] [--scale X] [--no-evidence] | --list");
    std::process::exit(2)
}

fn main() {
    let args: Vec<String> = std::env::args().skip(1).collect();
    let mut prop = None;
    let mut tier = std::env::var("VERIF_TIER").ok().filter(|t| t == "quick" || t == "thorough");
    let mut seed: Option<u64> = std::env::var("VERIF_SEED").ok().and_then(|s| s.trim().parse::<i128>().ok()).map(|v| v as u64);
    let mut only = None;
    let mut replay_file = None;
    let mut scale = 1.0f64;
    let mut write_evidence = true;
    let mut has_fuzz_query = false;
    let mut emit_corpus: Option<String> = None;
    let mut explicit_tier = None;
    let mut i = 0;
    while i < args.len() {
        match args[i].as_str() {
            "--prop" => { i += 1; prop = args.get(i).cloned(); }
            "--tier" => { i += 1; explicit_tier = args.get(i).cloned(); }
            "--seed" => { i += 1; seed = args.get(i).and_then(|s| s.parse::<i128>().ok()).map(|v| v as u64); }
            "--only" => { i += 1; only = args.get(i).cloned(); }
            "--replay" => { i += 1; replay_file = args.get(i).cloned(); }
            "--scale" => { i += 1; scale = args.get(i).and_then(|s| s.parse().ok()).unwrap_or(1.0); }
            "--no-evidence" => write_evidence = false,
            "--has-fuzz" => has_fuzz_query = true,
            "--emit-corpus" => { i += 1; emit_corpus = args.get(i).cloned(); }
            "--list" => {
                for p in props::all() {
                    println!("{} {} ({} sub-checks)", p.id, p.title, p.subchecks.len());
                    for s in &p.subchecks {
                        println!("    {:40} {:5} quick={} thorough={}", s.name, s.scalar, s.quick, s.thorough);
                    }
                }
                return;
            }
            _ => usage(),
        }
        i += 1;
    }
    // the tier named on the command line (quick_cmd / thorough_cmd) wins; VERIF_TIER is the default otherwise
    if explicit_tier.is_some() { tier = explicit_tier; }
    let tier = tier.unwrap_or_else(|| "quick".to_string());
    if tier != "quick" && tier != "thorough" { usage(); }
    let prop = match prop { Some(p) => p, None => usage() };
    let p = match props::by_id(&prop) {
        Some(p) => p,
        None => { eprintln!("unknown property {}", prop); std::process::exit(2) }
    };
    if has_fuzz_query {
        std::process::exit(if p.fuzz { 0 } else { 1 });
    }
    install_silent_panic_hook();
    if let Some(dir) = emit_corpus {
        // seed corpus for the libFuzzer target: a few generated cases per sub-check and class
        let _ = std::fs::create_dir_all(&dir);
        let findings = vcore::engine::Findings::default();
        let mut n = 0;
        for (si, sc) in p.subchecks.iter().enumerate() {
            let rep = vcore::engine::run_subcheck(p.id, sc, seed.unwrap_or(DEFAULT_SEED), 0, 64, &findings);
            for (_, raws) in rep.sample_raws.iter() {
                for raw in raws {
                    let bytes = vcheck::raw_to_bytes(0, (si % 256) as u8, raw);
                    let _ = std::fs::write(format!("{}/seed-{}-{:03}", dir, p.id, n), bytes);
                    n += 1;
                }
            }
        }
        println!("wrote {} corpus files to {}", n, dir);
        return;
    }
    if let Some(f) = replay_file {
        std::process::exit(replay(&p, &f));
    }
    let opts = RunOpts { tier, seed: seed.unwrap_or(DEFAULT_SEED), only, write_evidence, scale };
    let r = run_property(&p, &opts);
    std::process::exit(r.exit);
}
