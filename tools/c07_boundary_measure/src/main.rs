use cgmath::{Euler, Quaternion, Rad};
fn lcg(s: &mut u64) -> f64 { *s = s.wrapping_mul(6364136223846793005).wrapping_add(1442695040888963407); ((*s >> 11) as f64) / ((1u64 << 53) as f64) }
fn refq(x: f64, y: f64, z: f64) -> [f64; 4] {
    // intrinsic X-Y-Z: q = qx * qy * qz
    let (sx, cx) = (x / 2.0).sin_cos(); let (sy, cy) = (y / 2.0).sin_cos(); let (sz, cz) = (z / 2.0).sin_cos();
    let a = [cx, sx, 0.0, 0.0]; let b = [cy, 0.0, sy, 0.0]; let c = [cz, 0.0, 0.0, sz];
    let m = |p: [f64; 4], q: [f64; 4]| [p[0]*q[0]-p[1]*q[1]-p[2]*q[2]-p[3]*q[3], p[0]*q[1]+p[1]*q[0]+p[2]*q[3]-p[3]*q[2], p[0]*q[2]-p[1]*q[3]+p[2]*q[0]+p[3]*q[1], p[0]*q[3]+p[1]*q[2]-p[2]*q[1]+p[3]*q[0]];
    m(m(a, b), c)
}
fn main() {
    let mut s = 12345u64;
    let (mut n, mut skipped, mut below_snapped, mut above_regular, mut below, mut above, mut exact_eq) = (0u64, 0u64, 0u64, 0u64, 0u64, 0u64, 0u64);
    let mut sample = Vec::new();
    let y0 = 0.998f64.asin();
    for _ in 0..4_000_000 {
        let sgn = if lcg(&mut s) < 0.5 { 1.0 } else { -1.0 };
        let y = sgn * (y0 + (lcg(&mut s) - 0.5) * 8e-6);
        let u = refq((lcg(&mut s) - 0.5) * 6.28, y, (lcg(&mut s) - 0.5) * 6.28);
        let q = [u[0] as f32, u[1] as f32, u[2] as f32, u[3] as f32];
        // exact integers: component * 2^30
        let mut iq = [0i128; 4]; let mut ok = true;
        for k in 0..4 { let v = (q[k] as f64) * (1u64 << 30) as f64; if v.fract() != 0.0 { ok = false; } iq[k] = v as i128; }
        if !ok { skipped += 1; continue; }
        n += 1;
        let test = iq[1] * iq[3] + iq[0] * iq[2];            // (xz + wy) * 2^60
        let unit: i128 = iq.iter().map(|c| c * c).sum();      // |q|^2 * 2^60
        let true_below = 1000 * test.abs() <= 499 * unit;     // |sin y| <= 0.998 exactly
        if 1000 * test.abs() == 499 * unit { exact_eq += 1; }
        let e: Euler<Rad<f32>> = Euler::from(Quaternion::new(q[0], q[1], q[2], q[3]));
        let snapped = e.x.0 == 0.0 && e.y.0.abs() == std::f32::consts::FRAC_PI_2;
        if true_below { below += 1; if snapped { below_snapped += 1; if sample.len() < 3 { sample.push(q.iter().map(|c| format!("{:#010x}", c.to_bits())).collect::<Vec<_>>().join(" ")); } } }
        else { above += 1; if !snapped { above_regular += 1; } }
    }
    println!("f32 quaternions with |asin(0.998) - |y|| < 4e-6: evaluated {} (skipped {}), exact |sin y| <= 0.998: {} of which the UNCHANGED library snaps to the cone: {}; exact |sin y| > 0.998: {} of which not snapped: {}; exactly equal: {}", n, skipped, below, below_snapped, above, above_regular, exact_eq);
    for l in sample { println!("  e.g. [w x y z] bits {}", l); }
}
