#!/usr/bin/env python3
"""Write the adversary prompts for one more round of independently written breaking changes.
usage: tools/seed_prompts.py <round-letter> <outdir>     e.g.  tools/seed_prompts.py d /tmp/seed
The prompt contains the property text and the one-sentence descriptions of the earlier rounds' changes
(their authors' words) so that the new change differs from them; nothing about /verif's checks."""
import json, sys, os, glob

letter, out = sys.argv[1], sys.argv[2]
props = {json.loads(l)['id']: json.loads(l) for l in open('/verif/properties.jsonl')}
os.makedirs(out, exist_ok=True)
for pid, p in sorted(props.items()):
    prev = []
    for d in sorted(glob.glob(f'/verif/seeded/{pid}-*')):
        m = json.load(open(d + '/meta.json'))
        prev.append((m['summary'], m['needs']))
    wt = f'{out}/{pid}'
    txt = f"""You are helping to evaluate a verification harness by playing the adversary. You work ONLY inside the scratch git worktree {wt} (a checkout of the Rust crate rustgd/cgmath, a small linear-algebra library; `cargo` works offline there: always pass --offline). Do not read or write anything under /verif or /repo, and do not look for other people's checks: your change must be independent of them.

The property below is supposed to hold for cgmath. Your job: make ONE small, realistic source change to the library (src/*.rs or build.rs) that BREAKS this property while the crate still compiles and ALL existing tests still pass (`cargo test --offline --features "serde swizzle mint" 2>&1 | tail`, and also plain `cargo test --offline`). It should look like a plausible slip or a misguided "optimisation/refactor", not sabotage, and must not change any public signature.

Property {pid}: {p['title']}

Statement: {p['statement']}

Quantified over: {p['quantifier']['text']}

IMPORTANT: {len(prev)} other engineers have already produced changes for this property; yours must be DIFFERENT in kind and location from all of them (a different function or clause of the property, a different trigger):
"""
    for i, (s, n) in enumerate(prev):
        txt += f' {i+1}. "{s}" (trigger: {n})\n'
    txt += f"""
Assume the harness you are up against is a good randomized property-based test suite for exactly this statement: it evaluates every clause on thousands of random inputs with exact rational arithmetic AND with f32 and f64 inputs that include every magnitude at which the statement's own quantities are finite (normal or subnormal) and the unchanged library still satisfies the statement, values within a few ulps of every obvious threshold, signed zeros, NaN and infinities where the statement is about them, exactly degenerate and exactly structured configurations (zeros in the same position of both operands, axis-aligned vectors, basis quaternions, identity-like and nearly symmetric matrices, nearly-unit vectors and quaternions), aliased operands, all receiver/operand forms including in-place forms, provided trait methods, reference forms and the write path, lists of up to several thousand items fed from iterators of every kind, integers over their whole range with overflow outcomes compared, tolerances derived from the conditioning of each measured quantity rather than round numbers, bit-level comparisons where the statement says 'exactly', metamorphic checks (power-of-two scale covariance up to the top binade and down to subnormal determinants and cofactors, in-range idempotence), two serde formats, every parameter tuple the documented preconditions allow (not only the conventional ones), iterators that are not fused, values obtained by composing thousands of operations, pairs of values that are approximately equal for different reasons in different components, searched-for rounding patterns (the worst of several hundred nearby inputs), NaN / signed zeros / infinities / subnormals in every slot of every view and conversion compared as bit patterns, every scalar form of every compound type over the whole integer range, serde's deserialize_in_place as well as deserialize, power-of-two covariance in every linear argument from the top binade to the last subnormal units, rounding-level (tens of ulps) tolerances wherever the quantity is well conditioned, the library compiled with debug assertions and overflow checks on, every provided trait method (set_zero, set_one, is_one, the *_ne relations, iterator folds fed from unsized / non-fused / chained iterators) exercised by the check of every property whose statement names the operation, NaN and infinite parameters wherever a statement lists what must be rejected, structurally singular matrices wherever a statement mentions an inverse, and it compares against an independent reference implementation. Your change should be one that such a suite could still plausibly miss. Think about: (a) entry points or trait impls that the statement covers only implicitly (blanket/default trait methods, `impl<'a> ... for &'a T` forms, `From`/`Into` conversions, `Sum`/`Product` over references, `*_assign`/`*_self` in-place variants, deprecated aliases, swizzle/mint/serde feature code, `Index`/`AsRef`/`AsMut` views); (b) behaviour that depends on the *combination* of two arguments or two calls (state carried in a value that is only wrong after a particular sequence; a result that is right in value but wrong in sign of zero, wrong in a component that only matters for a later call, or wrong only when two inputs are equal/aliased/ordered a particular way); (c) one specific dimension x scalar-type x operation cell of a macro-generated family; (d) inputs that are valid but that a generator built around "typical" values would construct rarely: exact integers in float types, values that are exactly representable fractions, angles that are exact multiples of a quarter turn, axes aligned with a coordinate axis, matrices with a zero row/column or repeated entries, points at the origin, t = 0 or 1 exactly, lists of length 1. (e) a provided/default trait method that gets an explicit override which no longer mirrors the method it is derived from (approx's `*_ne`, `Zero::is_zero`/`set_zero`, `One::is_one`/`set_one`, `MetricSpace::distance`, `InnerSpace::magnitude`/`normalize_to`, `Transform::concat_self`/`inverse_transform_vector`, `Rotation::rotate_point`, `EuclideanSpace::midpoint`/`centroid`, `VectorSpace::lerp`, `SquareMatrix::trace`/`is_*`, iterator folds); (f) behaviour on overflow / division by zero / NaN that silently changes from the primitive operation's behaviour. Pick a clause of the property statement that none of the earlier changes touches if you can.

NEVER use `git stash` (the stash is shared with other worktrees): to revert use `git apply -R SEED/patch.diff` or `git checkout -- src build.rs`, to re-apply use `git apply SEED/patch.diff`.

Deliverables, all inside {wt}/SEED/ (create the directory):
1. patch.diff  - `git diff` of your change to tracked files only (must apply with `git apply` to a clean checkout of HEAD).
2. demo.rs     - a self-contained integration test file (it will be copied to tests/zz_seed_demo.rs; use `extern crate cgmath;` style like the files in tests/ or plain `use cgmath::...`) with one or more #[test] functions that FAIL with your change and PASS without it. It should demonstrate the violation of the property on concrete inputs.
3. meta.json   - {{"property": "{pid}", "summary": "<one sentence: what was changed>", "needs": "<what specific input/configuration is needed for the breakage to manifest>", "files": ["src/..."]}}

Before you finish, verify all of this yourself and state the commands and their results in your final message:
 (a) with the change applied: the existing test suite passes (both feature sets above), and `cp SEED/demo.rs tests/zz_seed_demo.rs && cargo test --offline --features "serde swizzle mint" --test zz_seed_demo` FAILS;
 (b) with the change reverted (`git apply -R SEED/patch.diff`): the demo PASSES;
 (c) leave the worktree with your change applied and tests/zz_seed_demo.rs removed, so that `git diff` equals SEED/patch.diff.
Keep the change minimal (a few lines). If your first idea is caught by the existing tests, try another. Do not weaken or edit existing tests. The change must really violate the statement as written (not merely differ in rounding by an ulp or two), on inputs that are inside the statement's quantifier.
"""
    open(f'{out}/{pid}.prompt{letter}.txt', 'w').write(txt)
print('written', len(props))
