#!/usr/bin/env python3
import json,glob,os
rows=[]
for d in sorted(glob.glob('/verif/seeded/C*')):
    m=json.load(open(d+'/meta.json'))
    pid=m['property']
    cr=m.get('check_result',{}).get(pid,{})
    where=cr.get('where','')
    sub=''
    if 'subcheck=' in where:
        sub=where.split('subcheck=')[1].split()[0]+' / '+where.split('signature=')[1].split()[0]
    before=m.get('check_result_before_strengthening',{}).get(pid,'')
    summ=m.get('summary','').replace('|','/').replace('\n',' ')
    if len(summ)>170: summ=summ[:167]+'...'
    note=''
    if cr.get('verdict')!='CAUGHT': note='NOT CAUGHT - '+m.get('strengthening','')
    elif before.startswith('MISSED'): note='missed at first; '+m.get('strengthening','')
    rows.append((os.path.basename(d),summ,cr.get('verdict',''),sub,note))
print('| seed | change (as described by its author) | result | caught by (sub-check / signature) | note |')
print('|---|---|---|---|---|')
for r in rows: print('| '+' | '.join(r)+' |')
