#!/usr/bin/env python3
"""Regenerates /verif/MANIFEST.json from the table below (kept next to the checks so it stays current)."""
import json, subprocess, sys

EXACT = ("generated-input search (proptest-driven raw vectors, shrinkable, seeded) against an exact oracle: the same generic "
         "cgmath source is instantiated with harness scalars Q (checked i128 rationals) and Fp (p=2^61-1) and compared with `==` "
         "against array-based reference implementations")
CLAIMED = {
 "C01": dict(
   text="Exploration. Every clause of C01 is a polynomial identity; it is evaluated exactly (no tolerance) on generated dense matrices over Q and over the prime field Fp (per-case miss probability <= degree/2^61, Schwartz-Zippel) for n=2,3,4 and all four by-value/by-reference operand forms, against a textbook triple-loop reference. Not a proof: sampled, but an index/sign/term slip is a hard inequality on a generic input.",
   note="Trusted: the harness' reference implementations (refs.rs), Q/Fp arithmetic, rustc's monomorphisation giving the same formula for f32/f64 as for Q/Fp. Assumes no division by a zero scalar.",
   technique="property-based testing: exact-field differential oracle (Q, Fp) + algebraic laws", design="6/C01"),
}
PENDING = {}

def main():
    props = [json.loads(l) for l in open('/verif/properties.jsonl')]
    checks = []
    na = []
    for p in props:
        pid = p['id']
        if pid in CLAIMED:
            c = CLAIMED[pid]
            checks.append({
                "property_id": pid,
                "quick_cmd": f"./check {pid} quick",
                "thorough_cmd": f"./check {pid} thorough",
                "evidence_file": f"/verif/evidence/{pid}.json",
                "replay_cmd_template": f"./check {pid} --replay {{path}}",
                "engine": "vcheck",
                "level_claimed": {"category": "exploration", "text": c["text"], "design_ref": "DESIGN.md section " + c["design"]},
                "level_note": c["note"],
                "technique": c["technique"],
            })
        else:
            na.append({"property_id": pid, "reason": PENDING.get(pid, "check not built yet in this round (planned in DESIGN.md section 6); not claimed until it exists")})
    m = {
        "version": 1,
        "setup_cmd": "cd /verif/harness && CARGO_NET_OFFLINE=true cargo build --release --offline",
        "hooks": {
            "guard": "rustgd_cgmath_verif",
            "enable": "none needed: the harness links /repo as a path dependency with features serde,swizzle,mint; no instrumentation is compiled into cgmath",
            "baseline_off_cmd": "cd /repo && cargo test --workspace --no-fail-fast --offline",
            "source_commits": [],
            "add_only": True,
        },
        "engines": [
            {"name": "vcheck", "path": "/verif/harness", "serves_properties": sorted(CLAIMED.keys()),
             "kind_free_text": "Rust binary: proptest TestRunner over fixed-length u32 vectors decoded by construction (Hypothesis-style), exact scalar tiers Q/Fp plugged into cgmath generics, f64/f32 tiers with stated tolerances, replay files, evidence writer"},
        ],
        "checks": checks,
        "not_applicable": na,
        "notes": "All checks rebuild the harness against /repo's working tree (path dependency) before running. Exit 2 = inconclusive (build failure, watchdog, generator self-check), never a violation.",
    }
    json.dump(m, open('/verif/MANIFEST.json', 'w'), indent=1)
    print("claimed", len(checks), "not_applicable", len(na))

main()
