#!/usr/bin/env python3
"""Regenerates /verif/MANIFEST.json from the table below (kept next to the checks so it stays current)."""
import json, subprocess, sys

EXACT = ("generated-input search (proptest-driven raw vectors, shrinkable, seeded) against an exact oracle: the same generic "
         "cgmath source is instantiated with harness scalars Q (checked i128 rationals) and Fp (p=2^61-1) and compared with `==` "
         "against array-based reference implementations")
EX = "Trusted: the harness' reference implementations (refs.rs), the Q/Fp arithmetic (q.rs), and rustc monomorphising the same generic source for f32/f64 as for Q/Fp. "
ALL = {
 "C01": dict(
   text="Exploration. Every clause of C01 is a polynomial identity; it is evaluated exactly (no tolerance) on generated dense matrices over Q and over the prime field Fp (per-case miss probability <= degree/2^61, Schwartz-Zippel) for n=2,3,4 and all four by-value/by-reference operand forms, against a textbook triple-loop reference; an f64 sub-check repeats the products with a rounding-only tolerance on regimes an exact field cannot represent (near-identity, wide magnitudes, sparse, aliased operands). Not a proof: sampled, but an index/sign/term slip is a hard inequality on a generic input. Every ring operation is also taken through its other entry points (reference operands, +=, -=, *=, /=, %=, Sum/Product over values and references, scalar on the left in f64). transpose()/transpose_self() are checked bit for bit on tiny and nearly symmetric f64 matrices; is_one/set_one/set_zero and unsized-iterator folds are included. Array conversions are checked as constructors.",
   note=EX+"Assumes no division by a zero scalar.",
   technique="property-based testing: exact-field differential oracle (Q, Fp) + algebraic laws", design="6/C01"),
 "C02": dict(
   text="Exploration. determinant/invert/transpose/swap laws evaluated exactly over Q and Fp on generic matrices and on *constructed* singular (rank n-1 by column and by row combination), low-rank and tiny-determinant matrices; invert()==None is compared with the Leibniz determinant being exactly 0; swap/replace_col index pairs are enumerated completely per case; native f64/f32 matrices diag(2^a)*U with ordinary, subnormal, underflowed and huge determinants must invert exactly when determinant() != 0. Sampled search, not a proof; exact arithmetic means no tolerance can hide or invent a failure. Exactly singular float matrices (2x2, 3x3: one column an exact power-of-two multiple of another, generic inexact entries) must have determinant() == 0 and no inverse. Rotations / diagonal matrices perturbed by 1e-14..1e-4 (invert_near_special-f64) must be inverted to rounding accuracy. Ill-conditioned but exact integer matrices (illconditioned_native-*) must have determinant exactly +-1 and an exact inverse. transpose()/transpose_self() are compared bit for bit on f64 matrices with signed zeros (transpose_native-f64). invert/determinant are checked for covariance under power-of-two row and column scaling (invert_scaled-f64).",
   note=EX+"ulps-equality degenerates to equality in Q/Fp. Memory safety of the unchecked reads is only covered by the ASan fuzz build in the thorough tier.",
   technique="property-based testing: exact-field reference model (Leibniz determinant), constructed singular classes, exhaustive index enumeration", design="6/C02"),
 "C03": dict(
   text="Exploration. Component-wise operators, the ElementWise families (vector and scalar right-hand sides, value and assign forms), dot/cross/perp-dot identities checked with == over Q, Fp and overflow-free i64/i32 operands for dimensions 1-4. Operators are also taken by reference and through Sum; is_zero is evaluated on vectors that are zero but for one component, including components whose square overflows the integer type or underflows in f64. Integer operands over the whole range: where perp_dot/cross/dot/magnitude2/sum/product have a value (in every order of evaluation) the library must return it without panicking.",
   note=EX+"Integer operands are constructed inside the no-overflow range; divisors non-zero.",
   technique="property-based testing: per-component reference + algebraic identities over exact fields and integers", design="6/C03"),
 "C04": dict(
   text="Exploration. Hamilton product vs an independent 4x4 left-multiplication-matrix reference, ring laws, conjugate/norm/inverse laws and the rotation formula q*v for arbitrary and *exactly unit* (p^2/|p|^2) quaternions, all with == over Q and Fp (operands aliased now and then), plus an f64 sub-check of product and rotation against the reference on quaternions within rounding of +-1, tiny vector parts and wide magnitudes. Every operation is also taken through reference operands, +=, -=, *=, /=, %=, scalar on the left (f64), single/empty Sum and Product. Product/Sum over lists are compared bit for bit with the left folds on nearly-unit quaternions. |2^k q|^2 = 4^k |q|^2 bit for bit and q*invert(q) = 1 for |k| <= 500. Division by scalars over the whole range (subnormal divisors included) is bit-exact per component; quaternions with a subnormal squared norm are still inverted.",
   note=EX,
   technique="property-based testing: exact-field differential oracle + algebraic laws", design="6/C04"),
 "C05": dict(
   text="Exploration. The four rotation representations are compared exactly over Q/Fp on exactly unit quaternions (action on a vector, element tables, orthonormality, det=+1, composition); matrix->quaternion is decided exactly in Q (all internal square roots are rational) and within 1e-12 in f64, with all four branches required to be reached, the trace=0 hand-over and near-identity rotations targeted. Composition is also written as Product over values and references (three non-commuting factors) for Basis3, Quaternion, Matrix3 and Matrix4, and through Into conversions. The rotation is applied through every entry point (transform_vector/transform_point, rotate_vector/rotate_point, reference products). Composition also through Transform::concat/concat_self of Matrix3 (2-D and 3-D impl) and Matrix4. four_reps-f64 applies all representations through eleven entry points to vectors in general position and (nearly) along the rotation axis.",
   note=EX+"Branch classes are recomputed from the input with the documented conditions.",
   technique="property-based testing: exact round-trip + differential oracle with branch-coverage classes", design="6/C05"),
 "C06": dict(
   text="Exploration. from_axis_angle / from_angle_x,y,z / 2-D from_angle for all six representations against Rodrigues' formula: exactly in Q using named angles with rational (sin,cos) and half-angle pairs and rational unit axes, and within 1e-12 in f64 with libm sin/cos for Rad and Deg inputs (angles in +-20 rad, tiny angles, angles next to multiples of a quarter turn); angle additivity, inverse and rotate_point laws. f64 angles include many-turn angles up to 1e15 rad, exact quarter-turn multiples and tiny angles for the 2-D and 3-D constructors. The f64 tier applies the rotation through all ten application entry points. Any finite angle, up to Deg/Rad of magnitude f64::MAX, must give a finite orthonormal result.",
   note=EX+"Non-unit axes are outside the statement. Named-angle registry: Q::sin_cos looks the angle's name up.",
   technique="property-based testing: exact rational-trigonometry oracle (Rodrigues) + f64 libm differential", design="6/C06"),
 "C07": dict(
   text="Exploration. Euler->rotation for Matrix3/Matrix4/Basis3/Quaternion against Rx*Ry*Rz exactly in Q (named angles) and within 1e-12 in f64 (Rad and Deg); quaternion->Euler on f64 unit quaternions with generators aimed at the gimbal cone and its boundary sin y = +-0.998(1+-delta), checking ranges, exact rebuild outside the cone, x=0/y=+-pi/2/0.13 bound inside. Exactly structured quaternions (pure rotations about one coordinate axis over two full turns, basis quaternions, one vanishing component) are a required class. f64 Euler angles include many-turn angles up to 1e12 rad, exact quarter-turn multiples and tiny angles. f64 Euler angles include neighbourhoods (1e-12..1e-3) of quarter-turn multiples.",
   note=EX+"The 0.998/0.13 constants are f64-calibrated; a 1e-9 guard band accepts either obligation on the boundary.",
   technique="property-based testing: exact composition oracle + f64 round-trip with boundary-targeted generators", design="6/C07"),
 "C12": dict(
   text="Exploration. Affine-space laws, component-wise operators and ElementWise families of Point1-3, midpoint, centroid (1-8 points) and homogeneous coordinates, with == over Q, Fp and i64; an f64 sub-check repeats the clauses with rounding-only tolerances where an exact field cannot look (magnitudes 1e+-140, homogeneous factors over 1e+-150 and within 8 ulps of 1, lists of up to 520 points). The point-vector dot is checked at the top of the float range.",
   note=EX,
   technique="property-based testing: per-component reference + affine laws over exact fields", design="6/C12"),
 "C13": dict(
   text="Exploration. Modular clauses (normalize/normalize_signed/opposite/bisect/turn_div_k, arithmetic, Sum) are decided exactly on Deg<Q> and Rad<Q>; range membership is searched over raw f32/f64 bit patterns plus classes aimed at tiny negatives, whole turns, huge and subnormal values; unit conversion within 4 eps (and the absolute factor, so a consistently wrong constant pair is caught); trig and inverse trig against libm evaluated in f64 on the exact input value, with a conditioning-derived tolerance. Trigonometry is also evaluated at exactly the library's named angles (turn_div_2/3/4/6, full_turn, zero and small multiples). An angle already inside the target range is returned unchanged to 2 eps relative.",
   note=EX+"libm is the trusted oracle for the transcendental clauses; poles avoided by 1e-3; bisect of numerically opposite angles accepts either bisector.",
   technique="property-based testing: exact modular-arithmetic oracle (Q) + raw-bit-pattern range search + libm differential", design="6/C13"),
 "C15": dict(
   text="Exploration. between_vectors (Quaternion, Basis3, Basis2) and from_arc checked against the validity predicate of the statement (unit, maps a to b, rotation angle = angle(a,b), axis perpendicular, half turn for opposite vectors, fallback axis honoured, smaller angle) on f64 pairs in the classes generic / near-parallel / near-antiparallel (1e-12..1e-1 rad) / exactly equal / exactly opposite / non-unit pairs whose dot product is exactly 1 / generic directions with lengths 1e-6..1e70, and with == in Q on pairs b = 2(a.m)m - a for which every internal normalisation is rational. Opposite pairs include a within 1e-300..1e-6 of a coordinate axis. Opposite pairs with a fallback axis are also drawn at extreme unbalanced lengths (2^+-480).",
   note=EX+"Unit inputs for between_vectors; the 1e-7 / 1e-4 allowances of the statement are applied as stated, with a conditioning term 32 eps/theta* between the allowance and 1e-9.",
   technique="property-based testing: validity-predicate oracle with degenerate-class generators (f64) + exact rational geometry (Q)", design="6/C15"),
 "C11": dict(
   text="Exploration. Exact: magnitude2/distance2/project_on identities over Q and Fp, and magnitude/normalize/normalize_to/distance on vectors of *rational length* (rational unit vector times a rational) so that every internal sqrt is exact, for Vector1-4, Quaternion and Point1-3. f64: the same clauses with 4-8 eps tolerances and the angle clauses (|u||v|cos(angle)=u.v within 1e-12, range, symmetry; 2-D sign pinned by rotating u) on generic, nearly (anti)parallel, exactly (anti)parallel and nearly equal pairs. A quarter of the pairs carry exact structure: the same components vanish in both vectors (either sign of zero) or both lie on coordinate axes. project_on is checked in f64 with operands at independent scales 1e-100..1e100; a sixth of the pairs have |u| = 1 only nearly. Pairs include vectors whose components all have the same magnitude.",
   note=EX+"f64 components log-uniform in 1e-3..1e3 (no over/underflow of squares); non-zero lengths by construction.",
   technique="property-based testing: exact rational-length oracle + f64 validity predicates on conditioned pair classes", design="6/C11"),
 "C14": dict(
   text="Exploration. lerp = a + (b-a)t decided exactly over Q and Fp for every VectorSpace implementation (Vector1-4, Quaternion, Matrix2-4). nlerp/slerp checked on f64 unit-quaternion pairs in the classes generic / nearly parallel / nearly opposite / on the 0.9995 hand-over (delta 1e-12..1e-2, both signs of the dot product) / orthogonal / equal / exactly opposite with t in {0,1} and U[0,1], against the statement's validity predicate: unit, in the plane of a and b', on the shorter arc, exact endpoints, slerp arc = t*Omega within 1e-9 (1e-5 above the hand-over). Structurally orthogonal pairs (disjoint supports, zeros of either sign) are a required class for which the statement's 'a.b >= 0' case is demanded exactly. lerp is also checked in f64 (amounts up to 1e17, equal and nearly equal operands) and on integer vectors over the whole range (outcome: value or overflow panic). nlerp/slerp are also checked on Quaternion<f32> with tolerances of their own. The constant-speed tolerance is 4e-13 rad (f64) / 3e-6 rad (f32) plus the conditioning of the measurement; nearly orthogonal pairs are a required class.",
   note=EX+"The arc is measured as 2 atan2(|a-b'|,|a+b'|); the frame used for the in-plane test is known to eps/Omega, which is added to the tolerance; either target accepted when |a.b| <= 1e-12.",
   technique="property-based testing: exact-field oracle (lerp) + validity predicate with threshold-targeted generators (nlerp/slerp)", design="6/C14"),
 "C08": dict(
   text="Exploration. One generic law-checker (composition on points and vectors, concat_self, one(), displacement independence, inverse presence and undoing, inverse_transform_vector) is instantiated for all five Transform impls over Q and Fp with exactly unit rotations, zero/negative scales, singular and fully projective matrices; Decomposed-specific clauses (s*t, explicit formulas, Matrix4/Matrix3::from commuting with apply/compose/invert/one) exactly; the |scale|>1e-6 threshold clause on f64 with scales 0, 5e-324..1e-6, just above 1e-6, ordinary; matrix impls in f64 must invert whenever the determinant is non-zero (determinants down to 1e-150) and M(D^-1) = M(D)^-1. Affine matrices times a scalar (bottom row (0,..,0,k)) are a required class for Matrix4 and for Matrix3 as a 2-D transform (this class exposed the defect fixed in 5996e8e). One's provided methods (set_one, is_one) and one() as neutral element of every composition form are part of the laws. matrix_compose-f64 compares concat/concat_self/* entry by entry with a right factor that is (nearly) the identity. Scales whose reciprocal is subnormal (1e300..1.7e308) must invert.",
   note=EX+"Vector clauses for matrix impls are asserted on affine matrices only; for 0<|scale|<=1e-6 either None or a correct inverse is accepted; f64 tolerances are eps*(|p|+|disp|/|scale|).",
   technique="property-based testing: generic law checker over all Transform implementations, exact fields + f64 threshold classes", design="6/C08"),
 "C09": dict(
   text="Exploration. Every look_to/look_at entry point (Matrix4 rh/lh, Matrix3 rh/lh, Quaternion, Basis3, Transform impls of Matrix4, Matrix3, Decomposed<_,Quaternion>, Decomposed<_,Basis3>, and the 2-D Matrix2/Basis2 look_at / look_at_stable) is checked against the statement's predicate (rigid, det +1, eye to origin, d to -z / +z, up into x=0,y>=0, mutual agreement) exactly in Q on rational frames for which every normalisation and the matrix->quaternion step are rational, and within a conditioning-scaled, scale-free tolerance in f64 on arbitrary eye/dir/up with lengths over 1e-30..1e30. look_at == look_to(center - eye) as values; eye-to-origin measured relative to |eye|, with eyes down to 1e-300.",
   note=EX+"General position (up not parallel to dir; f64: >= 0.05 rad). The deprecated Transform::look_at is not claimed.",
   technique="property-based testing: validity-predicate oracle on exact rational frames (Q) + toleranced f64 search", design="6/C09"),
 "C10": dict(
   text="Exploration. ortho/frustum/perspective/planar (free functions and struct conversions) against the mapping stated in the property: corner images, affinity, w=-z, perspective == frustum of the symmetric window (independent glFrustum table), to_perspective fields, planar window/near/far/focal point; exactly in Q (Fp for ortho) with named angles for fovy, and within 1e-11 (conditioning-scaled) in f64 including Deg input, fovy=0 and negative fovy for planar. Rejection: a valid tuple with exactly one of the 15 preconditions broken, at the boundary and beyond, must panic (catch_unwind) and the unbroken tuple must not; all 15 reasons are required classes. Scale covariance: every tuple is also taken with its lengths multiplied by 2^k (|k| <= 300; >= -30 for perspective/planar) and the matrix must be the scaled matrix to 16 ulps per entry; fovy is drawn over the whole of (0, pi) down to 1e-9 rad from either end. Valid tuples include near/far planes a few ulps apart. Very deep volumes (far/near beyond the range of the scalar type) are mapped correctly in f64 and f32.",
   note=EX+"Valid domain excludes l==r, b==t, n==f and height==0 (division by zero), and for perspective/planar planes closer than machine epsilon in absolute terms (the constructors' own 'too close' assertion).",
   technique="property-based testing: mapping-predicate oracle (exact Q + f64) and single-fault rejection enumeration", design="6/C10"),
 "C16": dict(
   text="Exploration over a completely enumerated configuration space. Every view and conversion of Vector1-4, Point1-3, Matrix2-4 and Quaternion (arrays, tuples, references to both, flat column-major arrays, raw pointers, Index/IndexMut by usize and by every range, mint types incl. EulerAngles<_,IntraXYZ>, map/zip/from_value/extend/truncate/truncate_n/swap_elements, conv::array*) is exercised for every slot and every mutable view, with 12 element types (8 numeric, char, a Copy struct, &str, String where the impl has no numeric bound); out-of-range and inverted indices must panic; all 550 swizzle words are generated by the harness' own build script (counts asserted). Random tags per case guard against accidental agreement. Matrix swap_elements/swap_rows/swap_columns/replace_col/row/indexing must panic for an index out of range in any single position. Out-of-range indices are also probed on the write path (Quaternion, matrices). from_value is compared bit for bit (from_value_bits-*).",
   note=EX+"Parametricity: routing is generic in the element type, so one all-distinct assignment per configuration decides it. Pointer views are dereferenced in bounds only; UB that does not manifest is not detected here (ASan fuzz build in the thorough tier).",
   technique="property-based testing: exhaustive configuration enumeration with generated tag values against index-table reference", design="6/C16"),
 "C17": dict(
   text="Exploration. For every operator impl of vectors, points, matrices, quaternions, angles and bases: by-value, &rhs, &lhs, both-reference and compound-assignment forms must be bit-identical on generated operands (floats from raw bit patterns incl. +-0, subnormals, infinities, NaN identified; integers in the no-overflow range) for all 12 primitive scalars where the impl exists; scalar-on-the-left against the primitive operator per component (12 scalars x 10 compound types, f32/f64 x Quaternion); Sum/Product over values and references against the explicit left fold from zero()/one(); random straight-line programs run by a by-value interpreter and a mixed-form interpreter must end in identical register files. Integer operands are additionally drawn over their whole range (int_overflow-*): the outcome - value or overflow/division panic of the build - of every vector/point operator, in-place form and scalar-on-the-left form must equal that of the primitive operator per component. Sum/Product over long lists (up to 600 items, lengths concentrated around 16..256) equal the left fold bit for bit (floats) and in outcome (integers). Folds are also fed from iterators without a known length (filter, take_while, from_fn) and from chained slices.",
   note=EX+"Product/Sum spellings are compared with the fold from one()/zero(), which is what the statement promises (it differs from a bare binary op in the sign of zero).",
   technique="property-based testing: differential testing between operator spellings + model-based straight-line programs", design="6/C17"),
 "C18": dict(
   text="Exploration over all component positions. For 20 compound types x {f32,f64}: abs_diff_eq/relative_eq/ulps_eq must equal the conjunction of the scalar relation over corresponding components, probed at every position with a partner just inside and just outside the tolerance (absolute, relative, exactly max_ulps / max_ulps+1 steps), plus multi-component perturbations, reflexivity, symmetry and macro-vs-explicit default tolerances; is_finite with NaN/+-inf at every position; is_zero / is_identity / is_diagonal / is_symmetric / is_invertible / is_perpendicular with one element moved just inside/outside the type's default tolerance. The negated relations (abs_diff_ne, relative_ne, ulps_ne; methods and macros) and the macro forms with explicit tolerances are compared with the _eq results. Matrix predicates are also evaluated on tiny, huge and determinant-overflowing entries. Matrix predicates and relations are also evaluated with one NaN/infinite component at every position.",
   note="Trusted: the scalar approx impls for f32/f64. The matrix types' own default epsilon (1e-6) is used where the statement says 'ulps-comparison of the matrix'. Basis2/3 values are built through their Deserialize impl.",
   technique="property-based testing: per-position boundary probes against scalar-relation conjunction oracle", design="6/C18"),
 "C19": dict(
   text="Exploration. All 12 x 12 source/target primitive pairs for Vector1-4, Point1-3, Matrix2-4 and 12 x 2 (float targets) for Quaternion are instantiated; component values come from edge sets (MIN, MAX, 0, +-1, 2^k, 2^k+-1, NaN, +-inf, +-0.0, x.5 values at every integer range end, raw bit patterns) in three shapes (all edge / safe values with one edge component at a drawn position / all safe). cast() must be None iff some component's scalar NumCast fails, else bit-identical to the per-component scalar casts. Because no primitive conversion into f32/f64 can fail, Quaternion::cast's None side is reached through the harness's exact scalar Q (a BaseFloat whose NumCast rejects NaN and infinities), separately for the scalar part and the vector part. A fourth component shape puts every component at or within 1e-6 of 0/1 in the pattern of an identity matrix.",
   note="Trusted: num_traits' scalar NumCast. All NaNs are identified when comparing.",
   technique="property-based testing: differential oracle against per-component scalar NumCast over the full type-pair matrix", design="6/C19"),
 "C20": dict(
   text="Exploration. Every Serialize/Deserialize type (24 shapes x f32/f64, plus integer vectors/points) is round-tripped through serde_json::Value and through JSON text (float_roundtrip) with components from raw finite bit patterns (-0.0, subnormals, MIN_POSITIVE, MAX over-represented); the serialized Value must equal the documented field structure built by the harness; results are compared bit for bit with per-component scalar round trips through the same carrier. Decomposed: all 6 field orders must deserialise to the same value; each single omission (both remaining orders) and an unknown field at each of 4 positions must be Err (never Ok, never a panic). Serialized trees and texts are compared with the expected structure bit for bit (-0.0). The round trip also goes through a non-human-readable serde format. An omission masked by a repeated key must be rejected.",
   note="Trusted: serde / serde_json scalar impls. Finite values only. Field-order permutations are fed as text because serde_json's Value map is key-ordered.",
   technique="property-based testing: round-trip oracle over two carriers + structural reference + enumerated field-order/omission/unknown-field cases", design="6/C20"),
}
BUILT = ["C01","C02","C03","C04","C05","C06","C07","C08","C09","C10","C11","C12","C13","C14","C15","C16","C17","C18","C19","C20"]
CLAIMED = {k: v for k, v in ALL.items() if k in BUILT}
PENDING = {}

def main():
    props = [json.loads(l) for l in open('/verif/properties.jsonl')]
    checks = []
    na = []
    for p in props:
        pid = p['id']
        if pid in CLAIMED:
            c = CLAIMED[pid]
            checks.append({
                "property_id": pid,
                "quick_cmd": f"./check {pid} quick",
                "thorough_cmd": f"./check {pid} thorough",
                "evidence_file": f"/verif/evidence/{pid}.json",
                "replay_cmd_template": f"./check {pid} --replay {{path}}",
                "engine": "vcheck",
                "level_claimed": {"category": "exploration", "text": c["text"], "design_ref": "DESIGN.md section " + c["design"]},
                "level_note": c["note"],
                "technique": c["technique"],
            })
        else:
            na.append({"property_id": pid, "reason": PENDING.get(pid, "check not built yet in this round (planned in DESIGN.md section 6); not claimed until it exists")})
    m = {
        "version": 1,
        "setup_cmd": "cd /verif/harness && CARGO_NET_OFFLINE=true cargo build --release --offline",
        "hooks": {
            "guard": "rustgd_cgmath_verif",
            "enable": "none needed: the harness links /repo as a path dependency with features serde,swizzle,mint; no instrumentation is compiled into cgmath",
            "baseline_off_cmd": "cd /repo && cargo test --workspace --no-fail-fast --offline",
            "source_commits": [],
            "add_only": True,
        },
        "engines": [
            {"name": "vcheck", "path": "/verif/harness", "serves_properties": sorted(CLAIMED.keys()),
             "kind_free_text": "Rust workspace (core + 6 property crates + app), binary target/release/vcheck: proptest TestRunner over fixed-length u32 vectors decoded by construction (Hypothesis-style), exact scalar tiers Q/Fp plugged into cgmath generics, f64/f32 tiers with stated tolerances, replay files, evidence writer"},
        ],
        "checks": checks,
        "not_applicable": na,
        "notes": "All checks rebuild the harness against /repo's working tree (path dependency) before running. Exit 2 = inconclusive (build failure, watchdog, generator self-check), never a violation.",
    }
    json.dump(m, open('/verif/MANIFEST.json', 'w'), indent=1)
    print("claimed", len(checks), "not_applicable", len(na))

main()
