#!/usr/bin/env python3
"""Automatic single-token mutation campaign over /repo/src: a sensitivity measurement of the whole set of checks that
does not depend on anybody's imagination.

  tools/mutation_campaign.py list                      -> enumerate every candidate mutation site (JSON lines on stdout)
  tools/mutation_campaign.py run N [--seed S] [--workers W] [--out FILE] [--files a.rs,b.rs]
        sample N sites (deterministically from S), and for each: apply it in a private mirror of /repo (a git
        worktree under /tmp/mw/<k>/repo), rebuild a private copy of the harness against it, run the properties' quick
        checks at reduced scale until one reports a violation.  Result per mutant:
          killed <prop> <subcheck/signature> | nocompile | survived | inconclusive
        Survivors are then tried against the repository's own test suite (tests=pass|FAIL) so that they can be read
        as "equivalent / outside the 20 properties / a real gap".
Nothing is written to /repo or to the working harness; the mirrors are removed at the end.
"""
import os, re, sys, json, random, subprocess, shutil, time, threading, queue

SRC = '/repo/src'
FILES = ['angle.rs', 'conv.rs', 'euler.rs', 'matrix.rs', 'point.rs', 'projection.rs', 'quaternion.rs', 'rotation.rs',
         'structure.rs', 'transform.rs', 'vector.rs', 'macros.rs', 'num.rs']
# which properties to try first for a file (then all the others)
FIRST = {
    'angle.rs': ['C13', 'C18', 'C17'], 'conv.rs': ['C16'], 'euler.rs': ['C07', 'C18', 'C16'],
    'matrix.rs': ['C01', 'C02', 'C05', 'C06', 'C08', 'C09', 'C16', 'C17', 'C18', 'C19', 'C07'],
    'point.rs': ['C12', 'C16', 'C17', 'C18', 'C19', 'C11'], 'projection.rs': ['C10'],
    'quaternion.rs': ['C04', 'C05', 'C14', 'C15', 'C07', 'C06', 'C17', 'C18', 'C19', 'C16', 'C11'],
    'rotation.rs': ['C06', 'C15', 'C05', 'C09', 'C18', 'C04'], 'structure.rs': ['C11', 'C12', 'C03', 'C02', 'C13', 'C08'],
    'transform.rs': ['C08', 'C09', 'C18', 'C20'], 'vector.rs': ['C03', 'C11', 'C16', 'C17', 'C18', 'C19', 'C12'],
    'macros.rs': ['C17', 'C16', 'C03'], 'num.rs': ['C03'],
}
ALL = ['C%02d' % i for i in range(1, 21)]

# (regex, replacement function) -- every match is one mutation site
OPS = [
    (r'(?<=[\w\)\]]) \+ (?=[\w\(\-])', ' - '), (r'(?<=[\w\)\]]) - (?=[\w\(\-])', ' + '),
    (r'(?<=[\w\)\]]) \* (?=[\w\(\-])', ' / '), (r'(?<=[\w\)\]]) / (?=[\w\(\-])', ' * '),
    (r' \+= ', ' -= '), (r' -= ', ' += '), (r' \*= ', ' /= '), (r' /= ', ' *= '),
    (r' < (?=[\w\(\-])', ' <= '), (r' > (?=[\w\(\-])', ' >= '), (r' <= ', ' < '), (r' >= ', ' > '),
    (r' == ', ' != '), (r' != ', ' == '), (r' && ', ' || '), (r' \|\| ', ' && '),
    (r'\bS::zero\(\)', 'S::one()'), (r'\bS::one\(\)', 'S::zero()'),
    (r'\.x\b(?!\()', '.y'), (r'\.y\b(?!\()', '.x'), (r'\.z\b(?!\()', '.x'), (r'\.w\b(?!\()', '.z'),
    (r'\[0\]', '[1]'), (r'\[1\]', '[0]'), (r'\[2\]', '[1]'), (r'\[3\]', '[2]'),
    (r'(?<=[\(,=] )-(?=[a-zA-Z\(])', ''),          # drop a unary minus
    (r'\.normalize\(\)', ''), (r'\.transpose\(\)', ''), (r'\.conjugate\(\)', ''),
    (r'\bsin\b', 'cos'), (r'\bcos\b', 'sin'), (r'\bmin\b(?=\()', 'max'), (r'\bmax\b(?=\()', 'min'),
    (r'\btwo\b', 'one'), (r'\bhalf\b', 'one'),
    (r'\blhs\.', 'rhs.'),
]


def sites():
    out = []
    for f in FILES:
        path = os.path.join(SRC, f)
        if not os.path.exists(path):
            continue
        lines = open(path).read().split('\n')
        skip_depth = None
        in_tests = False
        for ln, line in enumerate(lines):
            st = line.strip()
            if st.startswith('mod tests') or st.startswith('#[cfg(test)]'):
                in_tests = True
            if in_tests:
                continue
            if st.startswith('//') or st.startswith('#[') or st.startswith('use ') or st.startswith('///'):
                continue
            code = line.split('//')[0]
            if 'assert!' in code or 'panic!' in code or 'write!' in code or 'format' in code or '"' in code:
                continue
            for oi, (rx, rep) in enumerate(OPS):
                for m in re.finditer(rx, code):
                    out.append({'file': f, 'line': ln + 1, 'col': m.start(), 'end': m.end(), 'op': oi, 'old': m.group(0), 'new': rep,
                                'text': line.strip()[:160]})
    return out


def sh(cmd, timeout=None, cwd=None):
    try:
        r = subprocess.run(cmd, shell=True, capture_output=True, text=True, timeout=timeout, cwd=cwd)
        return r.returncode, r.stdout + r.stderr
    except subprocess.TimeoutExpired:
        return 124, 'timeout'


def setup_worker(k):
    base = f'/tmp/mw/{k}'
    shutil.rmtree(base, ignore_errors=True)
    os.makedirs(base)
    rc, out = sh(f'git -C /repo worktree add -f --detach {base}/repo HEAD')
    assert rc == 0, out
    # the worktree is a checkout of HEAD; bring over uncommitted edits of /repo (there should be none)
    shutil.copytree('/verif/harness', f'{base}/harness', ignore=shutil.ignore_patterns('target'))
    for root, _, files in os.walk(f'{base}/harness'):
        for fn in files:
            if fn == 'Cargo.toml':
                p = os.path.join(root, fn)
                s = open(p).read()
                if 'path = "/repo"' in s:
                    open(p, 'w').write(s.replace('path = "/repo"', f'path = "{base}/repo"'))
    rc, out = sh('cargo build --release --offline 2>&1 | tail -3', cwd=f'{base}/harness')
    assert 'Finished' in out, out
    return base


def teardown_worker(k):
    base = f'/tmp/mw/{k}'
    sh(f'git -C /repo worktree remove --force {base}/repo')
    shutil.rmtree(base, ignore_errors=True)


def run_one(base, site, scale):
    path = f"{base}/repo/src/{site['file']}"
    src = open(path).read()
    lines = src.split('\n')
    line = lines[site['line'] - 1]
    assert line[site['col']:site['end']] == site['old'], (line, site)
    lines[site['line'] - 1] = line[:site['col']] + site['new'] + line[site['end']:]
    open(path, 'w').write('\n'.join(lines))
    res = {'site': site}
    try:
        t0 = time.time()
        rc, out = sh('cargo build --release --offline 2>&1 | tail -30', cwd=f'{base}/harness', timeout=1200)
        if 'Finished' not in out:
            res['result'] = 'nocompile'
            return res
        order = FIRST.get(site['file'], []) + [p for p in ALL if p not in FIRST.get(site['file'], [])]
        res['result'] = 'survived'
        inconcl = []
        for prop in order:
            rc, out = sh(f'{base}/harness/target/release/vcheck --prop {prop} --tier quick --scale {scale} --no-evidence', timeout=600)
            if rc == 1:
                sub = next((l.strip() for l in out.splitlines() if l.strip().startswith('subcheck=')), '')
                res['result'] = 'killed'
                res['by'] = prop
                res['where'] = sub
                break
            if rc != 0:
                inconcl.append((prop, rc, next((l for l in out.splitlines() if 'INCONCLUSIVE' in l or 'HARNESS' in l), out.strip()[-200:])[:300]))
        if res['result'] == 'survived' and inconcl:
            res['result'] = 'inconclusive'
        if inconcl:
            res['inconclusive'] = inconcl
        if res['result'] in ('survived', 'inconclusive'):
            rc, out = sh('cargo test --offline --features "serde swizzle mint" 2>&1 | grep -E "^test result|FAILED|^error" | head -30', cwd=f'{base}/repo', timeout=1800)
            res['tests'] = 'FAIL' if ('FAILED' in out or 'error' in out) else 'pass'
        res['secs'] = round(time.time() - t0, 1)
        return res
    finally:
        open(path, 'w').write(src)


def main():
    a = sys.argv[1:]
    if a and a[0] == 'list':
        for s in sites():
            print(json.dumps(s))
        return
    assert a and a[0] == 'run'
    n = int(a[1])
    opt = dict(zip(a[2::2], a[3::2]))
    seed = int(opt.get('--seed', 1))
    workers = int(opt.get('--workers', 4))
    outp = opt.get('--out', '/verif/mutation/campaign.jsonl')
    scale = float(opt.get('--scale', 0.34))
    allsites = sites()
    if '--files' in opt:
        fs = opt['--files'].split(',')
        allsites = [s for s in allsites if s['file'] in fs]
    done = set()
    if os.path.exists(outp):
        for l in open(outp):
            s = json.loads(l)['site']
            done.add((s['file'], s['line'], s['col'], s['op']))
    rnd = random.Random(seed)
    rnd.shuffle(allsites)
    todo = [s for s in allsites if (s['file'], s['line'], s['col'], s['op']) not in done][:n]
    print(f'{len(allsites)} sites, {len(done)} already done, running {len(todo)} on {workers} workers', flush=True)
    os.makedirs(os.path.dirname(outp), exist_ok=True)
    q = queue.Queue()
    for s in todo:
        q.put(s)
    lock = threading.Lock()

    def work(k):
        base = setup_worker(k)
        try:
            while True:
                try:
                    s = q.get_nowait()
                except queue.Empty:
                    return
                try:
                    r = run_one(base, s, scale)
                except Exception as e:  # keep the campaign alive
                    r = {'site': s, 'result': 'error', 'error': repr(e)[:300]}
                    sh(f'git -C {base}/repo checkout -- .')
                with lock:
                    open(outp, 'a').write(json.dumps(r) + '\n')
                    print(f"{r['result']:12} {s['file']}:{s['line']} {s['old']!r}->{s['new']!r} {r.get('by','')} {r.get('where','')} {r.get('tests','')}", flush=True)
        finally:
            teardown_worker(k)
    ts = [threading.Thread(target=work, args=(k,)) for k in range(workers)]
    for t in ts:
        t.start()
    for t in ts:
        t.join()


main()
