#!/bin/sh
# Coverage-guided campaign for one property: cargo-fuzz / libFuzzer target `props` built with ASan.
# exit 0: no failure; 1: semantic oracle failure confirmed by `vcheck --replay` in the normal build;
# 2: anything else (build problem, sanitizer report, watchdog) - inconclusive, never a violation.
ID="$1"
RUNS="${VERIF_FUZZ_RUNS:-1500000}"
# the campaign ends after RUNS executions or BUDGET seconds, whichever comes first; both are a normal end (exit 0).
# The 1800 s `timeout` below is only a watchdog for a wedged process.
BUDGET="${VERIF_FUZZ_SECONDS:-600}"
SEED="${VERIF_SEED:-1592639710}"
[ "$SEED" = "0" ] && SEED=1
FZ=/verif/fuzz
BIN=/verif/harness/target/release/vcheck
export CARGO_NET_OFFLINE=true
LOG=$(cd /verif && cargo +nightly fuzz build --fuzz-dir "$FZ" props 2>&1)
if [ $? -ne 0 ]; then
  echo "$LOG" | grep -v '^warning' | tail -30
  echo "INCONCLUSIVE property=$ID fuzz target does not build"
  exit 2
fi
CORPUS="$FZ/corpus/$ID"
ART="$FZ/artifacts/$ID/"
rm -rf "$CORPUS" "$ART"; mkdir -p "$CORPUS" "$ART"
"$BIN" --prop "$ID" --emit-corpus "$CORPUS" >/dev/null || { echo "INCONCLUSIVE property=$ID cannot write the seed corpus"; exit 2; }
OUT="$FZ/artifacts/$ID/campaign.log"
T0=$(date +%s)
VCHECK_FUZZ_PROP="$ID" timeout -k 10 1800 "$FZ/target/x86_64-unknown-linux-gnu/release/props" "$CORPUS" \
  -runs="$RUNS" -max_total_time="$BUDGET" -seed="$SEED" -len_control=0 -max_len=4096 -timeout=60 -rss_limit_mb=4096 \
  -artifact_prefix="$ART" -print_final_stats=1 >"$OUT" 2>&1
RC=$?
T1=$(date +%s)
EXECS=$(grep -a 'stat::number_of_executed_units' "$OUT" | awk '{print $2}')
NCORP=$(ls "$CORPUS" | wc -l)
python3 - "$ID" "$RC" "${EXECS:-0}" "$NCORP" "$SEED" "$((T1-T0))" "$RUNS" "$BUDGET" <<'PY'
import json,sys
pid,rc,execs,ncorp,seed,secs=sys.argv[1:7]
p=f'/verif/evidence/{pid}.json'
try:
    e=json.load(open(p))
    e['coverage']['fuzz_campaign']={'engine':'libFuzzer via cargo-fuzz, AddressSanitizer, target props','executions':int(execs),'corpus_files_after':int(ncorp),'libfuzzer_seed':int(seed),'exit_status':int(rc),'wall_s':int(secs),'budget':'-runs=%s -max_total_time=%s, whichever first' % (sys.argv[7], sys.argv[8]),
      'note':'byte 1 selects the sub-check, the rest is the raw u32 vector; the semantic oracles run inside the target'}
    e['coverage']['evaluations']=e['coverage']['evaluations']+int(execs)
    json.dump(e,open(p,'w'),indent=1)
except Exception as ex:
    print('evidence update failed:',ex)
PY
if [ "$RC" -eq 0 ]; then
  echo "OK property=$ID fuzz campaign: ${EXECS:-?} executions, corpus $NCORP files, ${RC} failures"
  exit 0
fi
if [ "$RC" -eq 124 ] || [ "$RC" -eq 137 ]; then
  echo "INCONCLUSIVE property=$ID fuzz campaign hit the watchdog"
  exit 2
fi
REPLAY=$(grep -a 'FUZZ-FAILURE' "$OUT" | sed -n 's/.*replay=\([^ ]*\).*/\1/p' | head -1)
if [ -n "$REPLAY" ] && [ -f "$REPLAY" ]; then
  # confirm in the normal (non-sanitizer) build
  "$BIN" --prop "$ID" --replay "$REPLAY"
  CR=$?
  if [ "$CR" -eq 1 ]; then exit 1; fi
  echo "INCONCLUSIVE property=$ID fuzz failure did not reproduce in the normal build (replay=$REPLAY)"
  exit 2
fi
tail -40 "$OUT"
echo "INCONCLUSIVE property=$ID fuzz target ended with status $RC without an oracle failure (sanitizer report or crash; artifacts in $ART)"
exit 2
