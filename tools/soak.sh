#!/bin/sh
# run every check's quick tier over many seeds on the current tree; print anything that is not OK
N="${1:-20}"; START="${2:-100}"
BIN=/verif/harness/target/release/vcheck
for i in 01 02 03 04 05 06 07 08 09 10 11 12 13 14 15 16 17 18 19 20; do
  s=$START
  while [ $s -lt $((START+N)) ]; do
    OUT=$($BIN --prop C$i --seed $s --no-evidence 2>&1); RC=$?
    if [ $RC -ne 0 ]; then echo "C$i seed=$s rc=$RC"; echo "$OUT" | cut -c1-400 | head -5; fi
    s=$((s+1))
  done
  echo "C$i done"
done
