#!/usr/bin/env python3
"""Confirm a seeded change independently (scratch worktree), then run the property's check against it in /repo.
usage: seed_eval.py <seed-dir> [--checks C01,C02] [--skip-confirm | --confirm-only]   (env SEED_W: scratch worktree for the confirmation)
<seed-dir> contains patch.diff, demo.rs, meta.json."""
import subprocess, sys, os, json, shutil, time
def sh(cmd, cwd=None, timeout=3600):
    r = subprocess.run(cmd, shell=True, cwd=cwd, capture_output=True, text=True, timeout=timeout)
    return r.returncode, r.stdout + r.stderr
REPO = os.environ.get('SEED_REPO', '/repo')
HARNESS = os.environ.get('SEED_HARNESS')
def main():
    d = os.path.abspath(sys.argv[1]); args = sys.argv[2:]
    meta = json.load(open(d + '/meta.json'))
    pid = meta['property']
    checks = [pid]
    if '--checks' in args: checks = args[args.index('--checks') + 1].split(',')
    res = {'property': pid}
    W = os.environ.get('SEED_W', '/tmp/seedcheck')
    if '--skip-confirm' in args and os.path.exists(d + '/confirm.json'):
        res.update(json.load(open(d + '/confirm.json')))
    if '--skip-confirm' not in args:
        if not os.path.exists(W):
            rc, out = sh(f'git -C /repo worktree add -q --detach {W} HEAD'); assert rc == 0, out
        sh('git checkout -q -- . && git clean -fdq -e target', cwd=W)
        shutil.copy(d + '/demo.rs', W + '/tests/zz_seed_demo.rs')
        F = '--features "serde swizzle mint"'
        rc, out = sh(f'cargo test --offline {F} --test zz_seed_demo 2>&1 | tail -5', cwd=W)
        res['demo_without_change'] = 'pass' if 'test result: ok' in out else 'FAIL'
        rc, out = sh(f'git apply {d}/patch.diff', cwd=W); assert rc == 0, out
        rc, out = sh(f'cargo test --offline {F} --test zz_seed_demo 2>&1 | tail -5', cwd=W)
        res['demo_with_change'] = 'fail' if 'FAILED' in out or 'error' in out else 'PASSES'
        os.remove(W + '/tests/zz_seed_demo.rs')
        rc, out = sh(f'cargo test --offline {F} --no-fail-fast 2>&1 | grep -E "^test result|error(\\[|:)"', cwd=W)
        bad = [l for l in out.splitlines() if 'FAILED' in l or 'error' in l]
        rc2, out2 = sh('cargo test --offline --no-fail-fast 2>&1 | grep -E "^test result|error(\\[|:)"', cwd=W)
        bad += [l for l in out2.splitlines() if 'FAILED' in l or 'error' in l]
        res['existing_tests_with_change'] = 'pass' if not bad and 'test result: ok' in out else 'FAIL: ' + '; '.join(bad[:3])
        sh('git checkout -q -- . && git clean -fdq -e target', cwd=W)
        if '--confirm-only' in args:
            json.dump({k: v for k, v in res.items() if k != 'property'}, open(d + '/confirm.json', 'w'), indent=1)
            print(json.dumps(res, indent=1))
            return
    # run my checks against it in /repo
    rc, out = sh(f'git -C {REPO} status --porcelain'); assert out.strip() == '', 'repo not clean: ' + out
    rc, out = sh(f'git -C {REPO} apply {d}/patch.diff'); assert rc == 0, out
    try:
        res['checks'] = {}
        for c in checks:
            t = time.time()
            if HARNESS:
                rc, out = sh(f'cd {HARNESS} && (cargo build --release --offline >/dev/null 2>&1 || exit 2) && target/release/vcheck --prop {c} --tier quick --no-evidence')
            else:
                rc, out = sh(f'/verif/check {c} quick')
            line = next((l for l in out.splitlines() if l.startswith('VIOLATION') or l.startswith('INCONCLUSIVE')), '')
            sub = next((l.strip() for l in out.splitlines() if l.strip().startswith('subcheck=')), '')
            res['checks'][c] = {'exit': rc, 'verdict': {0: 'MISSED', 1: 'CAUGHT', 2: 'INCONCLUSIVE'}.get(rc, str(rc)), 'first': (line + ' ' + sub).strip(), 'secs': round(time.time() - t, 1)}
    finally:
        sh(f'git -C {REPO} checkout -- .')
    print(json.dumps(res, indent=1))
    json.dump(res, open(d + ('/eval_baseline.json' if HARNESS else '/eval.json'), 'w'), indent=1)
main()
