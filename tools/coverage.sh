#!/bin/sh
# Which lines of /repo/src do the checks execute at all?  (Reach, not strength: strength is measured by
# tools/mutants.py, tools/mutation_campaign.py and the seeded changes.)  Builds an instrumented copy of the harness in a
# scratch target directory, runs every property's quick tier at reduced scale, prints llvm-cov's per-file table and the
# source lines never executed, and removes the scratch directories again.
set -e
T=/tmp/covtarget; P=/tmp/cov
B=$(rustc +nightly --print sysroot)/lib/rustlib/x86_64-unknown-linux-gnu/bin
rm -rf "$P"; mkdir -p "$P"
(cd /verif/harness && CARGO_TARGET_DIR=$T RUSTFLAGS="-C instrument-coverage" cargo +nightly build --release --offline 2>&1 | tail -1)
for i in 01 02 03 04 05 06 07 08 09 10 11 12 13 14 15 16 17 18 19 20; do
  LLVM_PROFILE_FILE=$P/C$i-%p.profraw $T/release/vcheck --prop C$i --tier quick --scale "${1:-0.1}" --no-evidence >/dev/null 2>&1 || echo "C$i exit $?"
done
$B/llvm-profdata merge -sparse $P/*.profraw -o $P/all.profdata
$B/llvm-cov report $T/release/vcheck -instr-profile=$P/all.profdata --sources /repo/src 2>/dev/null
echo "--- lines of /repo/src never executed by any check:"
$B/llvm-cov show $T/release/vcheck -instr-profile=$P/all.profdata --sources /repo/src --show-instantiations=false --show-expansions=false 2>/dev/null | grep -E "^/repo|^ +[0-9]+\| +0\|"
rm -rf "$T" "$P"
