#!/usr/bin/env python3
"""Sensitivity harness: apply each compile-clean mutant to /repo's working tree, run the property's quick check,
expect exit 1 (VIOLATION), revert.  Usage: tools/mutants.py [PROP ...] [--name substr] [--tests]
Mutants live in tools/mutants/<PROP>.py as a list MUTANTS = [(name, file, old, new[, count]), ...]."""
import subprocess, sys, os, importlib.util, json, time
REPO = os.environ.get('MUT_REPO', '/repo')
HARNESS = os.environ.get('MUT_HARNESS')  # a copy of /verif/harness whose cgmath path points at MUT_REPO

def load(prop):
    path = f'/verif/tools/mutants/{prop}.py'
    if not os.path.exists(path): return []
    spec = importlib.util.spec_from_file_location(prop, path); m = importlib.util.module_from_spec(spec); spec.loader.exec_module(m)
    return m.MUTANTS

def revert():
    subprocess.run(['git','-C',REPO,'checkout','--','.'],check=True)

def main():
    args = sys.argv[1:]
    run_tests = '--tests' in args
    if run_tests: args.remove('--tests')
    name_filter = None
    if '--name' in args:
        i = args.index('--name'); name_filter = args[i+1]; del args[i:i+2]
    props = args or sorted(f[:-3] for f in os.listdir('/verif/tools/mutants') if f.endswith('.py'))
    results = []
    for prop in props:
        for mut in load(prop):
            name, file, old, new = mut[:4]
            if name_filter and name_filter not in name: continue
            count = mut[4] if len(mut) > 4 else 1
            path = REPO + '/' + file
            src = open(path).read()
            if src.count(old) < 1:
                print(f'{prop} {name}: PATTERN NOT FOUND'); results.append((prop,name,'nopattern')); continue
            if count == 1 and src.count(old) != 1:
                print(f'{prop} {name}: pattern occurs {src.count(old)} times; pass an explicit count'); results.append((prop,name,'ambiguous')); continue
            open(path,'w').write(src.replace(old, new, count))
            try:
                t=time.time()
                status = ''
                if run_tests:
                    r = subprocess.run('cd ' + REPO + ' && cargo test --workspace --no-fail-fast --offline 2>&1 | grep -E "^test result|FAILED|error(\\[|:)" | head -20', shell=True, capture_output=True, text=True)
                    bad = ('FAILED' in r.stdout) or ('error' in r.stdout)
                    status = ' tests=' + ('FAIL' if bad else 'pass')
                if HARNESS:
                    cmd = f'cd {HARNESS} && (cargo build --release --offline >/dev/null 2>&1 || exit 2) && target/release/vcheck --prop {prop} --tier quick --no-evidence'
                    r = subprocess.run(cmd, shell=True, capture_output=True, text=True)
                else:
                    r = subprocess.run(['/verif/check', prop, 'quick'], capture_output=True, text=True)
                first = next((l for l in r.stdout.splitlines() if l.startswith('VIOLATION') or l.startswith('INCONCLUSIVE')), r.stdout.strip().splitlines()[-1] if r.stdout.strip() else '')
                sub = next((l.strip() for l in r.stdout.splitlines() if l.strip().startswith('subcheck=')), '')
                verdict = {1:'CAUGHT',0:'MISSED',2:'INCONCLUSIVE'}.get(r.returncode, f'rc{r.returncode}')
                print(f'{prop} {name}: {verdict}{status} ({time.time()-t:.1f}s) {sub}')
                if verdict != 'CAUGHT': print('    ', first[:300])
                results.append((prop,name,verdict+status))
            finally:
                revert()
    missed = [r for r in results if not r[2].startswith('CAUGHT')]
    print(f'\n{len(results)-len(missed)}/{len(results)} caught')
    for m in missed: print('  not caught:', m)
main()
