#!/usr/bin/env python3
"""Reads /verif/evidence/C*.json (written by a quick run on the unchanged tree) and prints the sub-checks whose
self-checks are close to firing without a defect: a required class whose observed count is within 6 standard deviations of
its per-mille requirement, and a sub-check whose cases used 80 % or more of the declared draw-vector length. Either would
make a check report itself inconclusive (exit 2) for some seeds; both are fixed by adjusting the generator's declaration,
never the oracle."""
import json, glob, math
for f in sorted(glob.glob('/verif/evidence/C*.json')):
    e = json.load(open(f))
    for name, sc in e['coverage']['per_subcheck'].items():
        n = sc['evaluations']
        for cls, pm in (sc.get('required_classes_per_mille') or {}).items():
            c = sc['classes'].get(cls, 0)
            need = n * pm / 1000.0
            p = max(c / n, 1e-9) if n else 1e-9
            sd = math.sqrt(n * p * (1 - p)) or 1
            z = (c - need) / sd
            if z < 6:
                print(f"{e['property_id']} {name}: class {cls} reached {c} times, {need:.0f} required, n={n} (z = {z:.1f})")
        L, u = sc.get('draw_vector_len'), sc.get('max_draws_used')
        if L and u is not None and u >= 0.8 * L:
            print(f"{e['property_id']} {name}: draw vector length {L}, largest number of draws used {u}")
